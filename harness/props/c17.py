"""C17 -- spelling, voice and key estimation are total, well-formed and pitch-preserving.

Streams of cases, all drawn from ctx.rng:

  spelling  estimate_spelling on shuffled note arrays     vs  statement (sounds the MIDI pitch,
            |alter| <= 2, row-order independence by re-running on a permutation)
                                                          vs  Model/C17_Spelling.v (exact)
  voices    estimate_voices, both modes, zero durations   vs  statement (one positive voice per
            note, voices {1..k}, chord mode: equal (onset, duration) => equal voice)
                                                          vs  Model/C17_Voices.v with the REAL
            VoSA(...).note_array() rows fed in as the value of the oracle
  key       estimate_key, three profile sets, every name  vs  statement (valid name, octave /
            rescale invariance, transposition equivariance) vs Model/C17_Key.v (near-ties skipped)
  key_scale estimate_key on inputs SEARCHED for a small margin between their two best keys, as given
            and with durations / onsets times 2^-20 .. 2^20, octave shifts   vs  the same string (exact)
  midi      load_score_midi on files built with mido      vs  multiset of (onset, pitch) written
  orders    estimate_spelling on arrays with unisons of different durations late in dense chromatic
            contexts, canonical order vs seven others (four of them sorted by (onset, pitch))
                                                          vs  note-by-note equality; model on the
            tie-break-observable ones in a sorted non-canonical order
  histories the three entry points called again and again on two arrays (views, read-only, edited
            in place, results overwritten)               vs  statement on the CURRENT rows, fresh
            copy, first answer, aliasing; Model/C17_History.v (state machine) for the spelling calls

Constant tables (ps13 tables, key profile matrices, KEYS) are reflected from the working
tree into coq/Gen/C17_*.v by gen() on every run; the kernel re-checks the proofs over them.
"""
import ast
import inspect
import itertools
import json
import math
import os
import re
import textwrap
import time
from fractions import Fraction

import core
from core import cz, cstr, clist, ctuple, cbool, cnat

STEP_PC = {"C": 0, "D": 2, "E": 4, "F": 5, "G": 7, "A": 9, "B": 11}
# documented meaning of the accepted key profile names (estimate_key docstring / error text)
PROFILE_SETS = {"krumhansl_kessler": 0, "kk": 0, "ks": 0,
                "temperley": 1, "tp": 1, "cmbs": 1,
                "kostka_payne": 2, "kp": 2}


# ----------------------------------------------------------------------------
# reflection of the constant tables


def _ps13_tables_by_probing(PS):
    """init_morph / morph_int read off compute_morph_array's behaviour (used when the two tables are
    not literal assignments inside that function any more, e.g. moved to module level).
    One note of chroma c whose context is itself gets morph init_morph[c]; a second note of chroma d
    after a first note of chroma 0, with the context {0}, gets (morph_int[d] - morph_int[0] +
    init_morph[0]) mod 7.  ps13 uses morph_int only through differences mod 7, so the table
    normalised to morph_int[0] = 0 describes the same algorithm."""
    import numpy as np

    def onehot(c):
        v = np.zeros(12, dtype=int)
        v[c] = 1
        return v

    init = [int(PS.compute_morph_array(np.array([c]), np.array([onehot(c)]))[0]) % 7 for c in range(12)]
    mint = [(int(PS.compute_morph_array(np.array([0, d]), np.array([onehot(0), onehot(0)]))[1]) - init[0]) % 7
            for d in range(12)]
    return init, mint


def _ps13_tables_by_api():
    """The same two tables read off the PUBLIC function (estimate_spelling on one- and four-note
    arrays): a lone note of chroma c is spelled with the step of morph init_morph[c]; after three
    notes of chroma 0 a note of chroma d (context: three times chroma 0, once d) gets the morph
    (morph_int[d] - morph_int[0] + init_morph[0]) mod 7.  Names of internals are not used at all."""
    import numpy as np
    from partitura.musicanalysis import estimate_spelling

    steps = "ABCDEFG"

    def morphs(pitches):
        a = np.zeros(len(pitches), dtype=[("onset_beat", "f4"), ("duration_beat", "f4"), ("pitch", "i4")])
        a["onset_beat"] = np.arange(len(pitches))
        a["duration_beat"] = 1
        a["pitch"] = pitches
        return [steps.index(str(s["step"])) for s in estimate_spelling(a)]

    init = [morphs([57 + c])[0] for c in range(12)]
    mint = [(morphs([57, 57, 57, 57 + d])[3] - init[0]) % 7 for d in range(12)]
    return init, mint


def _ps13_tables_by_ast(PS):
    found = {}
    src = textwrap.dedent(inspect.getsource(PS.compute_morph_array))
    for node in ast.walk(ast.parse(src)):
        if isinstance(node, ast.Assign) and len(node.targets) == 1 and isinstance(node.targets[0], ast.Name) \
                and node.targets[0].id in ("init_morph", "morph_int"):
            v = node.value
            if isinstance(v, ast.Call) and v.args:
                v = v.args[0]
            found[node.targets[0].id] = [int(x) for x in ast.literal_eval(v)]
    if sorted(found) != ["init_morph", "morph_int"] or any(len(v) != 12 for v in found.values()):
        raise RuntimeError("no literal tables in compute_morph_array")
    m0 = found["morph_int"][0]
    return found["init_morph"], [(x - m0) % 7 for x in found["morph_int"]]


def _ps13_tables():
    """The two ps13 tables BY VALUE: what the code does with them, not where or under which name
    it keeps them (a table renamed, moved to module level, merged into a matrix or computed is the
    same table; a table with another entry is another one).  Order of preference: probing
    compute_morph_array (the function of the anchors; exact for every entry), probing the public
    estimate_spelling, the literals in the source.  morph_int is normalised to morph_int[0] = 0
    (ps13 uses it only through differences mod 7)."""
    import partitura.musicanalysis.pitch_spelling as PS

    found, errors = {}, []
    for how, fn in (("probing compute_morph_array", lambda: _ps13_tables_by_probing(PS)),
                    ("probing estimate_spelling", _ps13_tables_by_api),
                    ("literals in the source of compute_morph_array", lambda: _ps13_tables_by_ast(PS))):
        try:
            init, mint = fn()
            if len(init) != 12 or len(mint) != 12:
                raise RuntimeError("not 12 entries")
            found["init_morph"], found["morph_int"] = [int(x) % 7 for x in init], [int(x) % 7 for x in mint]
            found["tables_from"] = how
            break
        except Exception as e:
            errors.append("%s: %s" % (how, str(e)[:120]))
    if "init_morph" not in found:
        raise RuntimeError("cannot reflect the ps13 tables: " + "; ".join(errors))
    try:        # the other two ways of reading them, for the record (counted, not demanded)
        found["tables_agree_with_api_probe"] = (found["init_morph"], found["morph_int"]) == tuple(map(list, _ps13_tables_by_api()))
    except Exception:
        found["tables_agree_with_api_probe"] = None
    try:
        sig = inspect.signature(PS.ps13s1)
        found["k_pre"] = int(sig.parameters["K_pre"].default)
        found["k_post"] = int(sig.parameters["K_post"].default)
    except Exception:       # ps13s1 renamed / defaults elsewhere: the documented defaults; the correspondence
        found["k_pre"], found["k_post"] = 10, 40      # (arrays of up to 300 rows) decides whether they are the code's
        found["tables_from"] += "; K_pre/K_post: documented defaults"
    found["und_chroma"] = [int(x) for x in getattr(PS, "UND_CHROMA", [0, 2, 3, 5, 7, 8, 10])]
    found["steps"] = [str(x) for x in getattr(PS, "STEPS", "ABCDEFG")]
    return found


def _note_midi_table(steps):
    """score.Note(step, octave, alter).midi_pitch as partitura computes it, on the complete domain a
    spelling of a pitch 21..108 with at most a double accidental can fall in (315 notes)."""
    import partitura.score as S

    rows = []
    for st in steps:
        for al in range(-2, 3):
            for oc in range(0, 9):
                rows.append((st, al, oc, int(S.Note(step=st, octave=oc, alter=al).midi_pitch)))
    return rows


def _scaled_matrix(mat):
    frs = [[Fraction(float(x)) for x in row] for row in mat]
    L = 1
    for row in frs:
        for f in row:
            L = L * f.denominator // math.gcd(L, f.denominator)
    return [[int(f * L) for f in row] for row in frs]


def _key_tables():
    import partitura.musicanalysis.key_identification as KI
    import partitura.utils.music as M

    T = {k: _scaled_matrix(m) for k, m in zip(("kk", "cbms", "kp"), _matrices())}
    T["keys"] = [(str(r), str(m), int(f)) for r, m, f in KI.KEYS]
    T["names"] = [str(KI.format_key(*k)) for k in KI.KEYS]
    parse = []
    for nm in T["names"]:
        try:
            f, m = M.key_name_to_fifths_mode(nm)
            parse.append((nm, (int(f), str(m))))
        except Exception:
            parse.append((nm, None))
    T["parse"] = parse
    try:
        from partitura.utils.globals import VALID_KEY_PROFILES
        T["valid_profiles"] = [str(x) for x in VALID_KEY_PROFILES]
    except Exception:      # the list is an internal: without it, the documented names
        T["valid_profiles"] = sorted(PROFILE_SETS)
    return T


def _vs_max_cost():
    """MAX_COST of voice_separation by value: the cost pairwise_cost gives a connection to a voice that was
    skipped before; the module constant, 1000 (the documented value) if neither can be read."""
    import partitura.musicanalysis.voice_separation as VS

    try:
        a, b = VS.VSNote(60, 0, 1, 0), VS.VSNote(62, 1, 1, 1)
        a.skip_contig = 1
        v = float(VS.pairwise_cost([a], [b])[0, 0])
        if v == int(v) and v > 0:
            return int(v)
    except Exception:
        pass
    try:
        return int(VS.MAX_COST)
    except Exception:
        return 1000


def gen():
    core.setup_import_path()
    P = _ps13_tables()
    hdr = ["(* GENERATED by harness/props/c17.py from the working tree -- do not edit *)",
           "From Coq Require Import ZArith List String.", "Import ListNotations.", "Open Scope Z_scope.", ""]
    L = list(hdr)
    L.append("Definition ps_init_morph : list Z := %s." % clist([cz(x) for x in P["init_morph"]]))
    L.append("Definition ps_morph_int : list Z := %s." % clist([cz(x) for x in P["morph_int"]]))
    L.append("Definition ps_und_chroma : list Z := %s." % clist([cz(x) for x in P["und_chroma"]]))
    L.append("Definition ps_steps : list string := %s." % clist([cstr(x) for x in P["steps"]]))
    L.append("Definition ps_k_pre : Z := %s." % cz(P["k_pre"]))
    L.append("Definition ps_k_post : Z := %s." % cz(P["k_post"]))
    core.write_gen("C17_PS13", "\n".join(L) + "\n")
    L = list(hdr)
    L.append("Definition note_midi_tab : list (string * Z * Z * Z) := [\n  %s\n]." %
             ";\n  ".join(ctuple([cstr(a), cz(b), cz(c), cz(d)]) for a, b, c, d in _note_midi_table(P["steps"])))
    core.write_gen("C17_MidiTab", "\n".join(L) + "\n")
    L = list(hdr)
    L.append("Definition vs_max_cost : Z := %s." % cz(_vs_max_cost()))
    core.write_gen("C17_VSTab", "\n".join(L) + "\n")
    K = _key_tables()
    L = list(hdr)
    for nm in ("kk", "cbms", "kp"):
        L.append("Definition key_matrix_%s : list (list Z) := [\n  %s\n]." %
                 (nm, ";\n  ".join(clist([cz(x) for x in row]) for row in K[nm])))
    L.append("Definition keys_table : list (string * string * Z) := [\n  %s\n]." %
             ";\n  ".join(ctuple([cstr(r), cstr(m), cz(f)]) for r, m, f in K["keys"]))
    L.append("Definition key_names_impl : list string := %s." % clist([cstr(x) for x in K["names"]]))
    L.append("Definition key_parse_tab : list (string * option (Z * string)) := [\n  %s\n]." %
             ";\n  ".join(ctuple([cstr(nm), "None" if r is None else "(Some %s)" % ctuple([cz(r[0]), cstr(r[1])])])
                          for nm, r in K["parse"]))
    L.append("Definition valid_key_profiles : list string := %s." % clist([cstr(x) for x in K["valid_profiles"]]))
    core.write_gen("C17_KeyTab", "\n".join(L) + "\n")
    return P, K


# ----------------------------------------------------------------------------
# helpers


def _ints(values):
    """floats (dyadic rationals) -> integers by one common scaling (order/equality/ratio preserving)."""
    frs = [Fraction(float(v)) for v in values]
    L = 1
    for f in frs:
        L = L * f.denominator // math.gcd(L, f.denominator)
    return [int(f * L) for f in frs]


def _coq_failing(ctx, name, imports, terms, checker, shard, ty=None):
    """ctx.coq_failing, but a model that no longer compiles/evaluates is a failed obligation, not a crash."""
    if not terms:
        ctx.obligation("correspondence (%s): no case reached the model" % name, False, "")
        return None
    try:
        return ctx.coq_failing(name, imports, "", terms, checker, shard=shard, ty=ty)
    except RuntimeError as e:
        ctx.obligation("correspondence (%s): the Coq model could not be evaluated" % name, False, str(e)[-800:])
        ctx.extra.setdefault("model_eval_errors", []).append(name)
        return None


class CpuBudgetExceeded(BaseException):
    """The implementation used more CPU time than a call on an input of this size can need (a loop that does
    not terminate).  BaseException: no `except Exception` of the code under test may swallow it."""


CPU_BUDGET_S = 30.0      # estimate_voices on 300 notes needs 0.15 s


class _cpu_budget(object):
    """Budget of CPU time (ITIMER_VIRTUAL counts the time this process executes, not the wall clock: a loaded
    machine does not shorten it) for one call of the implementation."""

    def __init__(self, seconds, what):
        self.seconds, self.what = seconds, what

    def __enter__(self):
        import signal

        def fire(signum, frame):
            raise CpuBudgetExceeded("%s used more than %.0f s of CPU time" % (self.what, self.seconds))

        self.old = signal.signal(signal.SIGVTALRM, fire)
        signal.setitimer(signal.ITIMER_VIRTUAL, self.seconds)
        return self

    def __exit__(self, *a):
        import signal

        signal.setitimer(signal.ITIMER_VIRTUAL, 0)
        signal.signal(signal.SIGVTALRM, self.old)
        return False


# (time unit, dtype[, a LESS preferred unit whose columns are present too and hold other values]) -- the functions
# take the score unit when both are there (docstrings), in the order beat, quarter, div, sec, tick
UNITS = [("beat", "f4"), ("quarter", "f4"), ("div", "i4"), ("sec", "f4"), ("tick", "i4"), ("beat", "f8"),
         ("beat", "f4", "sec"), ("quarter", "f4", "div"), ("div", "i4", "tick"), ("sec", "f4", "tick"), ("beat", "f8", "quarter")]


def _array(rows, unit=("beat", "f4")):
    """rows: (onset, duration, pitch) -> structured note array in the given unit.  With a third component the array
    also has onset/duration columns of that (less preferred) unit, placed FIRST and filled with unrelated values, a
    velocity and an id column: what note arrays of scores and performances carry besides the three fields used."""
    import numpy as np

    u, dt = unit[0], unit[1]
    if len(unit) < 3:
        return np.array([(o, d, p) for o, d, p in rows],
                        dtype=[("onset_" + u, dt), ("duration_" + u, dt), ("pitch", "i4")])
    v = unit[2]
    vdt = "i4" if v in ("div", "tick") else "f4"
    return np.array([((7 * i) % 5, 1 + i % 3, 64, "n%d" % i, o, p, d) for i, (o, d, p) in enumerate(rows)],
                    dtype=[("onset_" + v, vdt), ("duration_" + v, vdt), ("velocity", "i4"), ("id", "U8"),
                           ("onset_" + u, dt), ("pitch", "i4"), ("duration_" + u, dt)])


def _rows_as_stored(rows, unit):
    """the values as the array stores them (float32 rounding / int truncation applied)."""
    a = _array(rows, unit)
    u = unit[0]
    return [(float(o), float(d), int(p)) for o, d, p in zip(a["onset_" + u], a["duration_" + u], a["pitch"])]


def gen_rows(rng, n, lo, hi, int_times=False, zero_w=0.1, tonal=False):
    """Note rows with the corner cases C17 names: simultaneous, overlapping, zero-length,
    equal (onset, pitch) with different durations, exact duplicates, any order."""
    grid = rng.choice([1, 2, 4, 8]) if not int_times else 1
    span = max(1, int(n * rng.choice([0.1, 0.3, 0.6, 1.0, 2.0])))
    durs = [0.125, 0.25, 0.5, 0.5, 1, 1, 1, 1.5, 2, 3, 4] if not int_times else [1, 1, 2, 3, 4, 6, 8, 12]
    scale = rng.choice([[0, 2, 4, 5, 7, 9, 11], [0, 2, 3, 5, 7, 8, 10], [0, 2, 3, 5, 7, 8, 11]])
    tonic = rng.randint(0, 11)
    rows = []
    while len(rows) < n:
        o = rng.randint(0, span * grid) / grid if not int_times else rng.randint(0, span * 4)
        d = 0 if rng.random() < zero_w else rng.choice(durs)
        if tonal and rng.random() < 0.9:
            p = None
            while p is None or not (lo <= p <= hi):
                p = 12 * rng.randint(lo // 12, hi // 12) + (tonic + rng.choice(scale)) % 12
        else:
            p = rng.randint(lo, hi)
        rows.append((o, d, p))
        r = rng.random()
        if r < 0.10 and len(rows) < n:      # chord: same onset and duration
            for _ in range(rng.randint(1, 3)):
                if len(rows) < n:
                    rows.append((o, d, rng.randint(lo, hi)))
        elif r < 0.16 and len(rows) < n:    # same onset and pitch, other duration
            rows.append((o, rng.choice(durs), p))
        elif r < 0.20 and len(rows) < n:    # exact duplicate
            rows.append((o, d, p))
    order = rng.random()
    if order < 0.7:
        rng.shuffle(rows)
    elif order < 0.8:
        rows.sort()
    elif order < 0.9:
        rows.sort(reverse=True)
    return rows


def sizes(rng, count, big):
    """many small arrays, a few large ones (1..300 rows)."""
    out = []
    for i in range(count):
        r = rng.random()
        if i < big:
            out.append(rng.choice([120, 200, 300, 300]))
        elif r < 0.35:
            out.append(rng.randint(1, 6))
        elif r < 0.8:
            out.append(rng.randint(7, 40))
        else:
            out.append(rng.randint(41, 110))
    return out


# ----------------------------------------------------------------------------
# 1. spelling


def run_spelling_impl(rows, unit, kw):
    from partitura.musicanalysis import estimate_spelling

    with _cpu_budget(CPU_BUDGET_S, "estimate_spelling"):
        sp = estimate_spelling(_array(rows, unit), **kw)
    return [(str(s["step"]), int(s["alter"]), int(s["octave"])) for s in sp]


def spelling_oracle(rows, unit, kw, perm):
    """-> (None | description, out).  rows as given; perm: a permutation of range(len(rows))."""
    try:
        out = run_spelling_impl(rows, unit, kw)
    except CpuBudgetExceeded as e:
        return "estimate_spelling does not return: %s" % e, None
    except Exception as e:
        return "estimate_spelling raised %s: %s" % (type(e).__name__, e), None
    if len(out) != len(rows):
        return "estimate_spelling returned %d spellings for %d rows" % (len(out), len(rows)), out
    for i, ((o, d, p), (st, al, oc)) in enumerate(zip(rows, out)):
        if st not in STEP_PC:
            return "row %d: step %r is no step" % (i, st), out
        m = 12 * (oc + 1) + STEP_PC[st] + al
        if m != p:
            return "row %d pitch %d spelled %s alter %d octave %d which sounds %d" % (i, p, st, al, oc, m), out
        if abs(al) > 2:
            return "row %d pitch %d spelled %s with alter %d (more than a double accidental)" % (i, p, st, al), out
    rows2 = [rows[i] for i in perm]
    try:
        out2 = run_spelling_impl(rows2, unit, kw)
    except Exception as e:
        return "estimate_spelling raised %s on a permutation of the rows: %s" % (type(e).__name__, e), out
    stored = _rows_as_stored(rows, unit)
    a, b = {}, {}
    for r, s in zip(stored, out):
        a.setdefault(r, []).append(s)
    for i, s in zip(perm, out2):
        b.setdefault(stored[i], []).append(s)
    for r in a:
        if sorted(a[r]) != sorted(b.get(r, [])):
            return ("row-order dependence: note (onset %r, duration %r, pitch %d) is spelled %r in the given order and %r after permuting the rows"
                    % (r[0], r[1], r[2], sorted(a[r]), sorted(b.get(r, [])))), out
    return None, out


def sweep_rows(rng, c0, c, ct):
    """A note array that realises one point of the finite domain the alter bound is proved over
    (ps13_alter_sweep): the FIRST note in (onset, pitch) order has chroma c0 (chroma = (pitch - 21) mod 12),
    the LAST is a note of chroma c, and between them the tonic chroma ct dominates the context (k >= 3 notes),
    so that the morph selected for the note is its morph under tonic ct.  Octaves, onsets (sequence or
    one chord), k and the row order are drawn."""
    k = rng.choice([3, 3, 4, 6])
    first = 21 + c0 + 12 * rng.randint(0, 1)
    body = [21 + ct + 12 * rng.randint(2, 6) for _ in range(k)]
    last = 21 + c + 12 * rng.randint(2, 6)
    ps = [first] + body + [last]
    if rng.random() < 0.25:      # everything at one onset: the lowest pitch (octaves 0..1) is the first note
        rows = [(0, rng.choice([0, 1, 1, 2]), p) for p in ps]
    else:
        rows = [(i, rng.choice([0, 1, 1, 2]), p) for i, p in enumerate(ps)]
    if rng.random() < 0.7:
        rng.shuffle(rows)
    return rows


def run_spelling(ctx):
    rng = ctx.rng
    count, big = (220, 4) if ctx.tier == "quick" else (5000, 60)
    terms, kept = [], []
    nviol = 0
    inputs = []
    # (1) the complete finite domain of the alter bound, on the implementation: every (first chroma, chroma,
    # tonic chroma) as a concrete array -- a table entry that spells some note with a triple accidental
    # is found here as an input, not only as a proof that no longer checks
    triples = [(c0, c, ct) for c0 in range(12) for c in range(12) for ct in range(12)]
    to_model = rng.randrange(6)
    for rep in range(1 if ctx.tier == "quick" else 4):
        for ti, (c0, c, ct) in enumerate(triples):
            unit = rng.choice(UNITS)
            rows = sweep_rows(rng, c0, c, ct)
            kw = {} if rng.random() < 0.85 else {"K_pre": rng.choice([4, 10]), "K_post": rng.choice([1, 2, 5])}
            inputs.append((rows, unit, kw, "sweep", ctx.tier != "quick" or ti % 6 == to_model))
    # (2) random arrays
    for n in sizes(rng, count, big):
        unit = rng.choice(UNITS)
        rows = gen_rows(rng, n, 21, 108, int_times=unit[1] == "i4", tonal=rng.random() < 0.5)
        kw = {}
        if rng.random() < 0.15:
            kw = {"K_pre": rng.choice([0, 1, 3, 10]), "K_post": rng.choice([1, 2, 5, 40])}
        inputs.append((rows, unit, kw, "random", True))
    for rows, unit, kw, src, model in inputs:
        n = len(rows)
        perm = list(range(len(rows)))
        rng.shuffle(perm)
        ctx.evaluations += 1
        if len(unit) > 2:
            ctx.count("spelling:array_with_columns_of_a_second_unit")
        if src == "sweep":
            ctx.count("spelling:sweep(first chroma, chroma, dominating tonic chroma)")
        else:
            ctx.count("spelling:n<=6" if n <= 6 else "spelling:n<=40" if n <= 40 else "spelling:n<=110" if n <= 110 else "spelling:n>110")
        bad, out = spelling_oracle(rows, unit, kw, perm)
        case = {"kind": "spelling", "rows": rows, "unit": list(unit), "kwargs": kw, "perm": perm, "src": src}
        if bad:
            nviol += 1
            if nviol <= 3:
                case = shrink_spelling(case)
                bad2, out2 = spelling_oracle(case["rows"], tuple(case["unit"]), case["kwargs"], case["perm"])
                case["got"] = out2
                ctx.violation("spelling: " + (bad2 or bad), case)
            continue
        stored = _rows_as_stored(rows, unit)
        keys = {(o, p) for o, d, p in stored}
        if len(stored) >= 2 and (len(keys) < len(stored) or any(al != 0 for _, al, _ in out)):
            ctx.nontrivial(("sp", stored, sorted(kw.items())))
        if src == "random":
            if len(keys) < len(stored):
                ctx.count("spelling:has_equal_onset_pitch")
            if any(d == 0 for _, d, _ in stored):
                ctx.count("spelling:has_zero_duration")
            if kw:
                ctx.count("spelling:non_default_K_pre_K_post")
            if any(abs(al) == 2 for _, al, _ in out):
                ctx.count("spelling:has_double_accidental")
            if unit[1] == "i4":
                ctx.count("spelling:integer_time_unit")
        elif any(abs(al) == 2 for _, al, _ in out):
            ctx.count("spelling:sweep_has_double_accidental")
        if not model:
            continue
        ons = _ints([o for o, d, p in stored] + [d for o, d, p in stored])
        nn = len(stored)
        crow = clist([ctuple([cz(ons[i]), cz(stored[i][2]), cz(ons[nn + i])]) for i in range(nn)])
        cout = clist([ctuple([cstr(st), cz(al), cz(oc)]) for st, al, oc in out])
        terms.append(ctuple([cnat(kw.get("K_pre", 10)), cnat(kw.get("K_post", 40)), crow, cout]))
        case["got"] = out
        kept.append(case)
        if len(rows) <= 8:
            ctx.sample({"spelling_case": {"rows": rows, "unit": list(unit), "got": out}}, limit=2)
    failing = _coq_failing(ctx, "spelling", "From PV Require Import Model.C17_Spelling Model.C17_Chroma.", terms, "spell_check_v", 40)
    if failing is None:
        return
    ctx.obligation("correspondence: estimate_spelling = Model.C17_Chroma.spell_tab_v (ps13 spelled from the running context vectors; theorem "
                   "ps13_running_context_refines: = spell_tab; multiset of (row, step, alter, octave)) on %d shuffled arrays, %d of them points of the "
                   "(first chroma, chroma, tonic chroma) sweep" % (len(terms), sum(1 for c in kept if c.get("src") == "sweep")), not failing, failing[:5])
    for i in failing[:3]:
        ctx.violation("spelling: implementation and model disagree (the theorems of Props/C17.v are about the model)", kept[i])


def run_chroma(ctx):
    """compute_chroma_vector_array (the running context vectors named in the property's anchors) called
    directly on chroma arrays, against Model.C17_Chroma.chroma_vectors: arrays shorter than K_post, longer than
    K_pre + K_post, K_pre = 0, K_post = 0/1."""
    import numpy as np
    import partitura.musicanalysis.pitch_spelling as PS

    fn = getattr(PS, "compute_chroma_vector_array", None)
    if fn is None:
        ctx.count("chroma:compute_chroma_vector_array_not_found(context vectors only tied through estimate_spelling)")
        return
    rng = ctx.rng
    count = 160 if ctx.tier == "quick" else 3000
    terms, kept = [], []
    for ci in range(count):
        n = rng.choice([1, 1, 2, 3, 5, 8, 13, 30, 60]) if ci % 9 else rng.randint(90, 160)
        kpre, kpost = rng.choice([0, 1, 2, 3, 10, 10]), rng.choice([0, 1, 1, 2, 5, 40, 40])
        pool = rng.sample(range(12), rng.randint(1, 12))
        cs = [rng.choice(pool) for _ in range(n)]
        ctx.evaluations += 1
        ctx.count("chroma:direct_calls")
        case = {"kind": "chroma", "chroma_array": cs, "K_pre": kpre, "K_post": kpost}
        try:
            out = fn(chroma_array=np.array(cs, dtype=int), K_pre=kpre, K_post=kpost)
            out = [[int(x) for x in row] for row in out]
        except Exception as e:      # an internal function: its signature is not the property's business
            ctx.count("chroma:direct_call_raised(%s)(not demanded)" % type(e).__name__)
            return
        if n > kpre + kpost:
            ctx.count("chroma:array_longer_than_K_pre+K_post")
        if n < kpost:
            ctx.count("chroma:array_shorter_than_K_post")
        if len(cs) >= 2 and len(set(cs)) >= 2:
            ctx.nontrivial(("cv", cs, kpre, kpost))
        case["got"] = out
        terms.append(ctuple([cnat(kpre), cnat(kpost), clist([cz(c) for c in cs]), clist([clist([cz(x) for x in row]) for row in out])]))
        kept.append(case)
    failing = _coq_failing(ctx, "chroma", "From PV Require Import Model.C17_Chroma.", terms, "cv_check", 60)
    if failing is None:
        return
    ctx.obligation("correspondence: compute_chroma_vector_array = Model.C17_Chroma.chroma_vectors (theorem chroma_vectors_are_window_counts: "
                   "the counts of the notes j-K_pre .. j+K_post-1) on %d chroma arrays, K_pre 0..10, K_post 0..40" % len(terms), not failing, failing[:5])
    for i in failing[:3]:
        ctx.violation("spelling: compute_chroma_vector_array and the model of the running context vectors disagree", kept[i])


def shrink_spelling(case):
    unit, kw = tuple(case["unit"]), case["kwargs"]
    rows = case["rows"]

    def fails(sub):
        perm = list(range(len(sub)))[::-1]
        return spelling_oracle(sub, unit, kw, perm)[0] is not None

    try:
        if fails(rows):
            small = core.ddmin(rows, fails)
            return {"kind": "spelling", "rows": small, "unit": list(unit), "kwargs": kw, "perm": list(range(len(small)))[::-1]}
    except Exception:
        pass
    return case


# ----------------------------------------------------------------------------
# 1b. spelling: row orders that are ALREADY sorted -- and differ only inside the ties


def gen_unison_rows(rng, int_times):
    """A dense chromatic passage (12..70 onsets, pitches drawn uniformly from a register of one to four octaves) in which,
    from the tenth note on (sometimes from the start), about a third of the notes are doubled by one or two notes of the
    same onset and pitch but another duration (zero included), a sixth of the onsets are chords.  The context windows of
    the members of such a unison differ by the one note that leaves the window (position - K_pre) and the one that enters
    it (position + K_post): wherever that note tips the balance between two morphs the members are spelled differently,
    and which member gets which spelling is decided by the duration key of the canonical order alone."""
    n = rng.randint(12, 70)
    durs = [1, 2, 3, 4, 6, 8] if int_times else [0.25, 0.5, 1, 1.5, 2, 3]
    lo = rng.choice([21, 40, 45, 57, 60])
    hi = min(108, lo + rng.choice([12, 24, 45, 45]))
    start = rng.choice([0, 9, 9, 9])
    step = 1 if int_times else rng.choice([0.5, 1])
    rows, o = [], 0
    for i in range(n):
        p, d = rng.randint(lo, hi), rng.choice(durs)
        rows.append((o, d, p))
        if i >= start and rng.random() < 0.3:
            others = [x for x in durs + [0] if x != d]
            for d2 in rng.sample(others, 1 if rng.random() < 0.8 else 2):
                rows.append((o, d2, p))
        if rng.random() < 0.15:
            rows.append((o, rng.choice(durs), rng.randint(lo, hi)))
        if rng.random() < 0.8:
            o += step
    return rows


def _canonical(rows):
    return sorted(rows, key=lambda r: (r[0], r[2], r[1]))


def order_variants(rng, rows):
    """Row orders of one set of (onset, duration, pitch) rows: -> list of (name, rows).  The first ones are all sorted by
    (onset, pitch) -- what a note array of a Part looks like -- and differ only inside the groups of equal (onset, pitch);
    then orders sorted by onset only; then unsorted ones."""
    canon = _canonical(rows)

    def shuffled_groups(key):
        groups, out = {}, []
        for r in canon:
            groups.setdefault(key(r), []).append(r)
        for k in sorted(groups):
            g = groups[k]
            rng.shuffle(g)
            out.extend(g)
        return out

    out = [("sorted by (onset, pitch), equal (onset, pitch) by DEcreasing duration", sorted(rows, key=lambda r: (r[0], r[2], -r[1]))),
           ("sorted by (onset, pitch), equal (onset, pitch) in a drawn order", shuffled_groups(lambda r: (r[0], r[2])))]
    pairs = [i for i in range(len(canon) - 1) if canon[i][0] == canon[i + 1][0] and canon[i][2] == canon[i + 1][2] and canon[i][1] != canon[i + 1][1]]
    if pairs:
        i = rng.choice(pairs[len(pairs) // 2:])         # one late unison exchanged, everything else canonical
        one = list(canon)
        one[i], one[i + 1] = one[i + 1], one[i]
        out.append(("canonical order with ONE pair of equal (onset, pitch) exchanged (rows %d, %d)" % (i, i + 1), one))
    out += [("sorted by onset, equal onsets by DEcreasing pitch", sorted(rows, key=lambda r: (r[0], -r[2], r[1]))),
            ("sorted by onset, equal onsets in a drawn order", shuffled_groups(lambda r: r[0])),
            ("canonical order reversed", canon[::-1])]
    sh = list(canon)
    rng.shuffle(sh)
    out.append(("shuffled", sh))
    return out


def _judge_spelling(stored, out, kpost=40):
    """the statement on one returned spelling against the rows it was asked about: -> None | description"""
    if len(out) != len(stored):
        return "estimate_spelling returned %d spellings for %d rows" % (len(out), len(stored))
    for i, ((o, d, p), (st, al, oc)) in enumerate(zip(stored, out)):
        if st not in STEP_PC:
            return "row %d: step %r is no step" % (i, st)
        m = 12 * (oc + 1) + STEP_PC[st] + al
        if m != p:
            return "row %d pitch %d spelled %s alter %d octave %d which sounds %d" % (i, p, st, al, oc, m)
        if abs(al) > 2 and kpost >= 1:
            return "row %d pitch %d spelled %s with alter %d (more than a double accidental)" % (i, p, st, al)
    return None


def _spell_map(stored, out):
    m = {}
    for r, s in zip(stored, out):
        m.setdefault(r, []).append(s)
    return {r: sorted(v) for r, v in m.items()}


def orders_oracle(rows_a, rows_b, unit, kw):
    """Two orders of the same rows: -> (None | description, spelling of rows_a, spelling of rows_b)."""
    outs = []
    for rows in (rows_a, rows_b):
        try:
            out = run_spelling_impl(rows, unit, kw)
        except CpuBudgetExceeded as e:
            return "estimate_spelling does not return: %s" % e, None, None
        except Exception as e:
            return "estimate_spelling raised %s: %s" % (type(e).__name__, e), None, None
        bad = _judge_spelling(_rows_as_stored(rows, unit), out, kw.get("K_post", 40))
        if bad:
            return bad, out, None
        outs.append(out)
    sa, sb = _rows_as_stored(rows_a, unit), _rows_as_stored(rows_b, unit)
    if sorted(sa) != sorted(sb):
        return None, outs[0], outs[1]         # not two orders of one set of notes (a shrinking step): nothing to compare
    ma, mb = _spell_map(sa, outs[0]), _spell_map(sb, outs[1])
    for r in sorted(ma):
        if ma[r] != mb[r]:
            return ("row-order dependence: note (onset %r, duration %r, pitch %d) is spelled %r when the rows are in canonical (onset, pitch, duration) "
                    "order and %r in the other order of the same rows" % (r[0], r[1], r[2], ma[r], mb[r])), outs[0], outs[1]
    return None, outs[0], outs[1]


def run_spelling_orders(ctx):
    """Order independence where it is decided: arrays in which notes of equal (onset, pitch) and different duration sit late in
    a dense chromatic context, each in up to seven row orders -- among them orders that are, like the canonical one, sorted
    by (onset, pitch) and differ from it only inside the ties (an implementation that takes a sorted array as it comes, or
    sorts by fewer keys, by a non-stable sort or by another tie-break, has nothing else to show for it).  Candidates in
    which the members of such a unison are SPELLED DIFFERENTLY (the tie-break is observable) are counted, and those go to
    the model in a non-canonical sorted order."""
    rng = ctx.rng
    count = 300 if ctx.tier == "quick" else 5000
    cap = 45 if ctx.tier == "quick" else 600
    terms, kept = [], []
    nviol = sensitive = 0
    for ci in range(count):
        unit = rng.choice(UNITS)
        rows = gen_unison_rows(rng, unit[1] == "i4")
        kw = {}
        if rng.random() < 0.2:
            kw = {"K_pre": rng.choice([0, 1, 3, 10]), "K_post": rng.choice([1, 2, 5, 40])}
        canon = _canonical(rows)
        ctx.evaluations += 1
        ctx.count("orders:candidate_arrays")
        is_sensitive = None
        for name, other in order_variants(rng, rows):
            bad, out_a, out_b = orders_oracle(canon, other, unit, kw)
            ctx.count("orders:pairs_of_row_orders_compared")
            if is_sensitive is None and out_a is not None:
                m = _spell_map([(o, p) for o, d, p in _rows_as_stored(canon, unit)], out_a)
                is_sensitive = any(len(set(v)) > 1 for v in m.values())
                if is_sensitive:
                    sensitive += 1
                    ctx.count("orders:arrays_where_notes_of_equal_onset_and_pitch_are_spelled_differently")
                    ctx.nontrivial(("ord", _rows_as_stored(canon, unit), sorted(kw.items())))
            case = {"kind": "spelling_orders", "rows_canonical": canon, "rows_other": other, "other_order": name, "unit": list(unit), "kwargs": kw}
            if bad:
                nviol += 1
                if nviol <= 3:
                    case = shrink_orders(case)
                    bad2, a2, b2 = orders_oracle(case["rows_canonical"], case["rows_other"], tuple(case["unit"]), kw)
                    case["got_canonical"], case["got_other"] = a2, b2
                    ctx.violation("spelling: " + (bad2 or bad), case)
                break
            if is_sensitive and len(terms) < cap and name.startswith("sorted by (onset, pitch)") and out_b is not None \
                    and (not kept or kept[-1]["rows_canonical"] is not canon):
                stored = _rows_as_stored(other, unit)
                ons = _ints([o for o, d, p in stored] + [d for o, d, p in stored])
                nn = len(stored)
                crow = clist([ctuple([cz(ons[i]), cz(stored[i][2]), cz(ons[nn + i])]) for i in range(nn)])
                cout = clist([ctuple([cstr(st), cz(al), cz(oc)]) for st, al, oc in out_b])
                terms.append(ctuple([cnat(kw.get("K_pre", 10)), cnat(kw.get("K_post", 40)), crow, cout]))
                case["got_other"] = out_b
                kept.append(case)
    need = 5 if ctx.tier == "quick" else 60
    ctx.obligation("order stream reaches the inputs on which the order of the ties is observable: in %d of %d arrays two notes of equal (onset, pitch) "
                   "and different duration are spelled differently (at least %d wanted)" % (sensitive, count, need), sensitive >= need or nviol > 0, "")
    if not terms:
        return
    failing = _coq_failing(ctx, "spelling_orders", "From PV Require Import Model.C17_Spelling Model.C17_Chroma.", terms, "spell_check_v", 15)
    if failing is None:
        return
    ctx.obligation("correspondence: estimate_spelling = Model.C17_Chroma.spell_tab_v on %d arrays given SORTED by (onset, pitch) with the notes of equal "
                   "(onset, pitch) NOT in the order of their durations, in each of which such notes are spelled differently" % len(terms), not failing, failing[:5])
    for i in failing[:3]:
        ctx.violation("spelling: implementation and model disagree on an array that is already sorted by (onset, pitch) (the theorems of Props/C17.v are about the model)", kept[i])


def shrink_orders(case):
    """fewer notes, both orders kept (a sub-list of a sorted list is sorted)."""
    unit, kw = tuple(case["unit"]), case["kwargs"]
    other = [tuple(r) for r in case["rows_other"]]

    def fails(sub):
        return bool(sub) and orders_oracle(_canonical(sub), sub, unit, kw)[0] is not None

    try:
        if fails(other):
            small = core.ddmin(other, fails)
            return dict(case, rows_canonical=_canonical(small), rows_other=small)
    except Exception:
        pass
    return case


# ----------------------------------------------------------------------------
# 2. voices


class _Recorder:
    """Observes the call of VoSA made by estimate_voices (input ids, output rows)."""

    def __init__(self, mod, spy_best=False):
        self.mod = mod
        self.calls = []
        self.spy_best = spy_best
        self.best_calls = []

    def __enter__(self):
        self.real = getattr(self.mod, "VoSA", None)
        self.real_best = getattr(self.mod, "est_best_connections", None) if self.spy_best else None
        rec = self
        real = self.real
        if self.real_best is not None:
            real_best = self.real_best

            def best_spy(cost, *a, **k):
                res = real_best(cost, *a, **k)
                try:
                    if len(rec.best_calls) < 40:
                        mode = a[0] if a else k.get("mode", "prev")
                        rec.best_calls.append(_best_call_record(cost, mode, res))
                except Exception:
                    pass
                return res

            self.mod.est_best_connections = best_spy
        if real is None:
            return self

        class Spy(object):
            # a wrapper, not a subclass: VoSA.__init__ refers to the module-level name VoSA.
            # Observation must never disturb the call: whatever cannot be read is "not observable"
            # (the check then uses the self-consistency form of the correspondence).
            def __init__(s, arr, *a, **k):
                try:
                    s._pv_in = [int(x) for x in arr["id"]]
                except Exception:
                    s._pv_in = None
                rec.mod.VoSA = real
                try:
                    s._pv_inner = real(arr, *a, **k)
                finally:
                    rec.mod.VoSA = Spy

            def note_array(s, *a, **k):
                out = s._pv_inner.note_array(*a, **k)
                try:
                    if s._pv_in is not None:
                        rec.calls.append((s._pv_in, [(int(i), int(v)) for i, v in zip(out["id"], out["voice"])]))
                except Exception:
                    pass
                return out

            def __getattr__(s, name):
                return getattr(s._pv_inner, name)

        self.mod.VoSA = Spy
        return self

    def __exit__(self, *a):
        if self.real is not None:
            self.mod.VoSA = self.real
        if self.real_best is not None:
            self.mod.est_best_connections = self.real_best


BEST_CALLS = []      # est_best_connections calls observed inside estimate_voices (filled by run_voices_impl)


def _best_call_record(cost, mode, res):
    """(mode, shape, integer cost rows, assignments, unassigned) of one est_best_connections call, or None if
    the matrix is not a matrix of integers."""
    import numpy as np

    c = np.asarray(cost, dtype=float)
    if c.ndim != 2 or not np.all(c == np.round(c)):
        return None
    best, un = res
    return {"mode": str(mode), "shape": [int(c.shape[0]), int(c.shape[1])], "cost": [[int(x) for x in row] for row in c],
            "best": [[int(a), int(b)] for a, b in np.asarray(best).reshape(-1, 2)], "unassigned": sorted(int(x) for x in un)}


def run_voices_impl(rows, unit, mono, spy_best=False):
    import partitura.musicanalysis.voice_separation as VS

    with _Recorder(VS, spy_best) as rec:
        with _cpu_budget(CPU_BUDGET_S, "estimate_voices"):
            v = VS.estimate_voices(_array(rows, unit), monophonic_voices=mono)
    if spy_best:
        BEST_CALLS.extend(c for c in rec.best_calls if c is not None)
    return [int(x) for x in v], rec.calls


def voices_oracle(rows, unit, mono, spy_best=False):
    try:
        v, calls = run_voices_impl(rows, unit, mono, spy_best)
    except CpuBudgetExceeded as e:
        return "estimate_voices does not return: %s (an array of %d notes)" % (e, len(rows)), None, None
    except Exception as e:
        return "estimate_voices raised %s: %s" % (type(e).__name__, str(e)[:200]), None, None
    if len(v) != len(rows):
        return "estimate_voices returned %d voices for %d notes" % (len(v), len(rows)), v, calls
    if min(v) < 1:
        return "voice %d is not positive" % min(v), v, calls
    k = max(v)
    missing = sorted(set(range(1, k + 1)) - set(v))
    if missing:
        return "voice numbers %r are not used although voice %d is (gap)" % (missing[:5], k), v, calls
    if not mono:
        stored = _rows_as_stored(rows, unit)
        g = {}
        for (o, d, p), x in zip(stored, v):
            g.setdefault((o, d), set()).add(x)
        for key in sorted(g):
            if len(g[key]) > 1:
                return "chord mode: notes with onset %r and duration %r are in voices %r" % (key[0], key[1], sorted(g[key])), v, calls
    return None, v, calls


def run_voices(ctx):
    rng = ctx.rng
    count, big = (200, 4) if ctx.tier == "quick" else (4000, 50)
    del BEST_CALLS[:]
    best_cap = 400 if ctx.tier == "quick" else 6000
    terms, kept, terms_self, kept_self = [], [], [], []
    nviol = 0
    inputs = []
    # small scope, exhaustive: every array of up to 2 (thorough: 3) notes over onsets {0, 1},
    # durations {0, 1, 2}, pitches {60, 64} -- all constellations of grace notes, chords, unisons
    atoms = [(o, d, p) for o in (0, 1) for d in (0, 1, 2) for p in (60, 64)]
    for k in range(1, 3 if ctx.tier == "quick" else 4):
        for combo in itertools.product(atoms, repeat=k):
            inputs.append((list(combo), ("div", "i4"), "exhaustive"))
    for n in sizes(rng, count, big):
        unit = rng.choice(UNITS)
        zw = rng.choice([0.0, 0.1, 0.1, 0.3, 0.6, 1.0])
        rows = gen_rows(rng, n, 0, 127, int_times=unit[1] == "i4", zero_w=zw)
        if rng.random() < 0.3:   # narrow register: many unisons and crossings
            rows = [(o, d, 55 + p % 12) for o, d, p in rows]
        inputs.append((rows, unit, "random"))
    for rows, unit, src in inputs:
        for mono in (True, False):
            if src == "exhaustive":
                ctx.count("voices:exhaustive_small_scope")
            ctx.evaluations += 1
            ctx.count("voices:%s" % ("mono" if mono else "chord"))
            if len(unit) > 2:
                ctx.count("voices:array_with_columns_of_a_second_unit")
            bad, v, calls = voices_oracle(rows, unit, mono, spy_best=len(BEST_CALLS) < best_cap)
            case = {"kind": "voices", "rows": rows, "unit": list(unit), "monophonic_voices": mono}
            if bad:
                nviol += 1
                if nviol <= 3:
                    case = shrink_voices(case)
                    bad2, v2, _ = voices_oracle(case["rows"], tuple(case["unit"]), mono)
                    case["got"] = v2
                    ctx.violation("voices: " + (bad2 or bad), case)
                continue
            stored = _rows_as_stored(rows, unit)
            zero = sum(1 for o, d, p in stored if d == 0)
            chords = len(stored) - len({(o, d) for o, d, p in stored})
            if zero:
                ctx.count("voices:has_zero_duration")
            if zero == len(stored):
                ctx.count("voices:all_zero_duration")
            if chords:
                ctx.count("voices:has_chords")
            if len(stored) >= 2 and (max(v) > 1 or zero or chords):
                ctx.nontrivial(("vo", stored, mono))
            t = _ints([o for o, d, p in stored] + [d for o, d, p in stored])
            nn = len(stored)
            cnotes = clist([ctuple([cz(stored[i][2]), cz(t[i]), cz(t[nn + i])]) for i in range(nn)])
            cout = clist([cz(x) for x in v])
            case["got"] = v
            if calls is not None and len(calls) == 1:
                vin, vres = calls[0]
                case["vosa_ids"], case["vosa_rows"] = vin, vres
                terms.append(ctuple([cbool(mono), cnotes, clist([cz(x) for x in vin]),
                                     clist([ctuple([cz(i), cz(x)]) for i, x in vres]), cout]))
                kept.append(case)
                if any(x < 0 for _, x in vres):
                    ctx.count("voices:vosa_left_notes_unassigned")
            else:
                terms_self.append(ctuple([cbool(mono), cnotes, cout]))
                kept_self.append(case)
            if len(rows) <= 6 and zero and not mono:
                ctx.sample({"voices_case": case}, limit=4)
    failing = _coq_failing(ctx, "voices", "From PV Require Import Model.C17_Voices.", terms, "voices_check", 40)
    if failing is None:
        return
    ctx.obligation("correspondence: estimate_voices = Model.C17_Voices.estimate_voices with the observed VoSA rows as oracle value "
                   "(and: the ids handed to VoSA are one member of every (onset, duration) chord and nothing else - every id in "
                   "monophonic mode - in any order; VoSA answered exactly them) on %d calls" % len(terms),
                   not failing, failing[:5])
    for i in failing[:3]:
        ctx.violation("voices: implementation and outer-layer model disagree", kept[i])
    ctx.count("voices:vosa_call_not_observable", len(terms_self))
    if terms_self:
        failing = _coq_failing(ctx, "voices_self", "From PV Require Import Model.C17_Voices.", terms_self, "voices_check_self", 40)
        if failing is None:
            return
        ctx.obligation("correspondence (VoSA call not observable): output fed back as oracle value reproduces itself on %d calls" % len(terms_self),
                       not failing, failing[:5])
        for i in failing[:3]:
            ctx.violation("voices: implementation and outer-layer model disagree (self-consistency form)", kept_self[i])


def shrink_voices(case):
    unit, mono = tuple(case["unit"]), case["monophonic_voices"]

    def fails(sub):
        return voices_oracle(sub, unit, mono)[0] is not None

    try:
        first = voices_oracle(case["rows"], unit, mono)[0]
        if first is not None and "does not return" not in first:    # a hang is not minimised (every probe costs the budget)
            return {"kind": "voices", "rows": core.ddmin(case["rows"], fails), "unit": list(unit), "monophonic_voices": mono}
    except Exception:
        pass
    return case


def run_contig(ctx):
    """pairwise_cost and est_best_connections (named in the property's anchors) against Model.C17_Contig:
    (a) the est_best_connections calls observed INSIDE the estimate_voices runs of the voices stream (the cost
    matrices the search really meets), (b) direct calls on drawn matrices with many ties, both modes, rows >= columns,
    (c) pairwise_cost on lists of VSNote with sustained (identical) notes and skipped voices."""
    import numpy as np
    import partitura.musicanalysis.voice_separation as VS

    rng = ctx.rng
    best_fn = getattr(VS, "est_best_connections", None)
    cost_fn = getattr(VS, "pairwise_cost", None)
    note_cls = getattr(VS, "VSNote", None)
    mx = _vs_max_cost()
    calls = [dict(c, src="observed") for c in BEST_CALLS]
    ctx.count("contig:est_best_connections_calls_observed_in_estimate_voices", len(calls))
    if best_fn is None:
        ctx.count("contig:est_best_connections_not_found(the search is only the oracle of the outer-layer model)")
    else:
        for ci in range(150 if ctx.tier == "quick" else 3000):
            nc = rng.choice([1, 1, 2, 2, 3, 4, 5])
            nr = nc + rng.choice([0, 0, 1, 2])
            pool = rng.choice([[0, 1, 2], [0, 3, 5, 7, 12], list(range(0, 25)), [0, 2, mx], [0, 4, mx, -mx]])
            cost = [[rng.choice(pool) for _ in range(nc)] for _ in range(nr)]
            if rng.random() < 0.4:      # a sustained note: one -MAX_COST entry
                cost[rng.randrange(nr)][rng.randrange(nc)] = -mx
            mode = rng.choice(["prev", "next"])
            if mode == "next":
                cost = [list(col) for col in zip(*cost)]       # shape (nc, nr): the transpose has rows >= columns
            try:
                with _cpu_budget(CPU_BUDGET_S, "est_best_connections"):
                    res = best_fn(np.array(cost, dtype=float), mode=mode)
                rec = _best_call_record(np.array(cost, dtype=float), mode, res)
            except CpuBudgetExceeded as e:
                ctx.violation("voices: est_best_connections does not return: %s" % e, {"kind": "best_connections", "cost": cost, "mode": mode})
                break
            except Exception as e:      # an internal function: its signature is not the property's business
                ctx.count("contig:direct_call_raised(%s)(not demanded)" % type(e).__name__)
                break
            if rec is not None:
                calls.append(dict(rec, src="direct"))
    terms, kept = [], []
    for c in calls:
        if c["mode"] not in ("prev", "next"):
            continue
        ctx.evaluations += 1
        ctx.count("contig:est_best_connections_%s_%s" % (c["src"], c["mode"]))
        if len(c["cost"]) >= 2 and len(c["cost"][0]) >= 2:
            ctx.nontrivial(("best", c["cost"], c["mode"]))
        n_p, n_n = c["shape"]
        terms.append(ctuple([cbool(c["mode"] == "prev"), cnat(n_p), cnat(n_n), clist([clist([cz(x) for x in row]) for row in c["cost"]]),
                             clist([ctuple([cnat(a), cnat(b)]) for a, b in c["best"]]), clist([cnat(x) for x in c["unassigned"]])]))
        kept.append(dict(c, kind="best_connections"))
    if terms:
        failing = _coq_failing(ctx, "contig_best", "From PV Require Import Model.C17_Contig.", terms, "best_check", 150)
        if failing is not None:
            ctx.obligation("correspondence: est_best_connections = Model.C17_Contig.est_best_connections (theorem best_connections_are_a_matching) on %d calls, "
                           "%d of them observed inside estimate_voices" % (len(terms), sum(1 for c in kept if c["src"] == "observed")), not failing, failing[:5])
            for i in failing[:3]:
                ctx.violation("voices: est_best_connections and its model disagree", kept[i])
    if cost_fn is None or note_cls is None:
        ctx.count("contig:pairwise_cost_or_VSNote_not_found")
        return
    terms, kept = [], []
    for ci in range(120 if ctx.tier == "quick" else 2000):
        k1, k2 = rng.randint(1, 5), rng.randint(1, 5)
        try:
            notes = [note_cls(rng.randint(40, 90), rng.randint(0, 8), rng.choice([1, 2]), i) for i in range(k1 + k2)]
            for n in notes:
                if rng.random() < 0.25:
                    n.skip_contig = rng.choice([1, 1, 2])
            prev = [notes[i] for i in range(k1)]
            nxt = [notes[k1 + i] for i in range(k2)]
            for j in range(k2):         # sustained notes: the same object on both sides
                if rng.random() < 0.3:
                    nxt[j] = rng.choice(prev)
            ident = {id(n): i for i, n in enumerate(notes)}
            with _cpu_budget(CPU_BUDGET_S, "pairwise_cost"):
                out = np.asarray(cost_fn(prev, nxt), dtype=float)
            if out.shape != (k1, k2) or not np.all(out == np.round(out)):
                raise ValueError("shape %r" % (out.shape,))
        except BaseException as e:
            if isinstance(e, KeyboardInterrupt):
                raise
            ctx.count("contig:pairwise_cost_direct_call_raised(%s)(not demanded)" % type(e).__name__)
            break
        ctx.evaluations += 1
        ctx.count("contig:pairwise_cost_direct")
        enc = lambda n: ctuple([cz(ident[id(n)]), cz(int(n.pitch)), cz(int(n.skip_contig))])
        terms.append(ctuple([clist([enc(n) for n in prev]), clist([enc(n) for n in nxt]), clist([clist([cz(int(x)) for x in row]) for row in out])]))
        kept.append({"kind": "pairwise_cost", "prev": [(ident[id(n)], int(n.pitch), int(n.skip_contig)) for n in prev],
                     "next": [(ident[id(n)], int(n.pitch), int(n.skip_contig)) for n in nxt], "got": [[int(x) for x in row] for row in out]})
    if terms:
        failing = _coq_failing(ctx, "contig_cost", "From PV Require Import Model.C17_Contig.", terms, "cost_check", 150)
        if failing is not None:
            ctx.obligation("correspondence: pairwise_cost = Model.C17_Contig.pairwise_cost on %d pairs of VSNote lists (sustained notes, skipped voices)" % len(terms),
                           not failing, failing[:5])
            for i in failing[:3]:
                ctx.violation("voices: pairwise_cost and its model disagree", kept[i])


# ----------------------------------------------------------------------------
# 3. key


def _corrs(hist, mat):
    """float64 correlations of an exact histogram with the 24 rows (for margins only)."""
    import numpy as np

    x = np.array([float(h) for h in hist])
    with np.errstate(all="ignore"):
        return np.array([np.corrcoef(x, row)[0, 1] for row in mat])


def _matrices():
    """The three 24 x 12 profile matrices.  By their names; if a name is gone (renamed, moved into a table of
    profile sets), the 24 x 12 float arrays found in the module in the order of their definition -- the
    correspondence on every accepted profile name then decides whether they are the ones the names stand for."""
    import numpy as np
    import partitura.musicanalysis.key_identification as KI

    try:
        return [KI.KRUMHANSL_KESSLER, KI.CMBS, KI.KOSTKA_PAYNE]
    except AttributeError:
        found = []

        def visit(v, depth=0):
            if isinstance(v, np.ndarray) and v.shape == (24, 12) and v.dtype.kind == "f":
                if not any(v is w for w in found):
                    found.append(v)
            elif isinstance(v, (list, tuple)) and depth < 3:
                for x in v:
                    visit(x, depth + 1)
            elif isinstance(v, dict) and depth < 3:
                for x in v.values():
                    visit(x, depth + 1)

        for v in vars(KI).values():
            visit(v)
        if len(found) < 3:
            raise RuntimeError("cannot find the three key profile matrices in key_identification")
        return found[:3]


def _key_call(rows, unit, name):
    from partitura.musicanalysis import estimate_key

    arr = _array(rows, unit)
    with _cpu_budget(CPU_BUDGET_S, "estimate_key"):
        if name is None:
            return estimate_key(arr)
        return estimate_key(arr, key_profiles=name)


def _hist(stored):
    h = [Fraction(0)] * 12
    for o, d, p in stored:
        h[p % 12] += Fraction(d)
    return h


def _margin(stored, setidx):
    """(margin between the two largest correlations, index of the largest) from exact histogram."""
    import numpy as np

    h = _hist(stored)
    if len(set(h)) == 1:
        return (None if h[0] == 0 else 0.0), 0
    c = _corrs(h, _matrices()[setidx])
    if np.any(np.isnan(c)):
        return 0.0, 0
    o = np.argsort(c)
    return float(c[o[-1]] - c[o[-2]]), int(o[-1])


def _name_pc_mode(nm):
    """what a key name means, independent of the implementation's tables: (tonic pitch class, mode)."""
    m = re.fullmatch(r"([A-G])([#b]?)(m?)", nm) if isinstance(nm, str) else None
    if not m:
        return None
    return (STEP_PC[m.group(1)] + {"#": 1, "b": -1, "": 0}[m.group(2)]) % 12, ("minor" if m.group(3) else "major")


def key_oracle(rows, unit, name, names, parse_ok, variant):
    """-> (None | description, result).  variant: dict describing the metamorphic re-run."""
    setidx = 0 if name is None else PROFILE_SETS[name]
    try:
        r = _key_call(rows, unit, name)
    except CpuBudgetExceeded as e:
        return "estimate_key does not return: %s" % e, None
    except Exception as e:
        return "estimate_key(key_profiles=%r) raised %s: %s" % (name, type(e).__name__, str(e)[:200]), None
    if not isinstance(r, str) or r not in names or not parse_ok.get(r, False) or _name_pc_mode(r) is None:
        return "estimate_key returned %r which is not one of the 24 valid key names" % (r,), r
    stored = _rows_as_stored(rows, unit)
    margin, _ = _margin(stored, setidx)
    kind = variant["kind"]
    if kind == "octave":
        rows2 = [(o, d, p + 12 * k) for (o, d, p), k in zip(rows, variant["shifts"])]
        tol, expect = None, r
    elif kind == "scale":
        f = variant["factor"]
        rows2 = [(o, d * f, p) for o, d, p in rows]
        exact = all(Fraction(a[1]) * Fraction(f) == Fraction(b[1]) for a, b in zip(stored, _rows_as_stored(rows2, unit)))
        if not exact and unit[1] == "i4":
            return None, r
        tol, expect = (None if exact and variant.get("pow2") else 1e-4), r
    else:
        j = variant["semitones"]
        rows2 = [(o, d, p + j) for o, d, p in rows]
        pc, mode = _name_pc_mode(r)
        tol, expect = 1e-6, ((pc + j) % 12, mode)
    by_meaning = kind == "transpose"
    if margin is None:      # zero histogram: every correlation undefined (the first key is returned)
        if kind == "transpose":
            return None, r      # a 24-way tie: the property fixes no tonic to be moved (counted as near-tie)
        tol = None
        expect = r
        by_meaning = False
    elif tol is not None and margin < tol:
        return None, r          # near-tie: counted by the caller
    try:
        r2 = _key_call(rows2, unit, name)
    except Exception as e:
        return "estimate_key raised %s on the %s variant: %s" % (type(e).__name__, kind, str(e)[:200]), r
    got2 = _name_pc_mode(r2) if by_meaning else r2
    if got2 != expect:
        return ("%s variant %r: estimate_key gives %r, expected %s (original input gives %r, top-two margin %r)"
                % (kind, {k: v for k, v in variant.items() if k != "shifts"}, r2,
                   "tonic pitch class %d, %s" % expect if by_meaning else repr(expect), r, margin)), r
    return None, r


def run_key(ctx, K):
    rng = ctx.rng
    try:
        from partitura.utils.globals import VALID_KEY_PROFILES
    except Exception:      # the list is an internal: without it, try every documented name
        VALID_KEY_PROFILES = sorted(PROFILE_SETS)
        ctx.count("key:VALID_KEY_PROFILES_not_importable")

    names = K["names"]
    parse_ok = {nm: (res is not None) for nm, res in K["parse"]}
    accepted = [None] + list(VALID_KEY_PROFILES)
    for nm in VALID_KEY_PROFILES:
        if nm not in PROFILE_SETS:
            ctx.violation("key: VALID_KEY_PROFILES admits %r, which names none of the three documented profile sets" % nm,
                          {"kind": "key_profile_name", "name": nm})
    accepted = [a for a in accepted if a is None or a in PROFILE_SETS]
    count, big = (340, 4) if ctx.tier == "quick" else (5000, 50)
    terms, kept = [], []
    ndirected = 0
    near = 0
    nviol = 0
    inputs = []

    def draw_variant(rows, unit):
        vr = rng.random()
        if vr < 0.3:
            variant = {"kind": "octave", "shifts": [rng.choice([-1, 0, 0, 1]) if rng.random() < 0.5 else 0 for _ in rows]}
            if rng.random() < 0.4:
                g = rng.choice([-1, 1])
                variant["shifts"] = [g] * len(rows)
            # stay inside 21..108
            variant["shifts"] = [0 if not (21 <= p + 12 * k <= 108) else k for (o, d, p), k in zip(rows, variant["shifts"])]
        elif vr < 0.6:
            f = rng.choice([2, 4, 0.5, 0.25, 3, 10, 7, 0.1, 1.7])
            if unit[1] == "i4":
                f = rng.choice([2, 3, 4, 7, 10])
            variant = {"kind": "scale", "factor": f, "pow2": f in (2, 4, 0.5, 0.25)}
        else:
            j = rng.randint(1, 11)
            hi, lo = max(p for o, d, p in rows), min(p for o, d, p in rows)
            if hi + j > 108 and lo + j - 12 >= 21:
                j -= 12         # the same transposition of the pitch classes, downwards
            variant = {"kind": "transpose", "semitones": j}
        return variant

    # (1) directed: every row of every profile matrix as a piece (one note per pitch class, its duration the
    # profile value: the correlation with that row is 1) -- reaches each of the 24 key names of each set
    mats = _matrices()
    for setidx in range(3):
        nms = [a for a in accepted if (0 if a is None else PROFILE_SETS[a]) == setidx]
        for i in range(len(mats[setidx])):
            for rep in range(1 if ctx.tier == "quick" else 6):
                unit = rng.choice([("beat", "f4"), ("beat", "f8"), ("sec", "f4"), ("quarter", "f4")])
                rows = [(rng.randint(0, 8), float(mats[setidx][i][pc]), 21 + (pc - 21) % 12 + 12 * rng.randint(0, 6)) for pc in range(12)]
                rng.shuffle(rows)
                if nms:
                    inputs.append((rows, unit, nms[(i + rep) % len(nms)], "profile_row"))
    # (2) random arrays
    szs = sizes(rng, count, big)
    for ci, n in enumerate(szs):
        unit = rng.choice(UNITS)
        name = accepted[ci % len(accepted)]
        r0 = rng.random()
        if r0 < 0.04:
            rows = [(o, 0, p) for o, d, p in gen_rows(rng, n, 21, 108, int_times=unit[1] == "i4")]
        else:
            lo, hi = rng.choice([(21, 108), (21, 108), (33, 96), (48, 72), (21, 40), (90, 108)])
            rows = gen_rows(rng, n, lo, hi, int_times=unit[1] == "i4", tonal=rng.random() < 0.7,
                            zero_w=rng.choice([0, 0.1, 0.3]))
            if rng.random() < 0.15 and unit[1] != "i4":   # arbitrary (not grid) durations
                rows = [(o, d * (0.5 + rng.random()), p) for o, d, p in rows]
        inputs.append((rows, unit, name, "random"))
    for rows, unit, name, src in inputs:
        setidx = 0 if name is None else PROFILE_SETS[name]
        variant = draw_variant(rows, unit)
        if variant["kind"] == "transpose":      # input and transposed copy both inside 21..108
            j = variant["semitones"]
            rows = [(o, d, p - 12 if p + j > 108 else p + 12 if p + j < 21 else p) for o, d, p in rows]
        if src == "profile_row":
            ctx.count("key:directed_profile_row")
        ctx.evaluations += 1
        ctx.count("key:set%d" % setidx)
        if name is None:
            ctx.count("key:default_profile_argument")
        if len(unit) > 2:
            ctx.count("key:array_with_columns_of_a_second_unit")
        ctx.count("key:variant_" + variant["kind"])
        bad, r = key_oracle(rows, unit, name, names, parse_ok, variant)
        case = {"kind": "key", "rows": rows, "unit": list(unit), "key_profiles": name, "variant": variant}
        if bad:
            nviol += 1
            if nviol <= 3:
                case["got"] = r
                ctx.violation("key: " + bad, case)
            continue
        stored = _rows_as_stored(rows, unit)
        margin, top = _margin(stored, setidx)
        exact_sum = all(Fraction(d) * 16 == int(Fraction(d) * 16) and d < 4096 for o, d, p in stored)
        tol = 1e-9 if exact_sum else 1e-4
        if margin is not None and margin < tol:
            near += 1
            continue
        if margin is None:
            ctx.count("key:zero_histogram")
        if len({p % 12 for o, d, p in stored}) >= 3 and margin is not None:
            ctx.nontrivial(("key", stored, setidx))
        if src == "profile_row" and ctx.tier == "quick":
            ndirected += 1
            if ndirected % 3:
                continue
        ds = _ints([d for o, d, p in stored])
        terms.append(ctuple([core.copt(name, cstr), clist([ctuple([cz(stored[i][2]), cz(ds[i])]) for i in range(len(stored))]), cstr(r)]))
        case["got"] = r
        kept.append(case)
        if len(rows) <= 6 and len(rows) >= 2:
            ctx.sample({"key_case": case}, limit=7)
    ctx.count("key:near_tie_skipped", near)
    ctx.log("key: implementation and oracle done, %d cases to the model" % len(terms))
    failing = _coq_failing(ctx, "key", "From PV Require Import Model.C17_Key Model.C17_KeyApi.", terms, "key_check_api", 60)
    if failing is None:
        return
    ctx.obligation("correspondence: estimate_key = Model.C17_KeyApi.estimate_key_api (the key_profiles argument dispatched by the model; exact integer correlation comparison; evaluated as estimate_key_fast, theorem estimate_key_fast_eq) on %d arrays, "
                   "every accepted profile name; %d near-ties (top-two margin below 1e-9, or 1e-4 when float32 sums are inexact) skipped"
                   % (len(terms), near), not failing, failing[:5])
    for i in failing[:3]:
        ctx.violation("key: implementation and model disagree", kept[i])


# ----------------------------------------------------------------------------
# 3b. key: scale dependence.  A correlation is scale free; multiplying every duration (every onset) by an exact power
# of two multiplies every intermediate float of the histogram / mean / covariance / norm computation by a power of two
# (no rounding changes as long as nothing under- or overflows: 2^-20 * 1/16 = 2^-24 and 2^20 * 300 * 16 are far inside
# float32 and their squares far inside float64), so the answer must be the SAME STRING, exact ties and all -- no
# tolerance.  A constant added anywhere (a guard against division by zero, a threshold "shorter than ... is ignored",
# a normalisation by an absolute quantity) makes the ranking depend on the scale, visibly only where the two best
# keys are close: the inputs are therefore SEARCHED on every run for a small top-two margin.

KS_EXP = 20        # factors 2^-20 .. 2^20 (the statement says "rescaling all durations": no bound; see the header)


def _margin_fast(rows, mat):
    """(top-two margin | None for a constant histogram, best index, second index): float64, exact-grid durations."""
    import numpy as np

    x = np.zeros(12)
    for o, d, p in rows:
        x[p % 12] += d
    if np.all(x == x[0]):
        return None, 0, 0
    with np.errstate(all="ignore"):
        c = np.corrcoef(np.vstack([x[None, :], np.asarray(mat, dtype=float)]))[0, 1:]
    o = np.argsort(c, kind="stable")
    return float(c[o[-1]] - c[o[-2]]), int(o[-1]), int(o[-2])


def gen_ambiguous(rng, mat):
    """One candidate that musical sense says is ambiguous -> (rows on the 1/16 grid, family)."""
    fam = rng.choice(["relative", "relative", "parallel", "pentatonic", "vamp", "vamp", "profile_mix", "profile_mix", "sparse", "tonal"])
    t = rng.randint(0, 11)
    reg = rng.choice([36, 48, 60, 72])
    durs = [1, 2, 2, 3, 4, 4, 6, 8, 8, 12, 16, 24, 32]      # sixteenths

    def P(pc):
        p = reg + (pc - reg) % 12 + 12 * rng.choice([0, 0, 0, 1, -1])
        return p if 21 <= p <= 108 else reg + (pc - reg) % 12

    rows, o = [], 0

    def add(pcs, d, chord=False):
        nonlocal o
        for pc in pcs:
            rows.append((o / 16.0, d / 16.0, P(pc % 12)))
            if not chord:
                o += d
        if chord:
            o += d

    major = [0, 2, 4, 5, 7, 9, 11]
    if fam == "relative":          # a major key and its relative minor pull at the same notes
        lam, mu = rng.uniform(0.15, 0.5), rng.uniform(0.15, 0.5)
        for _ in range(rng.randint(4, 24)):
            r = rng.random()
            pcs = [0, 4, 7] if r < lam else [9, 0, 4] if r < lam + mu else major
            add([t + rng.choice(pcs)], rng.choice(durs))
    elif fam == "parallel":        # tonic and fifth, both thirds
        for _ in range(rng.randint(4, 16)):
            add([t + rng.choice([0, 0, 7, 7, 3, 4, 2, 5])], rng.choice(durs))
    elif fam == "pentatonic":
        pent = rng.sample([0, 2, 4, 7, 9], rng.randint(3, 5))
        for _ in range(rng.randint(3, 12)):
            add([t + rng.choice(pent)], rng.choice(durs))
    elif fam == "vamp":            # two chords, again and again
        a, b = rng.choice([([0, 4, 7], [9, 0, 4]), ([0, 4, 7], [5, 9, 0]), ([0, 3, 7], [3, 7, 10]), ([0, 3, 7], [10, 2, 5]),
                           ([0, 4, 7], [2, 5, 9]), ([0, 3, 7], [7, 10, 2]), ([0, 4, 7], [7, 11, 2]), ([0, 7], [9, 4])])
        da, db = rng.choice(durs), rng.choice(durs)
        arp = rng.random() < 0.4
        for _ in range(rng.randint(1, 4)):
            add([t + x for x in a], da, chord=not arp)
            add([t + x for x in b], db, chord=not arp)
    elif fam == "profile_mix":     # between two rows of the profile matrix: one note per pitch class
        import numpy as np
        m = np.asarray(mat, dtype=float)
        i = rng.randrange(len(m))
        with np.errstate(all="ignore"):
            cc = np.corrcoef(m)[i]
        j = int(rng.choice([k for k in np.argsort(cc)[::-1][1:5]]))
        lam = rng.uniform(0.35, 0.65)
        for pc in rng.sample(range(12), 12):
            add([pc], max(0, int(round(32 / float(m.max()) * (lam * m[i][pc] + (1 - lam) * m[j][pc])))))
    elif fam == "sparse":          # one, two or three notes
        for pc in rng.choice([[0], [0, 7], [0, 4], [0, 3], [0, 5], [0, 2], [0, 4, 9], [0, 7, 2], [0, 0, 7]]):
            add([t + pc], rng.choice(durs))
    else:
        rows = [(int(o_ * 16) / 16.0, int(d * 16) / 16.0, p) for o_, d, p in gen_rows(rng, rng.randint(3, 30), 36, 96, tonal=True, zero_w=rng.choice([0, 0.1]))]
    if rng.random() < 0.5:
        rng.shuffle(rows)
    return rows, fam


def make_ambiguous(rng, mat, steps):
    """gen_ambiguous, then a hill climb on single durations (sixteenth grid, zero allowed) towards a small margin
    between the two best keys of THIS profile matrix.  -> rows, family, margin, best, second."""
    rows, fam = gen_ambiguous(rng, mat)
    m, a, b = _margin_fast(rows, mat)
    for _ in range(steps):
        if m is None or m < 2e-4:
            break
        i = rng.randrange(len(rows))
        o, d, p = rows[i]
        d2 = rng.choice([d + 1 / 16.0, d + 1 / 8.0, max(0.0, d - 1 / 16.0), max(0.0, d - 1 / 8.0), d * 2, d + 0.5] + ([d / 2] if (d * 8) == int(d * 8) else []))
        if d2 == d or d2 > 64:
            continue
        cand = rows[:i] + [(o, d2, p)] + rows[i + 1:]
        m2, a2, b2 = _margin_fast(cand, mat)
        if m2 is not None and m2 < m:
            rows, m, a, b = cand, m2, a2, b2
    return rows, fam, m, a, b


def _ks_apply(rows, unit, tr):
    """the transformed rows; every product is exact (powers of two; integer layouts only scale up)."""
    f, g, off = 2.0 ** tr.get("dur_exp", 0), 2.0 ** tr.get("onset_exp", 0), tr.get("onset_offset", 0)
    sh = tr.get("octaves") or [0] * len(rows)
    if unit[1] == "i4":
        f, g = int(f), int(g)
    return [(o * g + off, d * f, p + 12 * k) for (o, d, p), k in zip(rows, sh)]


def key_scale_oracle(rows, unit, name, tr):
    """-> (None | description, answer on rows, answer on the transformed rows)."""
    try:
        r0 = _key_call(rows, unit, name)
        r1 = _key_call(_ks_apply(rows, unit, tr), unit, name)
    except CpuBudgetExceeded as e:
        return "estimate_key does not return: %s" % e, None, None
    except Exception as e:
        return "estimate_key(key_profiles=%r) raised %s: %s" % (name, type(e).__name__, str(e)[:200]), None, None
    if r0 != r1:
        what = []
        if tr.get("dur_exp"):
            what.append("all durations multiplied by 2**%d" % tr["dur_exp"])
        if tr.get("onset_exp") or tr.get("onset_offset"):
            what.append("all onsets multiplied by 2**%d and moved by %r" % (tr.get("onset_exp", 0), tr.get("onset_offset", 0)))
        if any(tr.get("octaves") or []):
            what.append("notes moved by octaves %r" % (tr["octaves"],))
        return ("the estimated key depends on the scale: estimate_key gives %r, and %r with %s (exact powers of two: every "
                "correlation is unchanged)" % (r0, r1, "; ".join(what))), r0, r1
    return None, r0, r1


def shrink_key_scale(case):
    unit, name, tr = tuple(case["unit"]), case["key_profiles"], dict(case["transform"])
    rows = [tuple(r) for r in case["rows"]]

    def fails(sub, t=None):
        t = dict(tr if t is None else t)
        if t.get("octaves"):
            t["octaves"] = [k for r, k in zip(rows, tr["octaves"]) if r in sub][:len(sub)]
            if len(t["octaves"]) != len(sub):
                return False
        return key_scale_oracle(sub, unit, name, t)[0] is not None

    try:
        if not fails(rows):
            return case
        # (1) only one of the three transformations, if one is enough
        for keep in ("dur_exp", "onset_exp", "octaves"):
            t = {k: v for k, v in tr.items() if k == keep}
            if t and key_scale_oracle(rows, unit, name, t)[0] is not None:
                tr = t
                break
        # (2) fewer rows (octave shifts stay with their rows)
        if not tr.get("octaves"):
            rows = core.ddmin(rows, lambda sub: fails(sub))
        # (3) the mildest factor that still shows it
        if tr.get("dur_exp"):
            s = 1 if tr["dur_exp"] > 0 else -1
            for e in range(1, abs(tr["dur_exp"])):
                t = dict(tr, dur_exp=s * e)
                if key_scale_oracle(rows, unit, name, t)[0] is not None:
                    tr = t
                    break
        out = dict(case, rows=[list(r) for r in rows], transform=tr, shrunk_from_rows=len(case["rows"]))
        return out
    except Exception:
        return case


def run_key_scale(ctx, K):
    import numpy as np

    rng = ctx.rng
    try:
        from partitura.utils.globals import VALID_KEY_PROFILES
    except Exception:
        VALID_KEY_PROFILES = sorted(PROFILE_SETS)
    accepted = [None, None] + [a for a in VALID_KEY_PROFILES if a in PROFILE_SETS]
    mats = _matrices()
    ncand, climb = (330, 14) if ctx.tier == "quick" else (4000, 20)
    units = [("sec", "f8"), ("sec", "f8"), ("sec", "f4"), ("sec", "f4"), ("beat", "f8"), ("beat", "f4"), ("beat", "f4"), ("quarter", "f4"),
             ("beat", "f4", "sec"), ("sec", "f4", "tick"), ("beat", "f8", "quarter"), ("div", "i4"), ("tick", "i4")]
    # minor rows of KEYS: read from the names the implementation gives them
    minor = [nm.endswith("m") for nm in K["names"]]
    nviol, kept_n = 0, [0, 0, 0]
    mixed = [0, 0, 0]
    terms, kept = [], []
    for ci in range(ncand):
        name = accepted[ci % len(accepted)]
        setidx = 0 if name is None else PROFILE_SETS[name]
        rows, fam, m, a, b = make_ambiguous(rng, mats[setidx], climb)
        ctx.count("key_scale:candidates")
        if m is not None and m >= 0.02:        # not ambiguous enough: the class needs a small margin
            ctx.count("key_scale:candidate_dropped_margin_ge_0.02")
            continue
        kept_n[setidx] += 1
        ctx.count("key_scale:family_" + fam)
        ctx.count("key_scale:set%d" % setidx)
        ctx.count("key_scale:margin_" + ("constant_histogram" if m is None else "exact_tie" if m == 0 else "lt_1e-3" if m < 1e-3 else "lt_5e-3" if m < 5e-3 else "lt_2e-2"))
        if m is not None and len(minor) == 24 and minor[a] != minor[b]:
            mixed[setidx] += 1
            ctx.count("key_scale:best_two_are_a_major_and_a_minor_key")
        unit = rng.choice(units)
        ctx.count("key_scale:unit_%s_%s" % (unit[0], unit[1]))
        if unit[1] == "i4":
            rows = [(int(o * 16), int(d * 16), p) for o, d, p in rows]
        n = len(rows)
        lo, hi = min(p for o, d, p in rows), max(p for o, d, p in rows)

        def octs(kind):
            if kind == "all":
                g = rng.choice([g for g in (-3, -2, -1, 1, 2, 3) if 21 <= lo + 12 * g and hi + 12 * g <= 108] or [0])
                return [g] * n
            return [rng.choice([k for k in (-2, -1, 0, 0, 1, 2) if 21 <= p + 12 * k <= 108]) for o, d, p in rows]

        def e(lo_, hi_):
            k = rng.randint(lo_, hi_)
            if unit[1] == "i4":          # integer columns: upwards only, inside int32
                k = min(abs(k), 18)
            return k

        trs = []
        for lo_, hi_ in ((-KS_EXP, -13), (-12, -6), (-5, -1), (1, 8), (9, KS_EXP)):
            tr = {"dur_exp": e(lo_, hi_)}
            r = rng.random()
            if r < 0.45:
                tr["onset_exp"] = tr["dur_exp"]        # the piece played faster / slower
            elif r < 0.6:
                tr["onset_exp"] = e(-KS_EXP, KS_EXP)
            trs.append(tr)
        trs.append({"onset_exp": e(-KS_EXP, -6)})
        trs.append({"onset_exp": e(6, KS_EXP), "onset_offset": rng.choice([0, 1, 2 ** 10, 2 ** 20]) if unit[1] != "f4" else 0})
        trs.append({"octaves": octs("all")})
        trs.append({"octaves": octs("each")})
        trs.append({"dur_exp": e(-KS_EXP, -8), "octaves": octs("each")})
        for tr in trs:
            ctx.evaluations += 1
            for k in ("dur_exp", "onset_exp"):
                if tr.get(k):
                    ctx.count("key_scale:%s_%s" % (k, "le_-13" if tr[k] <= -13 else "-12..-6" if tr[k] <= -6 else "-5..-1" if tr[k] < 0 else "1..8" if tr[k] <= 8 else "ge_9"))
            if any(tr.get("octaves") or []):
                ctx.count("key_scale:octave_shifts")
            bad, r0, r1 = key_scale_oracle(rows, unit, name, tr)
            if bad:
                nviol += 1
                ctx.count("key_scale:violations")
                if nviol <= 3:
                    case = shrink_key_scale({"kind": "key_scale", "rows": [list(r) for r in rows], "unit": list(unit), "key_profiles": name,
                                             "transform": tr, "family": fam, "top_two_margin": m})
                    bad2, r0, r1 = key_scale_oracle([tuple(r) for r in case["rows"]], unit, name, case["transform"])
                    case["got"], case["got_transformed"] = r0, r1
                    ctx.violation("key: " + (bad2 or bad), case)
                break
        else:
            if m is not None:
                ctx.nontrivial(("key_scale", tuple(rows), setidx))
            # the model on the original and on one rescaled copy (exact comparison: only where float64 decides the order safely)
            if m is not None and m >= 1e-9 and len(terms) < (120 if ctx.tier == "quick" else 1500):
                tr = trs[rng.randrange(5)]
                for rr in (rows, _ks_apply(rows, unit, tr)):
                    stored = _rows_as_stored(rr, unit)
                    ds = _ints([d for o, d, p in stored])
                    terms.append(ctuple([core.copt(name, cstr), clist([ctuple([cz(stored[i][2]), cz(ds[i])]) for i in range(len(stored))]), cstr(r0)]))
                    kept.append({"kind": "key_scale", "rows": [list(r) for r in rows], "unit": list(unit), "key_profiles": name, "transform": tr, "got": r0})
            if n <= 6:
                ctx.sample({"key_scale_case": {"rows": rows, "unit": list(unit), "key_profiles": name, "family": fam, "top_two_margin": m, "transforms": trs[:3], "answer": r0}}, limit=9)
    need = 25 if ctx.tier == "quick" else 300
    ctx.obligation("generator (key, scale dependence): for each of the three profile sets at least %d inputs whose two best correlations differ by "
                   "less than 0.02 were found by search (kept %r; best two = one major and one minor key: %r), each re-estimated under ten "
                   "power-of-two rescalings / octave shifts" % (need, kept_n, mixed), min(kept_n) >= need and min(mixed) >= need // 5, (kept_n, mixed))
    ctx.log("key_scale: %r ambiguous inputs kept, %d to the model" % (kept_n, len(terms)))
    failing = _coq_failing(ctx, "key_scale", "From PV Require Import Model.C17_Key Model.C17_KeyApi.", terms, "key_check_api", 60)
    if failing is None:
        return
    ctx.obligation("correspondence: estimate_key = Model.C17_KeyApi.estimate_key_api on %d ambiguous arrays (top-two margin 1e-9 .. 0.02), each as "
                   "given and with all durations multiplied by a power of two in 2^-20 .. 2^20" % len(terms), not failing, failing[:5])
    for i in failing[:3]:
        ctx.violation("key: implementation and model disagree on an ambiguous input or its rescaled copy", kept[i])


# ----------------------------------------------------------------------------
# 4. MIDI import


def build_midi(notes, ppq, ntracks, timesig, off_as_on0=False):
    """notes: (onset_tick, dur_tick, pitch, track, channel) -> mido.MidiFile (in memory).
    off_as_on0: the end of a note is written as note_on with velocity 0 (the other encoding the format allows)."""
    import mido

    mid = mido.MidiFile(ticks_per_beat=ppq)
    for t in range(ntracks):
        ev = []
        for k, (o, d, p, tr, ch) in enumerate(notes):
            if tr != t:
                continue
            ev.append((o, 1, k, mido.Message("note_on", note=p, velocity=64, channel=ch)))
            ev.append((o + d, 0 if d > 0 else 2, k, mido.Message("note_on" if off_as_on0 else "note_off", note=p, velocity=0, channel=ch)))
        ev.sort(key=lambda e: (e[0], e[1], e[2]))
        track = mido.MidiTrack()
        now = 0
        if t == 0 and timesig:
            track.append(mido.MetaMessage("time_signature", numerator=timesig[0], denominator=timesig[1], time=0))
        for tt, _, _, msg in ev:
            track.append(msg.copy(time=tt - now))
            now = tt
        mid.tracks.append(track)
    return mid


def midi_oracle(case):
    import partitura
    from partitura import score as S

    notes = [tuple(x) for x in case["notes"]]
    if "tracks" in case:            # the file given message by message (stream midi_parse)
        mid = build_midi_msgs(case["tracks"], case["ppq"])
    else:
        mid = build_midi(notes, case["ppq"], case["ntracks"], case["timesig"], case.get("off_as_on0", False))
    src, tmp = mid, None
    if case.get("from_file"):       # through a file on disk instead of the MidiFile object
        import tempfile
        fd, tmp = tempfile.mkstemp(suffix=".mid", dir=os.environ.get("VERIF_WORK") or None)
        os.close(fd)
        mid.save(tmp)
        src = tmp
    spy = case.get("_spy_rows")     # a list: filled with the rows of the note array the importer hands to estimate_spelling
    A, orig = None, None
    if spy is not None:
        try:
            import partitura.musicanalysis as A
            orig = A.estimate_spelling

            def _spy_spelling(note_info, *a, **k):
                try:
                    na = note_info
                    ou = [f for f in ("onset_div", "onset_tick") if f in na.dtype.names][0]
                    du = [f for f in ("duration_div", "duration_tick") if f in na.dtype.names][0]
                    spy.append([(int(x[ou]), int(x["pitch"]), int(x[du])) for x in na])
                except Exception:
                    spy.append(None)
                return orig(note_info, *a, **k)
            A.estimate_spelling = _spy_spelling
        except Exception:
            A = None
    try:
        with _cpu_budget(2 * CPU_BUDGET_S, "load_score_midi"):
            sc = partitura.load_score_midi(src, part_voice_assign_mode=case["mode"],
                                           estimate_voice_info=case["estimate_voice_info"], estimate_key=case["estimate_key"])
    except CpuBudgetExceeded as e:
        return "load_score_midi does not return: %s" % e, None
    except Exception as e:
        return "load_score_midi raised %s: %s" % (type(e).__name__, str(e)[:200]), None
    finally:
        if A is not None and orig is not None:
            A.estimate_spelling = orig
        if tmp is not None:
            try:
                os.remove(tmp)
            except OSError:
                pass
    got = []
    notes_seen = {"no_positive_voice": 0, "key_signatures": []}
    for part in S.iter_parts(sc.parts):
        for n in part.notes_tied:
            got.append((n.start.t, int(n.midi_pitch)))
        for n in part.notes:
            if n.tie_next is not None and n.tie_next.midi_pitch != n.midi_pitch:
                return "tied notes with different pitches %d -> %d" % (n.midi_pitch, n.tie_next.midi_pitch), None
            if n.voice is None or n.voice < 1:
                notes_seen["no_positive_voice"] += 1
        notes_seen["key_signatures"].append(len(list(part.iter_all(S.KeySignature))))
    case["_observed"] = notes_seen        # counted by the caller, not demanded (C17 does not state them)
    # "contains exactly the file's pitches": the pitches sounding at the 1st, 2nd, ... distinct onset of
    # the file are the pitches of the notes starting at the 1st, 2nd, ... distinct time of the score
    # (the time unit of the score is not C17's business, the order of the onsets identifies the notes)
    exp_r = _by_onset_rank((o, p) for o, d, p, tr, ch in notes)
    got_r = _by_onset_rank(got)
    if got_r != exp_r:
        if len(got_r) != len(exp_r):
            return "the file's notes start at %d distinct times, the imported score's at %d (%d vs %d notes)" % (
                len(exp_r), len(got_r), len(notes), len(got)), got_r
        k = next(i for i in range(len(exp_r)) if exp_r[i] != got_r[i])
        onset = sorted({o for o, d, p, tr, ch in notes})[k]
        return "imported pitches differ from the file: at the file's onset %d (distinct onset number %d) the file has pitches %r, the score %r" % (
            onset, k, exp_r[k], got_r[k]), got_r
    return None, got_r


def _by_onset_rank(pairs):
    d = {}
    for t, p in pairs:
        d.setdefault(t, []).append(int(p))
    return [sorted(d[t]) for t in sorted(d)]


def run_midi(ctx):
    rng = ctx.rng
    count = 70 if ctx.tier == "quick" else 1200
    nviol = 0
    terms, kept = [], []
    for ci in range(count):
        n = rng.choice([1, 2, 3, 5, 8, 13, 20, 40, 80]) if ci > 2 else 250
        ppq = rng.choice([4, 12, 48, 96, 480])
        ntracks = rng.choice([1, 1, 2, 3])
        rows = gen_rows(rng, n, 21, 108, int_times=True, zero_w=rng.choice([0, 0.1, 0.3]), tonal=rng.random() < 0.5)
        if ci % 3 == 1:     # a point of the (first chroma, chroma, tonic chroma) sweep as a file
            rows = sweep_rows(rng, rng.randrange(12), rng.randrange(12), rng.randrange(12))
            ctx.count("midi:sweep_point_as_file")
        unit = max(1, ppq // 4)
        notes, busy = [], {}
        for o, d, p in rows:
            o, d = int(o) * unit, int(d) * unit
            tr, ch = rng.randrange(ntracks), rng.choice([0, 0, 1, 9])
            # the MIDI format cannot hold two sounding notes of one pitch on one channel: move to a free slot
            placed = False
            for tr2, ch2 in [(tr, ch)] + [(a, b) for a in range(ntracks) for b in (0, 1, 2, 3, 9)]:
                if all(not (o <= e and s <= o + d) for s, e in busy.get((tr2, ch2, p), [])):
                    busy.setdefault((tr2, ch2, p), []).append((o, o + d))
                    notes.append((o, d, p, tr2, ch2))
                    placed = True
                    break
            if not placed:
                continue
        used = sorted({x[3] for x in notes})
        notes = [(o, d, p, used.index(tr), ch) for o, d, p, tr, ch in notes]
        case = {"kind": "midi", "notes": notes, "ppq": ppq, "ntracks": len(used), "mode": rng.randrange(6),
                "timesig": rng.choice([None, (4, 4), (3, 4), (6, 8)]),
                "estimate_voice_info": rng.random() < 0.5, "estimate_key": rng.random() < 0.6,
                "off_as_on0": rng.random() < 0.4, "from_file": rng.random() < 0.25}
        ctx.evaluations += 1
        ctx.count("midi:files")
        ctx.count("midi:part_voice_assign_mode_%d" % case["mode"])
        if case["estimate_key"]:
            ctx.count("midi:estimate_key")
        if case["estimate_voice_info"]:
            ctx.count("midi:estimate_voice_info")
        bad, got = midi_oracle(case)
        obs = case.pop("_observed", None)
        if obs:
            ctx.count("midi:notes_without_positive_voice(not demanded)", obs["no_positive_voice"])
            if case["estimate_key"] and any(k != 1 for k in obs["key_signatures"]):
                ctx.count("midi:estimate_key_but_not_one_key_signature_per_part(not demanded)")
        if bad:
            nviol += 1
            if nviol <= 3:
                def fails(sub, case=case):
                    c2 = dict(case)
                    c2["notes"] = sub
                    return bool(sub) and midi_oracle(c2)[0] is not None
                try:
                    case["notes"] = core.ddmin(case["notes"], fails)
                except Exception:
                    pass
                bad2 = midi_oracle(case)[0]
                case.pop("_observed", None)
                ctx.violation("midi: " + (bad2 or bad), case)
            continue
        if len(notes) >= 2 and len({p % 12 for o, d, p, tr, ch in notes}) >= 2:
            ctx.nontrivial(("midi", notes, case["mode"], case["estimate_key"], case["estimate_voice_info"]))
        if any(d == 0 for o, d, p, tr, ch in notes):
            ctx.count("midi:has_zero_length_notes")
        if len({(tr, ch) for o, d, p, tr, ch in notes}) > 1:
            ctx.count("midi:several_track_channel_groups")
        if len(notes) > len({o for o, d, p, tr, ch in notes}):
            ctx.count("midi:has_simultaneous_onsets")
        if case["off_as_on0"]:
            ctx.count("midi:note_end_written_as_note_on_velocity_0")
        if case["from_file"]:
            ctx.count("midi:loaded_from_a_file_on_disk")
        if 2 <= len(notes) <= 5:
            ctx.sample({"midi_case": dict(case, imported_pitches_by_distinct_onset=got)}, limit=9)
        if len(notes) <= (60 if ctx.tier == "quick" else 120):
            groups = {}
            for o, d, p, tr, ch in notes:
                groups.setdefault((tr, ch), []).append((o, p, d))
            cg = clist([ctuple([ctuple([cz(tr), cz(ch)]), clist([ctuple([cz(o), cz(p), cz(d)]) for o, p, d in groups[(tr, ch)]])])
                        for tr, ch in sorted(groups)])
            terms.append(ctuple([cz(case["mode"]), cg, clist([clist([cz(x) for x in ps]) for ps in got])]))
            kept.append(dict(case, imported_pitches_by_distinct_onset=got))
    # history: the importer called again on files it has already seen, in the opposite order, each with the options of
    # another file in between (module-level state, options kept from an earlier call)
    again = [c for c in kept if len(c["notes"]) <= 40][:10 if ctx.tier == "quick" else 120]
    for k, c in enumerate(reversed(again)):
        other = again[k % len(again)]
        c2 = {x: c[x] for x in ("notes", "ppq", "ntracks", "mode", "timesig", "estimate_voice_info", "estimate_key", "off_as_on0", "from_file")}
        c2["kind"] = "midi"
        midi_oracle(dict(c2, mode=other["mode"], estimate_key=other["estimate_key"], estimate_voice_info=other["estimate_voice_info"]))
        bad, got = midi_oracle(c2)
        c2.pop("_observed", None)
        ctx.evaluations += 1
        ctx.count("midi:imported_again_after_other_files")
        if bad or got != c["imported_pitches_by_distinct_onset"]:
            nviol += 1
            ctx.violation("midi: a file imported a second time (after other files) " + (bad or "gives other pitches than the first time: %r, first %r" % (got, c["imported_pitches_by_distinct_onset"])), c2)
            break
    failing = _coq_failing(ctx, "midi", "From PV Require Import Model.C17_Midi.", terms, "midi_check", 12)
    if failing is not None:
        ctx.obligation("correspondence: the pitches of load_score_midi's score by onset rank = Model.C17_Midi.import_notes (groups per (track, channel), "
                       "assign_group_part_voice, one estimate_spelling on the whole piece paired by position, Note.midi_pitch; theorem "
                       "midi_import_contains_file_pitches) on %d files" % len(terms), not failing, failing[:5])
        for i in failing[:3]:
            ctx.violation("midi: the imported score and the model of the importer's pitch path disagree", kept[i])
    ctx.obligation("importer: the notes of load_score_midi's score carry exactly the file's pitches, onset by onset (pitch multiset at "
                   "the k-th distinct onset, for every k; %d files, all six part/voice modes, with and without voice and key estimation)"
                   % count, nviol == 0, "")


# ----------------------------------------------------------------------------
# 4b. MIDI import, the READER: files written message by message (Model/C17_MidiParse.v)

MSG_OTHER = ["control_change", "program_change", "pitchwheel", "marker", "set_tempo", "aftertouch"]


def build_midi_msgs(tracks, ppq):
    """tracks: lists of [delta, kind, channel, note, velocity, other] with kind 0 = note_off, 1 = note_on, 2 = another
    message (other names it) -> mido.MidiFile (in memory)."""
    import mido

    mid = mido.MidiFile(ticks_per_beat=ppq)
    for msgs in tracks:
        track = mido.MidiTrack()
        for m in msgs:
            dt, kind, ch, note, vel = m[:5]
            other = m[5] if len(m) > 5 else None
            if kind == 0:
                track.append(mido.Message("note_off", note=note, velocity=vel, channel=ch, time=dt))
            elif kind == 1:
                track.append(mido.Message("note_on", note=note, velocity=vel, channel=ch, time=dt))
            elif other == "marker":
                track.append(mido.MetaMessage("marker", text="x", time=dt))
            elif other == "set_tempo":
                track.append(mido.MetaMessage("set_tempo", tempo=500000, time=dt))
            elif other == "time_signature":
                track.append(mido.MetaMessage("time_signature", numerator=vel, denominator=note, time=dt))
            elif other == "program_change":
                track.append(mido.Message("program_change", program=5, channel=ch, time=dt))
            elif other == "pitchwheel":
                track.append(mido.Message("pitchwheel", pitch=100, channel=ch, time=dt))
            elif other == "aftertouch":
                track.append(mido.Message("aftertouch", value=10, channel=ch, time=dt))
            else:
                track.append(mido.Message("control_change", control=7, value=100, channel=ch, time=dt))
        mid.tracks.append(track)
    return mid


def gen_midi_msgs(rng, nnotes):
    """-> (notes (onset, dur, pitch, track, channel), tracks of messages, features).  Written so that the file has an
    unambiguous content: no note starts on a (track, channel, pitch) key that is sounding (ends touching starts allowed: the
    end is written first), every note is ended; ends for keys that are not sounding ('orphans') and other messages are strewn in."""
    ppq = rng.choice([4, 12, 48, 480])
    unit = max(1, ppq // 4)
    ntracks = rng.choice([1, 1, 2, 3])
    chans = rng.choice([[0], [0, 1], [0, 1, 9], [3, 2], [15, 0, 7, 8]])
    lo = rng.choice([21, 40, 55])
    hi = min(108, lo + rng.choice([3, 7, 14, 40]))
    feats = set()
    notes, busy = [], {}

    def free(tr, ch, p, o, d):
        # closed intervals may touch only end-to-start with positive lengths on both sides (end written before start)
        for s, e in busy.get((tr, ch, p), []):
            if d == 0:
                if s <= o <= e:
                    return False
            elif e == s:
                if o <= s <= o + d:
                    return False
            elif not (o + d <= s or e <= o):
                return False
        return True

    tries = 0
    while len(notes) < nnotes and tries < 20 * nnotes:
        tries += 1
        o = rng.randrange(0, 3 * nnotes + 2) * unit
        d = 0 if rng.random() < 0.15 else rng.choice([1, 1, 2, 3, 4, 8]) * unit
        p = rng.randint(lo, hi)
        tr, ch = rng.randrange(ntracks), rng.choice(chans)
        if notes and rng.random() < 0.3:
            # the same pitch at an overlapping time on ANOTHER channel of the same track (or another track)
            o0, d0, p0, tr0, ch0 = rng.choice(notes)
            o, p, tr = o0 + rng.choice([0, 0, unit]) if d0 > 0 else o0, p0, (tr0 if rng.random() < 0.8 else tr)
            ch = rng.choice(chans)
        if not free(tr, ch, p, o, d):
            continue
        busy.setdefault((tr, ch, p), []).append((o, o + d))
        notes.append((o, d, p, tr, ch))
    used = sorted({x[3] for x in notes})
    notes = [(o, d, p, used.index(tr), ch) for o, d, p, tr, ch in notes]
    busy = {(used.index(k[0]), k[1], k[2]): v for k, v in busy.items() if k[0] in used}
    for a in range(len(notes)):
        for b in range(a):
            x, y = notes[a], notes[b]
            if x[2] == y[2] and x[3] == y[3] and x[4] != y[4] and x[0] <= y[0] + y[1] and y[0] <= x[0] + x[1]:
                feats.add("same_pitch_sounding_on_two_channels_of_one_track")
    last = max(o + d for o, d, p, tr, ch in notes)
    tracks = []
    for t in range(len(used)):
        ev = []
        for k, (o, d, p, tr, ch) in enumerate(notes):
            if tr != t:
                continue
            ev.append((o, 1, k, [1, ch, p, rng.choice([1, 64, 127]), None]))
            if rng.random() < 0.4:
                ev.append((o + d, 0 if d > 0 else 2, k, [1, ch, p, 0, None]))
                feats.add("note_end_written_as_note_on_velocity_0")
            else:
                ev.append((o + d, 0 if d > 0 else 2, k, [0, ch, p, rng.choice([0, 64]), None]))
            if d == 0:
                feats.add("zero_length_note")
        for _ in range(rng.choice([0, 0, 1, 2, 4])):         # orphans: an end for a key that is not sounding then
            tt = rng.randrange(0, last + unit + 1)
            ch, p = rng.choice(chans + [5]), rng.randint(lo, hi)
            mine = [x for x in notes if x[3] == t]
            if mine and rng.random() < 0.6:                  # on the key of a note of this track, before it starts / after it has ended
                ch, p = rng.choice(mine)[4], rng.choice(mine)[2]
                if rng.random() < 0.5:
                    _, ch, p = rng.choice([(0, x[4], x[2]) for x in mine])
            if all(not (s <= tt <= e) for s, e in busy.get((t, ch, p), [])):
                ev.append((tt, 0, -1, [rng.choice([0, 1]), ch, p, 0, None]))
                feats.add("end_of_a_note_that_is_not_sounding")
                if any(e < tt for s, e in busy.get((t, ch, p), [])):
                    feats.add("stray_end_on_a_key_whose_note_has_ended")
        for _ in range(rng.choice([0, 1, 3, 6])):            # other messages: only their delta time counts
            tt = rng.randrange(0, last + 2 * unit + 1)
            ev.append((tt, rng.choice([0, 1, 2]), -2, [2, rng.choice(chans), 0, 0, rng.choice(MSG_OTHER)]))
            feats.add("other_messages_between_the_notes")
        ev.sort(key=lambda e: (e[0], e[1], e[2]))
        msgs, now = [], 0
        if t == 0 and rng.random() < 0.5:
            msgs.append([0, 2, 0, 4, rng.choice([3, 4, 6]), "time_signature"])
        for tt, _, _, m in ev:
            msgs.append([tt - now] + m)
            now = tt
        tracks.append(msgs)
    if len(used) > 1:
        feats.add("several_tracks")
    if len({(tr, ch) for o, d, p, tr, ch in notes}) > 1:
        feats.add("several_track_channel_groups")
    return notes, tracks, ppq, feats


def run_midi_parse(ctx):
    rng = ctx.rng
    count = 60 if ctx.tier == "quick" else 1500
    nviol, terms, kept, nobserved = 0, [], [], 0
    for ci in range(count):
        n = rng.choice([1, 2, 3, 4, 6, 9, 14, 22, 35])
        notes, tracks, ppq, feats = gen_midi_msgs(rng, n)
        case = {"kind": "midi", "notes": notes, "tracks": tracks, "ppq": ppq, "ntracks": len(tracks), "mode": rng.randrange(6),
                "timesig": None, "estimate_voice_info": rng.random() < 0.2, "estimate_key": rng.random() < 0.2, "from_file": rng.random() < 0.2}
        spy = []
        case["_spy_rows"] = spy
        bad, got = midi_oracle(case)
        case.pop("_observed", None)
        case.pop("_spy_rows", None)
        ctx.evaluations += 1
        ctx.count("midi_parse:files")
        ctx.count("midi_parse:notes", len(notes))
        ctx.count("midi_parse:messages", sum(len(t) for t in tracks))
        for f in sorted(feats):
            ctx.count("midi_parse:" + f)
        rows = spy[0] if len(spy) == 1 and spy[0] is not None else None
        if not bad and rows is not None:
            nobserved += 1
            ctx.count("midi_parse:note_array_observed(onset, pitch, duration of every note read)")
            if sorted(rows) != sorted((o, p, d) for o, d, p, tr, ch in notes):
                miss = sorted(set((o, p, d) for o, d, p, tr, ch in notes) - set(rows))
                bad = ("the notes read from the file (the array handed to estimate_spelling) are not the notes written: %d read, %d written; "
                       "written but not read (onset, pitch, duration): %r" % (len(rows), len(notes), miss[:4]))
        elif not bad:
            ctx.count("midi_parse:note_array_not_observable(not demanded)")
        if bad:
            nviol += 1
            if nviol <= 3:
                ctx.violation("midi: " + bad, case)
            continue
        if len(notes) >= 2 and len(feats) >= 2:
            ctx.nontrivial(("midi_parse", notes, case["mode"]))
        if len(notes) <= 6:
            ctx.sample({"midi_parse_case": dict(case, imported_pitches_by_distinct_onset=got, note_array_rows=rows)}, limit=14)
        cm = clist([clist([ctuple([cz(m[0]), cz(m[1]), cz(m[2]), cz(m[3]), cz(m[4])]) for m in t]) for t in tracks])
        terms.append(ctuple([cz(case["mode"]), cm, clist([clist([cz(x) for x in ps]) for ps in got]),
                             core.copt(rows, lambda rr: clist([ctuple([cz(a), cz(b), cz(c)]) for a, b, c in rr]))]))
        kept.append(dict(case, imported_pitches_by_distinct_onset=got, note_array_rows=rows))
    failing = _coq_failing(ctx, "midi_parse", "From PV Require Import Model.C17_MidiParse.", terms, "midi_parse_check", 12)
    if failing is not None:
        ctx.obligation("correspondence: load_score_midi on files written message by message = Model.C17_MidiParse (running time over all messages, "
                       "sounding_notes keyed by note_hash(channel, note), note_on velocity 0 as end, ends of keys not sounding ignored, notes per "
                       "(track, channel), keys sorted) in front of Model.C17_Midi: pitches of the score by onset rank on %d files, and the (onset, "
                       "pitch, duration) rows of the note array handed to estimate_spelling on %d of them; theorems midi_written_note_is_read, "
                       "midi_read_note_was_written" % (len(terms), nobserved), not failing, failing[:5])
        for i in failing[:3]:
            ctx.violation("midi: the notes the importer reads from the file's messages and the model of the reader disagree", kept[i])
    ctx.obligation("importer, reader: every note written into a file as note-on ... note-end (same pitch on several channels at once, zero-length "
                   "notes, ends written as note_on velocity 0, stray ends and other messages in between) is in the imported score, onset by onset, and "
                   "in the note array the importer builds (%d files)" % count, nviol == 0, "")


# ----------------------------------------------------------------------------
# 5. histories: the same entry points called again -- after another input, after an edit, on views


PRESENTATIONS = ["plain", "plain", "readonly", "strided_view", "slice_view", "negative_stride_view", "column_view",
                 "column_view_readonly", "pitch_int64", "pitch_int16", "recarray"]


def _present(rows, unit, how):
    """The note array of `rows` in one of the forms a caller may hold it in.  Views share their memory with a larger array
    whose other rows / columns hold OTHER notes; column views list the fields in another order than they are stored."""
    import numpy as np

    a = _array(rows, unit)
    n = len(a)
    if how == "readonly":
        a.flags.writeable = False
    elif how == "strided_view":
        big = np.zeros(2 * n + 1, dtype=a.dtype)
        big[0::2]["pitch"] = 61
        big[1::2] = a
        a = big[1::2]
    elif how == "slice_view":
        big = np.zeros(n + 5, dtype=a.dtype)
        big["pitch"] = 66
        big[2:2 + n] = a
        a = big[2:2 + n]
    elif how == "negative_stride_view":
        a = a[::-1].copy()[::-1]
    elif how in ("column_view", "column_view_readonly"):
        names = list(a.dtype.names)
        wide = np.zeros(n, dtype=[("zz_label", "U4")] + [(nm, a.dtype[nm]) for nm in reversed(names)] + [("zz_weight", "f8")])
        for nm in names:
            wide[nm] = a[nm]
        a = wide[names]
        if how.endswith("readonly"):
            a.flags.writeable = False
    elif how in ("pitch_int64", "pitch_int16"):
        a = a.astype([(nm, ("i8" if how == "pitch_int64" else "i2") if nm == "pitch" else a.dtype[nm]) for nm in a.dtype.names])
    elif how == "recarray":
        a = a.view(np.recarray)
    return a


def _current_rows(arr, unit):
    u = unit[0]
    return [(float(o), float(d), int(p)) for o, d, p in zip(arr["onset_" + u], arr["duration_" + u], arr["pitch"])]


def _ep_name(ep):
    return "%s(%s)" % (ep[0], ", ".join("%s=%r" % kv for kv in sorted(ep[1].items())))


def _ep_call(ep, arr):
    """-> (raw result, value).  ep = [function name, keyword arguments]."""
    from partitura.musicanalysis import estimate_spelling, estimate_voices, estimate_key

    fn = {"estimate_spelling": estimate_spelling, "estimate_voices": estimate_voices, "estimate_key": estimate_key}[ep[0]]
    with _cpu_budget(CPU_BUDGET_S, ep[0]):
        raw = fn(arr, **ep[1])
    return raw, _ep_value(ep, raw)


def _ep_value(ep, raw):
    if ep[0] == "estimate_spelling":
        return [(str(s["step"]), int(s["alter"]), int(s["octave"])) for s in raw]
    if ep[0] == "estimate_voices":
        return [int(x) for x in raw]
    return raw


def _judge_voices(stored, v, mono):
    if len(v) != len(stored):
        return "estimate_voices returned %d voices for %d notes" % (len(v), len(stored))
    if min(v) < 1:
        return "voice %d is not positive" % min(v)
    missing = sorted(set(range(1, max(v) + 1)) - set(v))
    if missing:
        return "voice numbers %r are not used although voice %d is (gap)" % (missing[:5], max(v))
    if not mono:
        g = {}
        for (o, d, p), x in zip(stored, v):
            g.setdefault((o, d), set()).add(x)
        for key in sorted(g):
            if len(g[key]) > 1:
                return "chord mode: notes with onset %r and duration %r are in voices %r" % (key[0], key[1], sorted(g[key]))
    return None


def _judge_ep(ep, stored, value, names):
    if ep[0] == "estimate_spelling":
        return _judge_spelling(stored, value, ep[1].get("K_post", 40))
    if ep[0] == "estimate_voices":
        return _judge_voices(stored, value, ep[1].get("monophonic_voices", True))
    if not isinstance(value, str) or value not in names or _name_pc_mode(value) is None:
        return "estimate_key returned %r which is not one of the 24 valid key names" % (value,)
    return None


def run_history(case, names, observe=None):
    """Interpreter of one history.  case: {"unit", "arrays": {name: {"rows", "as"}}, "steps": [...]}; steps:
      {"op": "call", "ep": [fn, kwargs], "on": name}   call the entry point on the caller's array object `name`
      {"op": "scribble"}                               overwrite every array returned so far (they are the caller's)
      {"op": "edit", "on": name, "set": [[row, field, value], ...], "swap": [i, j] | None, "reverse": bool}
                                                       change the caller's array in place
    Every call is judged against the CURRENT content of the array it was made on (read back after the call): the statement
    of the property, and equality with the same call on a freshly built plain array holding the current rows; arrays
    returned by earlier calls must still read as they did (until the caller overwrites them).
    -> None | description.  observe(ep, stored rows, value) is called for every judged call."""
    import numpy as np

    unit = tuple(case["unit"])
    u = unit[0]
    arrays = {k: _present([tuple(r) for r in v["rows"]], unit, v["as"]) for k, v in sorted(case["arrays"].items())}
    held = []         # [ep, raw, value as first read]
    firsts = {}       # (call, rows) -> (first answer, step)
    for si, st in enumerate(case["steps"]):
        if st["op"] == "scribble":
            for h in held:
                raw = h[1]
                try:
                    if isinstance(raw, np.ndarray) and raw.dtype.names:
                        raw["step"], raw["alter"], raw["octave"] = "X", 9, -3
                    elif isinstance(raw, np.ndarray):
                        raw[...] = 0
                except Exception:
                    pass
            held = []
            continue
        arr = arrays.get(st["on"])
        if arr is None:
            continue
        if st["op"] == "edit":
            if not arr.flags.writeable:
                continue
            n = len(arr)
            for i, field, val in st.get("set", []):
                if i < n:
                    arr[{"pitch": "pitch", "onset": "onset_" + u, "duration": "duration_" + u}[field]][i] = val
            if st.get("swap") and max(st["swap"]) < n:
                i, j = st["swap"]
                tmp = arr[i].copy()
                arr[i] = arr[j]
                arr[j] = tmp
            if st.get("reverse"):
                arr[:] = arr[::-1].copy()
            continue
        ep = st["ep"]
        where = "step %d, %s on array %r (%s, %d rows)" % (si, _ep_name(ep), st["on"], case["arrays"][st["on"]]["as"], len(arr))
        before = _current_rows(arr, unit)
        try:
            raw, value = _ep_call(ep, arr)
        except CpuBudgetExceeded as e:
            return "%s does not return: %s" % (where, e)
        except Exception as e:
            return "%s raised %s: %s" % (where, type(e).__name__, str(e)[:200])
        stored = _current_rows(arr, unit)
        bad = _judge_ep(ep, stored, value, names)
        if bad:
            return "%s: %s%s" % (where, bad, "" if stored == before else " (the call changed the caller's array)")
        for h in held:
            try:
                now = _ep_value(h[0], h[1])
            except Exception as e:
                now = "unreadable (%s)" % type(e).__name__
            if now != h[2]:
                k = 0 if isinstance(now, str) or len(now) != len(h[2]) else next(i for i in range(len(now)) if now[i] != h[2][i])
                return "%s: the array returned by an earlier call of %s changed when the function was called again (its entry %d was %r, now reads %r)" % (
                    where, _ep_name(h[0]), k, h[2][k], now if isinstance(now, str) else now[k])
        key = (_ep_name(ep), tuple(stored))
        if key in firsts and firsts[key][0] != value:
            return ("%s: gives %r; the same call on the same rows gave %r at step %d of this history -- the answer depends on what was asked before" % (
                where, value if isinstance(value, str) else value[:8], firsts[key][0] if isinstance(value, str) else firsts[key][0][:8], firsts[key][1]))
        firsts.setdefault(key, (value, si))
        try:
            fresh = _ep_call(ep, _array(stored, unit))[1]
        except BaseException as e:
            if isinstance(e, KeyboardInterrupt):
                raise
            return "%s: the same call on a freshly built array of the current rows raised %s" % (where, type(e).__name__)
        if fresh != value:
            diff = "" if isinstance(value, str) else " (first difference at row %d)" % next(i for i in range(len(value)) if value[i] != fresh[i])
            return "%s: gives %r, the same call on a freshly built array holding the same rows gives %r%s -- the answer depends on more than the current input" % (
                where, value if isinstance(value, str) else value[:8], fresh if isinstance(fresh, str) else fresh[:8], diff)
        if not isinstance(raw, str):
            held.append([ep, raw, value])
        if observe is not None:
            observe(ep, stored, value, si)
    return None


def gen_history(rng, accepted_names):
    """One drawn history over two arrays `a` and `b` of one layout."""
    unit = rng.choice(UNITS)
    it = unit[1] == "i4"
    n = rng.choice([3, 6, 12, 20, 35, 60])
    shape = rng.random()
    if shape < 0.35:
        A = gen_unison_rows(rng, it)[:max(n, 14)]
    else:
        A = gen_rows(rng, n, 21, 108, int_times=it, tonal=rng.random() < 0.5)
    r = rng.random()
    if r < 0.4:         # same length, same times, other pitches: what a cache keyed by shape / times / identity confuses
        B = [(o, d, 21 + (p - 21 + rng.choice([1, 2, 5, 6, 7])) % 88) for o, d, p in A]
    elif r < 0.6:       # same pitches, other durations and order
        durs = [1, 2, 3, 4] if it else [0.25, 0.5, 1, 2]
        B = [(o, rng.choice(durs), p) for o, d, p in A][::-1]
    else:
        B = gen_rows(rng, rng.choice([n, n, max(1, n // 2), n + 7]), 21, 108, int_times=it, tonal=rng.random() < 0.5)
    eps = [["estimate_spelling", {}], ["estimate_voices", {}], ["estimate_voices", {"monophonic_voices": False}],
           ["estimate_voices", {"monophonic_voices": True}], ["estimate_key", {}]]
    eps.append(["estimate_spelling", {"K_pre": rng.choice([0, 1, 3]), "K_post": rng.choice([1, 2, 5])}])
    eps += [["estimate_key", {"key_profiles": nm}] for nm in rng.sample(accepted_names, min(2, len(accepted_names)))]
    rng.shuffle(eps)
    eps = eps[:rng.randint(3, 6)]
    steps = []
    first, second = rng.choice([("a", "b"), ("b", "a")])
    steps += [{"op": "call", "ep": ep, "on": first} for ep in eps]
    steps += [{"op": "call", "ep": ep, "on": second} for ep in eps]
    steps += [{"op": "call", "ep": ep, "on": first} for ep in reversed(eps)]
    if rng.random() < 0.7:
        steps.append({"op": "scribble"})
        steps += [{"op": "call", "ep": ep, "on": rng.choice("ab")} for ep in eps]
    for _ in range(rng.randint(1, 2)):
        on = rng.choice("ab")
        m = len(A if on == "a" else B)
        kind = rng.random()
        ed = {"op": "edit", "on": on, "set": [], "swap": None, "reverse": False}
        if kind < 0.45:
            for _ in range(rng.randint(1, max(1, m // 3))):
                ed["set"].append([rng.randrange(m), "pitch", rng.randint(21, 108)])
        elif kind < 0.7:
            for _ in range(rng.randint(1, max(1, m // 3))):
                ed["set"].append([rng.randrange(m), "duration", rng.choice([0, 1, 2, 4, 8] if it else [0, 0.25, 0.5, 2, 4, 8])])
        elif kind < 0.8:
            for _ in range(rng.randint(1, 3)):
                ed["set"].append([rng.randrange(m), "onset", rng.choice([0, 1, 2, 5, 9])])
        elif kind < 0.9 and m >= 2:
            ed["swap"] = rng.sample(range(m), 2)
        else:
            ed["reverse"] = True
        steps.append(ed)
        steps += [{"op": "call", "ep": ep, "on": on} for ep in eps]
        if rng.random() < 0.5:
            steps += [{"op": "call", "ep": ep, "on": "b" if on == "a" else "a"} for ep in eps[:2]]
    hows = [rng.choice(PRESENTATIONS), rng.choice(PRESENTATIONS)]
    return {"kind": "history", "unit": list(unit), "arrays": {"a": {"rows": A, "as": hows[0]}, "b": {"rows": B, "as": hows[1]}}, "steps": steps}


def run_histories(ctx, K):
    """State carried between calls: estimate_spelling / estimate_voices / estimate_key (and their options) called on two
    arrays in both orders, again after the other input, after the caller overwrote the returned arrays, after the caller
    edited the array in place; the arrays are plain, read-only, strided / sliced / reversed views of larger arrays, views
    selecting columns, with other integer widths of the pitch column.  Every answer is judged against the current rows
    alone; the last spelling and key answers of every history also go to the (stateless) models."""
    rng = ctx.rng
    count = 45 if ctx.tier == "quick" else 900
    names = K["names"]
    accepted = [a for a in K["valid_profiles"] if a in PROFILE_SETS]
    sp_terms, sp_kept, key_terms, key_kept = [], [], [], []
    nviol = 0
    for ci in range(count):
        case = gen_history(rng, accepted)
        last = {}

        spelled = []

        def observe(ep, stored, value, si, last=last, spelled=spelled):
            last[_ep_name(ep)] = (ep, stored, value, si)
            if ep[0] == "estimate_spelling":
                spelled.append((ep, stored, value, si))
            ctx.evaluations += 1
            ctx.count("history:calls_of_" + ep[0])

        ctx.count("history:histories")
        for k in ("a", "b"):
            ctx.count("history:array_as_" + case["arrays"][k]["as"])
        for st in case["steps"]:
            if st["op"] != "call":
                ctx.count("history:step_" + st["op"] + ("" if st["op"] != "edit" else "_" + ("reverse" if st["reverse"] else "swap" if st["swap"] else st["set"][0][1])))
        bad = run_history(case, names, observe)
        if bad:
            nviol += 1
            if nviol <= 3:
                def fails(sub, case=case):
                    return run_history(dict(case, steps=sub), names) is not None
                try:
                    if nviol == 1:      # one history is minimised (every probe replays a whole history)
                        case["steps"] = core.ddmin(case["steps"], fails)
                    used = {st.get("on") for st in case["steps"]}
                    case["arrays"] = {k: v for k, v in case["arrays"].items() if k in used}
                except Exception:
                    pass
                ctx.violation("history: " + (run_history(case, names) or bad), case)
            continue
        ctx.nontrivial(("hist", json.dumps(case, sort_keys=True, default=str)))
        unit = tuple(case["unit"])
        spelled = spelled[-6:]
        if spelled:
            # the spelling calls of this history as a history of the model's machine: HSet whenever the rows the call saw
            # are not the rows the previous call saw (the other array, an edit in place), then HCall (K_pre, K_post)
            times = sorted({t for ep, stored, value, si in spelled for o, d, p in stored for t in (o, d)})
            scale = dict(zip(times, _ints(times)))

            def crows(stored):
                return clist([ctuple([cz(scale[o]), cz(p), cz(scale[d])]) for o, d, p in stored])

            cur, hsteps, outs = spelled[0][1], [], []
            for ep, stored, value, si in spelled:
                if stored != cur:
                    hsteps.append("(HSet %s)" % crows(stored))
                    cur = stored
                hsteps.append("(HCall %s)" % ctuple([cnat(ep[1].get("K_pre", 10)), cnat(ep[1].get("K_post", 40))]))
                outs.append(clist([ctuple([cstr(st), cz(al), cz(oc)]) for st, al, oc in value]))
            sp_terms.append(ctuple([crows(spelled[0][1]), clist(hsteps), clist(outs)]))
            sp_kept.append(dict(case, judged_steps=[si for _, _, _, si in spelled]))
            ctx.count("history:spelling_calls_to_the_state_machine_model", len(spelled))
            ctx.count("history:changes_of_the_rows_between_those_calls", sum(1 for x in hsteps if x.startswith("(HSet")))
        for ep, stored, value, si in last.values():
            if ep[0] == "estimate_key":
                name = ep[1].get("key_profiles")
                margin, _ = _margin(stored, 0 if name is None else PROFILE_SETS[name])
                exact_sum = all(Fraction(d) * 16 == int(Fraction(d) * 16) and d < 4096 for o, d, p in stored)
                if margin is not None and margin < (1e-9 if exact_sum else 1e-4):
                    ctx.count("history:key_near_tie_skipped")
                    continue
                ds = _ints([d for o, d, p in stored])
                key_terms.append(ctuple([core.copt(name, cstr), clist([ctuple([cz(stored[i][2]), cz(ds[i])]) for i in range(len(stored))]), cstr(value)]))
                key_kept.append(dict(case, judged_step=si, current_rows=stored, got=value))
    ctx.log("histories: implementation done, %d + %d cases to the models" % (len(sp_terms), len(key_terms)))
    ctx.obligation("histories: every answer of estimate_spelling / estimate_voices / estimate_key in %d histories (two arrays in both orders, repeated calls, "
                   "returned arrays overwritten, arrays edited in place; plain / read-only / view arrays) satisfies the statement on the CURRENT rows and "
                   "equals the same call on a freshly built array" % count, nviol == 0, "")
    for nm, terms, kept, imports, checker, ty, what in (
            ("history_spelling", sp_terms, sp_kept, "From PV Require Import Model.C17_Spelling Model.C17_Chroma Model.C17_History.", "history_check",
             "list row * list (@hstep (list row) (nat * nat)) * list (list (string * Z * Z))",
             "the answers of estimate_spelling along every history (the last 6 calls of each) are the answers of the stateless machine Model.C17_History.hrun "
             "over spell_tab_v on the rows the array held at each call (theorem spelling_history_answers_current_rows)"),
            ("history_key", key_terms, key_kept, "From PV Require Import Model.C17_Key Model.C17_KeyApi.", "key_check_api", None,
             "the LAST answer of estimate_key for each option in every history -- after the other array, after in-place edits -- is the stateless model's "
             "answer on the rows the array held then")):
        if not terms:
            continue
        failing = _coq_failing(ctx, nm, imports, terms, checker, 8 if nm == "history_spelling" else 60, ty=ty)
        if failing is None:
            continue
        ctx.log("histories: %s evaluated" % nm)
        ctx.obligation("correspondence (%s): %s (%d cases)" % (nm, what, len(terms)), not failing, failing[:5])
        for i in failing[:3]:
            ctx.violation("history: the answer at the end of a history is not the model's answer on the current rows (%s)" % checker, kept[i])


# ----------------------------------------------------------------------------


def note_table_oracle(ctx, steps):
    """score.Note(step, octave, alter).midi_pitch -- what the importer's notes report -- against the meaning of
    a spelling, on the complete domain of Gen/C17_MidiTab.v (7 steps x alter -2..2 x octave 0..8)."""
    try:
        tab = _note_midi_table(steps)
    except Exception as e:
        ctx.violation("midi: score.Note(step, octave, alter).midi_pitch raised %s: %s" % (type(e).__name__, str(e)[:200]), {"kind": "note_midi"})
        return
    bad = [(st, al, oc, v) for st, al, oc, v in tab if st not in STEP_PC or v != 12 * (oc + 1) + STEP_PC[st] + al]
    ctx.evaluations += len(tab)
    ctx.obligation("Note.midi_pitch = 12 (octave + 1) + pitch class of the step + alter on all %d notes of 7 steps x alter -2..2 x octave 0..8" % len(tab),
                   not bad, bad[:5])
    for st, al, oc, v in bad[:2]:
        ctx.violation("midi: score.Note(step=%r, octave=%d, alter=%d).midi_pitch is %d, the spelling sounds %s" % (
            st, oc, al, v, 12 * (oc + 1) + STEP_PC[st] + al if st in STEP_PC else "?"), {"kind": "note_midi", "step": st, "alter": al, "octave": oc, "got": v})


def search_for_failing_input(ctx, K):
    """Called when a proof obligation over the reflected tables broke and the streams found no failing input:
    every point of the finite domains those obligations range over, in more concrete shapes -- the 12^3 (first
    chroma, chroma, dominating tonic chroma) arrays of the alter bound in 8 further variants each (octaves, chord /
    sequence, K_post 1/2/5/40), every row of every profile matrix under all 11 transpositions."""
    rng = ctx.rng
    found = 0
    for rep in range(8):
        for c0 in range(12):
            for c in range(12):
                for ct in range(12):
                    if found >= 2:
                        break
                    rows = sweep_rows(rng, c0, c, ct)
                    unit = rng.choice(UNITS)
                    kw = {} if rep % 2 == 0 else {"K_pre": rng.choice([4, 10]), "K_post": rng.choice([1, 2, 5, 40])}
                    perm = list(range(len(rows)))
                    rng.shuffle(perm)
                    ctx.evaluations += 1
                    bad, out = spelling_oracle(rows, unit, kw, perm)
                    if bad:
                        found += 1
                        case = shrink_spelling({"kind": "spelling", "rows": rows, "unit": list(unit), "kwargs": kw, "perm": perm})
                        bad2, out2 = spelling_oracle(case["rows"], tuple(case["unit"]), case["kwargs"], case["perm"])
                        case["got"] = out2
                        ctx.violation("spelling: " + (bad2 or bad), case)
    names = K["names"]
    parse_ok = {nm: (res is not None) for nm, res in K["parse"]}
    mats = _matrices()
    for setidx, name in enumerate(["krumhansl_kessler", "temperley", "kostka_payne"]):
        for i in range(len(mats[setidx])):
            for j in range(1, 12):
                if found >= 4:
                    return
                rows = [(pc, float(mats[setidx][i][pc]), 48 + pc) for pc in range(12)]
                ctx.evaluations += 1
                bad, r = key_oracle(rows, ("beat", "f8"), name, names, parse_ok, {"kind": "transpose", "semitones": j})
                if bad:
                    found += 1
                    ctx.violation("key: " + bad, {"kind": "key", "rows": rows, "unit": ["beat", "f8"], "key_profiles": name,
                                                  "variant": {"kind": "transpose", "semitones": j}, "got": r})


def run(ctx):
    ctx.rule = ("Random note arrays (1..300 rows; many small, a few of 120..300) over eleven layouts (five time units, f4/f8/i4, five of "
                "them with columns of a second, less preferred unit holding other values plus velocity/id columns) with simultaneous, "
                "overlapping, zero-length notes, notes of equal onset and pitch, exact duplicates; 70% shuffled, rest sorted/reversed/as generated. "
                "spelling: ALL 12^3 points (first chroma, chroma, dominating tonic chroma) of the domain the alter bound is proved over, each as a "
                "concrete array (octaves, chord/sequence, K_post 1/2/5/40 drawn), then random arrays with pitches 21..108, 15% with non-default "
                "K_pre/K_post; chroma: compute_chroma_vector_array called directly (K_pre 0..10, K_post 0..40, arrays shorter and longer than the "
                "window); voices: pitches 0..127, both modes, zero-duration share 0..100%, preceded by ALL arrays of up to 2 (thorough: 3) notes over "
                "onsets {0,1} x durations {0,1,2} x pitches {60,64}; contig: the est_best_connections calls observed inside those runs, drawn cost "
                "matrices with ties (both modes), pairwise_cost on VSNote lists with sustained notes and skipped voices; "
                "key: every row of every profile matrix as a piece, then random arrays (pitches 21..108 and narrower registers), every accepted "
                "profile name in turn, one metamorphic variant (octave shifts / rescaling / transposition, all inside 21..108) per case; "
                "key, scale dependence: 330 (thorough 4000) candidates of ten families that are ambiguous by construction (a major key and its relative "
                "minor, parallel keys, pentatonic fragments, two-chord vamps block or arpeggiated, blends of two close rows of the profile matrix, one to "
                "three notes, short tonal arrays; sixteenth grid, zero durations allowed), each hill-climbed on single durations towards a small margin "
                "between its two best keys under the profile set used (default argument and every accepted name in turn); those with margin < 0.02 "
                "(exact ties and constant histograms included) are estimated as given and under ten exact transformations: all durations times 2^k "
                "with k drawn from -20..-13, -12..-6, -5..-1, 1..8, 9..20 (onsets scaled along, by another power, or not), onsets alone times 2^-20..2^20 "
                "and moved, all notes / each note moved by octaves inside 21..108, both; thirteen layouts (sec and beat in f8 and f4, quarter, two-unit "
                "arrays, div/tick as int32 scaled upwards only); the answer must be the same string; "
                "midi: files built with mido from such arrays and from sweep points (pitches 21..108, 0..30% zero-length notes), 1..3 tracks, "
                "channels 0/1/9, note ends as note_off or note_on velocity 0, MidiFile object or file on disk, all six part-voice modes, with/without "
                "voice and key estimation; compared: the pitch multiset at the k-th distinct onset.  "
                "midi_parse: 60 (thorough 1500) files written MESSAGE BY MESSAGE: 1..35 notes on 1..3 tracks, five channel sets, registers of 3..40 "
                "semitones inside 21..108, 30% of the notes copying pitch and time of an earlier note onto another channel, 15% zero-length, each end drawn "
                "as note_off or note_on velocity 0, stray ends for keys not sounding, control/program/pitchwheel/aftertouch/marker/set_tempo/time_signature "
                "messages in between; no note starts on a sounding key and every note ends; compared: pitches by onset rank, the (onset, pitch, duration) "
                "rows of the note array the importer hands to estimate_spelling (observed), both against the reader model on the message lists.  "
                "orders: 300 (thorough 5000) dense chromatic passages in which, from the tenth note on, a third of the notes are doubled by notes of the "
                "same onset and pitch and another duration (zero included), each in the canonical order and in up to seven others -- sorted by (onset, "
                "pitch) with the ties by decreasing duration / in a drawn order / one late tie exchanged, sorted by onset only (pitch decreasing / drawn), "
                "reversed, shuffled; 20% non-default K_pre/K_post; arrays where the members of such a unison are spelled differently are counted (an "
                "obligation demands some) and go to the model in a sorted non-canonical order.  "
                "histories: 45 (900) histories over two arrays of one layout (40% same length and times with other pitches, 20% same pitches with other "
                "durations in reverse order), 3..6 entry points with options (spelling +-K, voices default/mono/chord, key default + two names): all on the "
                "first array, all on the second, the first again in reverse, the returned arrays overwritten and asked again, one or two edits in place "
                "(pitches / durations / onsets / two rows exchanged / all rows reversed) each followed by all calls; arrays plain, read-only, strided / "
                "sliced / negative-stride views of larger arrays, column views listing the fields in another order than stored (also read-only), pitch "
                "as int64 / int16, recarray; every answer judged against the rows the array holds after the call, against the same call on a freshly built "
                "array, against the first answer to the same call on the same rows, earlier results re-read after every call; the importer is run again "
                "on ten files it has seen, in the opposite order, with another file's options in between.  "
                "Every call of the implementation runs under a CPU-time budget (ITIMER_VIRTUAL, 30 s; estimate_voices on 300 notes needs 0.15 s): "
                "a call that does not return is a violation.  "
                "Non-trivial = spelling array with >= 2 rows that has an altered note or two rows of equal (onset, pitch); chroma array with >= 2 "
                "chromas; voice array with >= 2 rows and more than one voice, a zero-duration note or a chord; cost matrix of >= 2 x 2; key array "
                "with >= 3 pitch classes and a defined correlation; ambiguous key input with a non-constant histogram; MIDI file with >= 2 notes of >= 2 pitch classes; order-stream array in which two "
                "notes of equal (onset, pitch) are spelled differently; every history that was judged to the end.")
    ctx.trusted = ["Coq 8.16.1 kernel incl. vm_compute",
                   "harness/props/c17.py: generators, reflection BY VALUE of the ps13 tables (read off compute_morph_array by probing it with "
                   "one- and two-note inputs; if that function is gone, off estimate_spelling on one- and four-note arrays; last resort: literals "
                   "in the source), of MAX_COST (off pairwise_cost), module attributes for the rest (the three profile matrices: by name, else the "
                   "24 x 12 float arrays of the module; KEYS, format_key, VALID_KEY_PROFILES, UND_CHROMA, STEPS); score.Note(step, octave, "
                   "alter).midi_pitch run on 7 x 5 x 9 notes; exact scaling of float times to integers, Coq literal printing",
                   "of the VoSA search only pairwise_cost and est_best_connections are modelled (Model/C17_Contig.v); the rest (contig "
                   "segmentation, voice managers, crystallisation loop, grace notes) is the oracle of the outer-layer model, its observed result "
                   "the oracle value; which chord member is handed to VoSA is read off the observed call",
                   "mido (building the MIDI files, decoding them for the importer); the harness' grouping of the notes it wrote by (track, channel) "
                   "in the midi stream; the wrapper around partitura.musicanalysis.estimate_spelling observing the importer's note array in the midi_parse stream"]
    ctx.assumptions = ["float onsets/durations are dyadic rationals; a case's times are multiplied by one common power of two before "
                       "they reach the integer model (order, equality and ratios preserved)",
                       "key: cases whose two largest correlations differ by less than 1e-9 (1e-4 when the float32 duration sums are "
                       "inexact) are counted and not compared (float corrcoef vs exact comparison)",
                       "arrays holding columns of two time units: the score unit is the one used (docstrings of the three functions), in the "
                       "order beat, quarter, div, sec, tick",
                       "numpy int overflow is out of scope"]
    P, K = gen()
    ctx.count("reflection:ps13 tables from " + P.get("tables_from", "?"))
    if P.get("tables_agree_with_api_probe") is False:
        ctx.count("reflection:tables probed through estimate_spelling differ from those probed in compute_morph_array(not demanded)")
    ok, why = ctx.coq_props(expect_min=72)
    nv0 = len(ctx.violations) + sum(ctx.known_hits.values())
    ctx.log("props: %s" % ("ok" if ok else "FAILED"))
    note_table_oracle(ctx, P["steps"])
    for name, fn in (("spelling", run_spelling), ("spelling_orders", run_spelling_orders), ("chroma", run_chroma), ("voices", run_voices), ("contig", run_contig), ("key", lambda c: run_key(c, K)), ("key_scale", lambda c: run_key_scale(c, K)), ("midi", run_midi), ("midi_parse", run_midi_parse), ("histories", lambda c: run_histories(c, K))):
        t0 = time.time()
        fn(ctx)
        ctx.log("%s stream done in %.1fs" % (name, time.time() - t0))
    if not ok and len(ctx.violations) + sum(ctx.known_hits.values()) == nv0:
        # a theorem over the reflected tables no longer checks and no stream met a failing input: look for one
        # where the broken obligation points (more variants of every point of the finite domains it ranges over)
        t0 = time.time()
        search_for_failing_input(ctx, K)
        ctx.log("directed search after the broken proof obligation done in %.1fs" % (time.time() - t0))
    if not ok and len(ctx.violations) + sum(ctx.known_hits.values()) == nv0:
        ctx.violation("proof obligations of Props/C17.v no longer check over the tables reflected from the working tree "
                      "(ps13 tables / Note.midi_pitch table / key profile matrices / KEYS / key_name_to_fifths_mode): " + why, {"theorem_or_build": why}, no_input=True)


def replay(obj):
    r = obj.get("replay", obj)
    print(json.dumps(obj, indent=1, default=str)[:4000])
    kind = r.get("kind")
    if kind == "spelling":
        rows = [tuple(x) for x in r["rows"]]
        bad, out = spelling_oracle(rows, tuple(r["unit"]), r["kwargs"], r["perm"])
        print("estimate_spelling now gives:", out)
        print("oracle:", bad or "property holds on this input")
    elif kind == "spelling_orders":
        a, b = [tuple(x) for x in r["rows_canonical"]], [tuple(x) for x in r["rows_other"]]
        bad, oa, ob = orders_oracle(a, b, tuple(r["unit"]), r["kwargs"])
        print("estimate_spelling now gives, rows in canonical order:", oa)
        print("estimate_spelling now gives, rows in the other order:", ob)
        print("oracle:", bad or "property holds on this input")
    elif kind == "history":
        P, K = gen()
        seen = []
        bad = run_history(r, K["names"], lambda ep, stored, value, si: seen.append((si, _ep_name(ep), value if isinstance(value, str) else value[:12])))
        for x in seen:
            print("step %d %s ->" % (x[0], x[1]), x[2])
        print("oracle:", bad or "property holds on this history")
    elif kind == "voices":
        rows = [tuple(x) for x in r["rows"]]
        bad, v, calls = voices_oracle(rows, tuple(r["unit"]), r["monophonic_voices"])
        print("estimate_voices now gives:", v)
        print("VoSA rows (id, voice):", calls)
        print("oracle:", bad or "property holds on this input")
    elif kind == "key":
        P, K = gen()
        rows = [tuple(x) for x in r["rows"]]
        parse_ok = {nm: (res is not None) for nm, res in K["parse"]}
        bad, res = key_oracle(rows, tuple(r["unit"]), r["key_profiles"], K["names"], parse_ok, r["variant"])
        print("estimate_key now gives:", res)
        print("oracle:", bad or "property holds on this input")
    elif kind == "key_scale":
        rows = [tuple(x) for x in r["rows"]]
        bad, r0, r1 = key_scale_oracle(rows, tuple(r["unit"]), r["key_profiles"], r["transform"])
        print("estimate_key now gives:", r0, "-- on the transformed rows", _ks_apply(rows, tuple(r["unit"]), r["transform"]), ":", r1)
        print("oracle:", bad or "property holds on this input")
    elif kind == "chroma":
        import numpy as np
        import partitura.musicanalysis.pitch_spelling as PS
        print("compute_chroma_vector_array now gives:",
              [[int(x) for x in row] for row in PS.compute_chroma_vector_array(chroma_array=np.array(r["chroma_array"], dtype=int), K_pre=r["K_pre"], K_post=r["K_post"])])
        print("(expected: row j = chroma counts of the notes max(0, j-K_pre) .. min(n, j+K_post)-1)")
    elif kind == "best_connections":
        import numpy as np
        import partitura.musicanalysis.voice_separation as VS
        print("est_best_connections now gives:", VS.est_best_connections(np.array(r["cost"], dtype=float), mode=r["mode"]))
    elif kind == "pairwise_cost":
        import partitura.musicanalysis.voice_separation as VS
        objs = {}
        def mk(t):
            if t[0] not in objs:
                objs[t[0]] = VS.VSNote(t[1], 0, 1, t[0])
                objs[t[0]].skip_contig = t[2]
            return objs[t[0]]
        print("pairwise_cost now gives:", VS.pairwise_cost([mk(t) for t in r["prev"]], [mk(t) for t in r["next"]]).tolist())
    elif kind == "note_midi":
        import partitura.score as S
        if "step" in r:
            print("Note.midi_pitch now:", S.Note(step=r["step"], octave=r["octave"], alter=r["alter"]).midi_pitch)
    elif kind == "midi":
        bad, got = midi_oracle(r)
        print("imported pitches by distinct onset:", got)
        print("oracle:", bad or "property holds on this input")
    else:
        print("nothing to re-run (no concrete input in this replay)")
    return 0
