"""C17 -- spelling, voice and key estimation are total, well-formed and pitch-preserving.

Four streams of cases, all drawn from ctx.rng:

  spelling  estimate_spelling on shuffled note arrays     vs  statement (sounds the MIDI pitch,
            |alter| <= 2, row-order independence by re-running on a permutation)
                                                          vs  Model/C17_Spelling.v (exact)
  voices    estimate_voices, both modes, zero durations   vs  statement (one positive voice per
            note, voices {1..k}, chord mode: equal (onset, duration) => equal voice)
                                                          vs  Model/C17_Voices.v with the REAL
            VoSA(...).note_array() rows fed in as the value of the oracle
  key       estimate_key, three profile sets, every name  vs  statement (valid name, octave /
            rescale invariance, transposition equivariance) vs Model/C17_Key.v (near-ties skipped)
  midi      load_score_midi on files built with mido      vs  multiset of (onset, pitch) written

Constant tables (ps13 tables, key profile matrices, KEYS) are reflected from the working
tree into coq/Gen/C17_*.v by gen() on every run; the kernel re-checks the proofs over them.
"""
import ast
import inspect
import itertools
import json
import math
import re
import textwrap
import time
from fractions import Fraction

import core
from core import cz, cstr, clist, ctuple, cbool, cnat

STEP_PC = {"C": 0, "D": 2, "E": 4, "F": 5, "G": 7, "A": 9, "B": 11}
# documented meaning of the accepted key profile names (estimate_key docstring / error text)
PROFILE_SETS = {"krumhansl_kessler": 0, "kk": 0, "ks": 0,
                "temperley": 1, "tp": 1, "cmbs": 1,
                "kostka_payne": 2, "kp": 2}


# ----------------------------------------------------------------------------
# reflection of the constant tables


def _ps13_tables_by_probing(PS):
    """init_morph / morph_int read off compute_morph_array's behaviour (used when the two tables are
    not literal assignments inside that function any more, e.g. moved to module level).
    One note of chroma c whose context is itself gets morph init_morph[c]; a second note of chroma d
    after a first note of chroma 0, with the context {0}, gets (morph_int[d] - morph_int[0] +
    init_morph[0]) mod 7.  ps13 uses morph_int only through differences mod 7, so the table
    normalised to morph_int[0] = 0 describes the same algorithm."""
    import numpy as np

    def onehot(c):
        v = np.zeros(12, dtype=int)
        v[c] = 1
        return v

    init = [int(PS.compute_morph_array(np.array([c]), np.array([onehot(c)]))[0]) % 7 for c in range(12)]
    mint = [(int(PS.compute_morph_array(np.array([0, d]), np.array([onehot(0), onehot(0)]))[1]) - init[0]) % 7
            for d in range(12)]
    return init, mint


def _ps13_tables():
    import partitura.musicanalysis.pitch_spelling as PS

    found = {}
    try:
        src = textwrap.dedent(inspect.getsource(PS.compute_morph_array))
        for node in ast.walk(ast.parse(src)):
            if isinstance(node, ast.Assign) and len(node.targets) == 1 and isinstance(node.targets[0], ast.Name) \
                    and node.targets[0].id in ("init_morph", "morph_int"):
                v = node.value
                if isinstance(v, ast.Call) and v.args:
                    v = v.args[0]
                lst = ast.literal_eval(v)
                name = node.targets[0].id
                if name in found:
                    raise RuntimeError("ps13 table %s assigned twice in compute_morph_array" % name)
                found[name] = [int(x) for x in lst]
        for name in ("init_morph", "morph_int"):
            if name not in found or len(found[name]) != 12:
                raise RuntimeError("cannot reflect ps13 table %s from compute_morph_array" % name)
        found["tables_from"] = "ast literal in compute_morph_array"
    except Exception as e:
        try:
            found["init_morph"], found["morph_int"] = _ps13_tables_by_probing(PS)
            found["tables_from"] = "probing compute_morph_array (%s)" % str(e)[:80]
        except Exception as e2:
            raise RuntimeError("cannot reflect the ps13 tables: %s; probing compute_morph_array failed too: %s" % (e, e2))
    sig = inspect.signature(PS.ps13s1)
    found["k_pre"] = int(sig.parameters["K_pre"].default)
    found["k_post"] = int(sig.parameters["K_post"].default)
    found["und_chroma"] = [int(x) for x in PS.UND_CHROMA]
    found["steps"] = [str(x) for x in PS.STEPS]
    return found


def _note_midi_table(steps):
    """score.Note(step, octave, alter).midi_pitch as partitura computes it, on the complete domain a
    spelling of a pitch 21..108 with at most a double accidental can fall in (315 notes)."""
    import partitura.score as S

    rows = []
    for st in steps:
        for al in range(-2, 3):
            for oc in range(0, 9):
                rows.append((st, al, oc, int(S.Note(step=st, octave=oc, alter=al).midi_pitch)))
    return rows


def _scaled_matrix(mat):
    frs = [[Fraction(float(x)) for x in row] for row in mat]
    L = 1
    for row in frs:
        for f in row:
            L = L * f.denominator // math.gcd(L, f.denominator)
    return [[int(f * L) for f in row] for row in frs]


def _key_tables():
    import partitura.musicanalysis.key_identification as KI
    import partitura.utils.music as M

    T = {"kk": _scaled_matrix(KI.KRUMHANSL_KESSLER), "cbms": _scaled_matrix(KI.CMBS),
         "kp": _scaled_matrix(KI.KOSTKA_PAYNE)}
    T["keys"] = [(str(r), str(m), int(f)) for r, m, f in KI.KEYS]
    T["names"] = [str(KI.format_key(*k)) for k in KI.KEYS]
    parse = []
    for nm in T["names"]:
        try:
            f, m = M.key_name_to_fifths_mode(nm)
            parse.append((nm, (int(f), str(m))))
        except Exception:
            parse.append((nm, None))
    T["parse"] = parse
    return T


def gen():
    core.setup_import_path()
    P = _ps13_tables()
    hdr = ["(* GENERATED by harness/props/c17.py from the working tree -- do not edit *)",
           "From Coq Require Import ZArith List String.", "Import ListNotations.", "Open Scope Z_scope.", ""]
    L = list(hdr)
    L.append("Definition ps_init_morph : list Z := %s." % clist([cz(x) for x in P["init_morph"]]))
    L.append("Definition ps_morph_int : list Z := %s." % clist([cz(x) for x in P["morph_int"]]))
    L.append("Definition ps_und_chroma : list Z := %s." % clist([cz(x) for x in P["und_chroma"]]))
    L.append("Definition ps_steps : list string := %s." % clist([cstr(x) for x in P["steps"]]))
    L.append("Definition ps_k_pre : Z := %s." % cz(P["k_pre"]))
    L.append("Definition ps_k_post : Z := %s." % cz(P["k_post"]))
    core.write_gen("C17_PS13", "\n".join(L) + "\n")
    L = list(hdr)
    L.append("Definition note_midi_tab : list (string * Z * Z * Z) := [\n  %s\n]." %
             ";\n  ".join(ctuple([cstr(a), cz(b), cz(c), cz(d)]) for a, b, c, d in _note_midi_table(P["steps"])))
    core.write_gen("C17_MidiTab", "\n".join(L) + "\n")
    K = _key_tables()
    L = list(hdr)
    for nm in ("kk", "cbms", "kp"):
        L.append("Definition key_matrix_%s : list (list Z) := [\n  %s\n]." %
                 (nm, ";\n  ".join(clist([cz(x) for x in row]) for row in K[nm])))
    L.append("Definition keys_table : list (string * string * Z) := [\n  %s\n]." %
             ";\n  ".join(ctuple([cstr(r), cstr(m), cz(f)]) for r, m, f in K["keys"]))
    L.append("Definition key_names_impl : list string := %s." % clist([cstr(x) for x in K["names"]]))
    L.append("Definition key_parse_tab : list (string * option (Z * string)) := [\n  %s\n]." %
             ";\n  ".join(ctuple([cstr(nm), "None" if r is None else "(Some %s)" % ctuple([cz(r[0]), cstr(r[1])])])
                          for nm, r in K["parse"]))
    core.write_gen("C17_KeyTab", "\n".join(L) + "\n")
    return P, K


# ----------------------------------------------------------------------------
# helpers


def _ints(values):
    """floats (dyadic rationals) -> integers by one common scaling (order/equality/ratio preserving)."""
    frs = [Fraction(float(v)) for v in values]
    L = 1
    for f in frs:
        L = L * f.denominator // math.gcd(L, f.denominator)
    return [int(f * L) for f in frs]


def _coq_failing(ctx, name, imports, terms, checker, shard):
    """ctx.coq_failing, but a model that no longer compiles/evaluates is a failed obligation, not a crash."""
    if not terms:
        ctx.obligation("correspondence (%s): no case reached the model" % name, False, "")
        return None
    try:
        return ctx.coq_failing(name, imports, "", terms, checker, shard=shard)
    except RuntimeError as e:
        ctx.obligation("correspondence (%s): the Coq model could not be evaluated" % name, False, str(e)[-800:])
        ctx.extra.setdefault("model_eval_errors", []).append(name)
        return None


UNITS = [("beat", "f4"), ("quarter", "f4"), ("div", "i4"), ("sec", "f4"), ("tick", "i4"), ("beat", "f8")]


def _array(rows, unit=("beat", "f4")):
    """rows: (onset, duration, pitch) -> structured note array in the given unit."""
    import numpy as np

    u, dt = unit
    return np.array([(o, d, p) for o, d, p in rows],
                    dtype=[("onset_" + u, dt), ("duration_" + u, dt), ("pitch", "i4")])


def _rows_as_stored(rows, unit):
    """the values as the array stores them (float32 rounding / int truncation applied)."""
    a = _array(rows, unit)
    u = unit[0]
    return [(float(o), float(d), int(p)) for o, d, p in zip(a["onset_" + u], a["duration_" + u], a["pitch"])]


def gen_rows(rng, n, lo, hi, int_times=False, zero_w=0.1, tonal=False):
    """Note rows with the corner cases C17 names: simultaneous, overlapping, zero-length,
    equal (onset, pitch) with different durations, exact duplicates, any order."""
    grid = rng.choice([1, 2, 4, 8]) if not int_times else 1
    span = max(1, int(n * rng.choice([0.1, 0.3, 0.6, 1.0, 2.0])))
    durs = [0.125, 0.25, 0.5, 0.5, 1, 1, 1, 1.5, 2, 3, 4] if not int_times else [1, 1, 2, 3, 4, 6, 8, 12]
    scale = rng.choice([[0, 2, 4, 5, 7, 9, 11], [0, 2, 3, 5, 7, 8, 10], [0, 2, 3, 5, 7, 8, 11]])
    tonic = rng.randint(0, 11)
    rows = []
    while len(rows) < n:
        o = rng.randint(0, span * grid) / grid if not int_times else rng.randint(0, span * 4)
        d = 0 if rng.random() < zero_w else rng.choice(durs)
        if tonal and rng.random() < 0.9:
            p = None
            while p is None or not (lo <= p <= hi):
                p = 12 * rng.randint(lo // 12, hi // 12) + (tonic + rng.choice(scale)) % 12
        else:
            p = rng.randint(lo, hi)
        rows.append((o, d, p))
        r = rng.random()
        if r < 0.10 and len(rows) < n:      # chord: same onset and duration
            for _ in range(rng.randint(1, 3)):
                if len(rows) < n:
                    rows.append((o, d, rng.randint(lo, hi)))
        elif r < 0.16 and len(rows) < n:    # same onset and pitch, other duration
            rows.append((o, rng.choice(durs), p))
        elif r < 0.20 and len(rows) < n:    # exact duplicate
            rows.append((o, d, p))
    order = rng.random()
    if order < 0.7:
        rng.shuffle(rows)
    elif order < 0.8:
        rows.sort()
    elif order < 0.9:
        rows.sort(reverse=True)
    return rows


def sizes(rng, count, big):
    """many small arrays, a few large ones (1..300 rows)."""
    out = []
    for i in range(count):
        r = rng.random()
        if i < big:
            out.append(rng.choice([120, 200, 300, 300]))
        elif r < 0.35:
            out.append(rng.randint(1, 6))
        elif r < 0.8:
            out.append(rng.randint(7, 40))
        else:
            out.append(rng.randint(41, 110))
    return out


# ----------------------------------------------------------------------------
# 1. spelling


def run_spelling_impl(rows, unit, kw):
    from partitura.musicanalysis import estimate_spelling

    sp = estimate_spelling(_array(rows, unit), **kw)
    return [(str(s["step"]), int(s["alter"]), int(s["octave"])) for s in sp]


def spelling_oracle(rows, unit, kw, perm):
    """-> (None | description, out).  rows as given; perm: a permutation of range(len(rows))."""
    try:
        out = run_spelling_impl(rows, unit, kw)
    except Exception as e:
        return "estimate_spelling raised %s: %s" % (type(e).__name__, e), None
    if len(out) != len(rows):
        return "estimate_spelling returned %d spellings for %d rows" % (len(out), len(rows)), out
    for i, ((o, d, p), (st, al, oc)) in enumerate(zip(rows, out)):
        if st not in STEP_PC:
            return "row %d: step %r is no step" % (i, st), out
        m = 12 * (oc + 1) + STEP_PC[st] + al
        if m != p:
            return "row %d pitch %d spelled %s alter %d octave %d which sounds %d" % (i, p, st, al, oc, m), out
        if abs(al) > 2:
            return "row %d pitch %d spelled %s with alter %d (more than a double accidental)" % (i, p, st, al), out
    rows2 = [rows[i] for i in perm]
    try:
        out2 = run_spelling_impl(rows2, unit, kw)
    except Exception as e:
        return "estimate_spelling raised %s on a permutation of the rows: %s" % (type(e).__name__, e), out
    stored = _rows_as_stored(rows, unit)
    a, b = {}, {}
    for r, s in zip(stored, out):
        a.setdefault(r, []).append(s)
    for i, s in zip(perm, out2):
        b.setdefault(stored[i], []).append(s)
    for r in a:
        if sorted(a[r]) != sorted(b.get(r, [])):
            return ("row-order dependence: note (onset %r, duration %r, pitch %d) is spelled %r in the given order and %r after permuting the rows"
                    % (r[0], r[1], r[2], sorted(a[r]), sorted(b.get(r, [])))), out
    return None, out


def run_spelling(ctx):
    rng = ctx.rng
    count, big = (260, 6) if ctx.tier == "quick" else (5000, 60)
    terms, kept = [], []
    nviol = 0
    for n in sizes(rng, count, big):
        unit = rng.choice(UNITS)
        rows = gen_rows(rng, n, 21, 108, int_times=unit[1] == "i4", tonal=rng.random() < 0.5)
        kw = {}
        if rng.random() < 0.15:
            kw = {"K_pre": rng.choice([0, 1, 3, 10]), "K_post": rng.choice([1, 2, 5, 40])}
        perm = list(range(len(rows)))
        rng.shuffle(perm)
        ctx.evaluations += 1
        ctx.count("spelling:n<=6" if n <= 6 else "spelling:n<=40" if n <= 40 else "spelling:n<=110" if n <= 110 else "spelling:n>110")
        bad, out = spelling_oracle(rows, unit, kw, perm)
        case = {"kind": "spelling", "rows": rows, "unit": list(unit), "kwargs": kw, "perm": perm}
        if bad:
            nviol += 1
            if nviol <= 3:
                case = shrink_spelling(case)
                bad2, out2 = spelling_oracle(case["rows"], tuple(case["unit"]), case["kwargs"], case["perm"])
                case["got"] = out2
                ctx.violation("spelling: " + (bad2 or bad), case)
            continue
        stored = _rows_as_stored(rows, unit)
        keys = {(o, p) for o, d, p in stored}
        if len(stored) >= 2 and (len(keys) < len(stored) or any(al != 0 for _, al, _ in out)):
            ctx.nontrivial(("sp", stored, sorted(kw.items())))
        if len(keys) < len(stored):
            ctx.count("spelling:has_equal_onset_pitch")
        if any(d == 0 for _, d, _ in stored):
            ctx.count("spelling:has_zero_duration")
        if kw:
            ctx.count("spelling:non_default_K_pre_K_post")
        if any(abs(al) == 2 for _, al, _ in out):
            ctx.count("spelling:has_double_accidental")
        if unit[1] == "i4":
            ctx.count("spelling:integer_time_unit")
        ons = _ints([o for o, d, p in stored] + [d for o, d, p in stored])
        nn = len(stored)
        crow = clist([ctuple([cz(ons[i]), cz(stored[i][2]), cz(ons[nn + i])]) for i in range(nn)])
        cout = clist([ctuple([cstr(st), cz(al), cz(oc)]) for st, al, oc in out])
        terms.append(ctuple([cnat(kw.get("K_pre", 10)), cnat(kw.get("K_post", 40)), crow, cout]))
        case["got"] = out
        kept.append(case)
        if len(rows) <= 8:
            ctx.sample({"spelling_case": {"rows": rows, "unit": list(unit), "got": out}}, limit=2)
    failing = _coq_failing(ctx, "spelling", "From PV Require Import Model.C17_Spelling.", terms, "spell_check", 40)
    if failing is None:
        return
    ctx.obligation("correspondence: estimate_spelling = Model.C17_Spelling.spell_tab (multiset of (row, step, alter, octave)) on %d shuffled arrays"
                   % len(terms), not failing, failing[:5])
    for i in failing[:3]:
        ctx.violation("spelling: implementation and model disagree (the theorems of Props/C17.v are about the model)", kept[i])


def shrink_spelling(case):
    unit, kw = tuple(case["unit"]), case["kwargs"]
    rows = case["rows"]

    def fails(sub):
        perm = list(range(len(sub)))[::-1]
        return spelling_oracle(sub, unit, kw, perm)[0] is not None

    try:
        if fails(rows):
            small = core.ddmin(rows, fails)
            return {"kind": "spelling", "rows": small, "unit": list(unit), "kwargs": kw, "perm": list(range(len(small)))[::-1]}
    except Exception:
        pass
    return case


# ----------------------------------------------------------------------------
# 2. voices


class _Recorder:
    """Observes the call of VoSA made by estimate_voices (input ids, output rows)."""

    def __init__(self, mod):
        self.mod = mod
        self.calls = []

    def __enter__(self):
        self.real = getattr(self.mod, "VoSA", None)
        rec = self
        real = self.real
        if real is None:
            return self

        class Spy(object):
            # a wrapper, not a subclass: VoSA.__init__ refers to the module-level name VoSA.
            # Observation must never disturb the call: whatever cannot be read is "not observable"
            # (the check then uses the self-consistency form of the correspondence).
            def __init__(s, arr, *a, **k):
                try:
                    s._pv_in = [int(x) for x in arr["id"]]
                except Exception:
                    s._pv_in = None
                rec.mod.VoSA = real
                try:
                    s._pv_inner = real(arr, *a, **k)
                finally:
                    rec.mod.VoSA = Spy

            def note_array(s, *a, **k):
                out = s._pv_inner.note_array(*a, **k)
                try:
                    if s._pv_in is not None:
                        rec.calls.append((s._pv_in, [(int(i), int(v)) for i, v in zip(out["id"], out["voice"])]))
                except Exception:
                    pass
                return out

            def __getattr__(s, name):
                return getattr(s._pv_inner, name)

        self.mod.VoSA = Spy
        return self

    def __exit__(self, *a):
        if self.real is not None:
            self.mod.VoSA = self.real


def run_voices_impl(rows, unit, mono):
    import partitura.musicanalysis.voice_separation as VS

    with _Recorder(VS) as rec:
        try:
            v = VS.estimate_voices(_array(rows, unit), monophonic_voices=mono)
        finally:
            pass
    return [int(x) for x in v], rec.calls


def voices_oracle(rows, unit, mono):
    try:
        v, calls = run_voices_impl(rows, unit, mono)
    except Exception as e:
        return "estimate_voices raised %s: %s" % (type(e).__name__, str(e)[:200]), None, None
    if len(v) != len(rows):
        return "estimate_voices returned %d voices for %d notes" % (len(v), len(rows)), v, calls
    if min(v) < 1:
        return "voice %d is not positive" % min(v), v, calls
    k = max(v)
    missing = sorted(set(range(1, k + 1)) - set(v))
    if missing:
        return "voice numbers %r are not used although voice %d is (gap)" % (missing[:5], k), v, calls
    if not mono:
        stored = _rows_as_stored(rows, unit)
        g = {}
        for (o, d, p), x in zip(stored, v):
            g.setdefault((o, d), set()).add(x)
        for key in sorted(g):
            if len(g[key]) > 1:
                return "chord mode: notes with onset %r and duration %r are in voices %r" % (key[0], key[1], sorted(g[key])), v, calls
    return None, v, calls


def run_voices(ctx):
    rng = ctx.rng
    count, big = (230, 5) if ctx.tier == "quick" else (4000, 50)
    terms, kept, terms_self, kept_self = [], [], [], []
    nviol = 0
    inputs = []
    # small scope, exhaustive: every array of up to 2 (thorough: 3) notes over onsets {0, 1},
    # durations {0, 1, 2}, pitches {60, 64} -- all constellations of grace notes, chords, unisons
    atoms = [(o, d, p) for o in (0, 1) for d in (0, 1, 2) for p in (60, 64)]
    for k in range(1, 3 if ctx.tier == "quick" else 4):
        for combo in itertools.product(atoms, repeat=k):
            inputs.append((list(combo), ("div", "i4"), "exhaustive"))
    for n in sizes(rng, count, big):
        unit = rng.choice(UNITS)
        zw = rng.choice([0.0, 0.1, 0.1, 0.3, 0.6, 1.0])
        rows = gen_rows(rng, n, 0, 127, int_times=unit[1] == "i4", zero_w=zw)
        if rng.random() < 0.3:   # narrow register: many unisons and crossings
            rows = [(o, d, 55 + p % 12) for o, d, p in rows]
        inputs.append((rows, unit, "random"))
    for rows, unit, src in inputs:
        for mono in (True, False):
            if src == "exhaustive":
                ctx.count("voices:exhaustive_small_scope")
            ctx.evaluations += 1
            ctx.count("voices:%s" % ("mono" if mono else "chord"))
            bad, v, calls = voices_oracle(rows, unit, mono)
            case = {"kind": "voices", "rows": rows, "unit": list(unit), "monophonic_voices": mono}
            if bad:
                nviol += 1
                if nviol <= 3:
                    case = shrink_voices(case)
                    bad2, v2, _ = voices_oracle(case["rows"], tuple(case["unit"]), mono)
                    case["got"] = v2
                    ctx.violation("voices: " + (bad2 or bad), case)
                continue
            stored = _rows_as_stored(rows, unit)
            zero = sum(1 for o, d, p in stored if d == 0)
            chords = len(stored) - len({(o, d) for o, d, p in stored})
            if zero:
                ctx.count("voices:has_zero_duration")
            if zero == len(stored):
                ctx.count("voices:all_zero_duration")
            if chords:
                ctx.count("voices:has_chords")
            if len(stored) >= 2 and (max(v) > 1 or zero or chords):
                ctx.nontrivial(("vo", stored, mono))
            t = _ints([o for o, d, p in stored] + [d for o, d, p in stored])
            nn = len(stored)
            cnotes = clist([ctuple([cz(stored[i][2]), cz(t[i]), cz(t[nn + i])]) for i in range(nn)])
            cout = clist([cz(x) for x in v])
            case["got"] = v
            if calls is not None and len(calls) == 1:
                vin, vres = calls[0]
                case["vosa_ids"], case["vosa_rows"] = vin, vres
                terms.append(ctuple([cbool(mono), cnotes, clist([cz(x) for x in vin]),
                                     clist([ctuple([cz(i), cz(x)]) for i, x in vres]), cout]))
                kept.append(case)
                if any(x < 0 for _, x in vres):
                    ctx.count("voices:vosa_left_notes_unassigned")
            else:
                terms_self.append(ctuple([cbool(mono), cnotes, cout]))
                kept_self.append(case)
            if len(rows) <= 6 and zero and not mono:
                ctx.sample({"voices_case": case}, limit=4)
    failing = _coq_failing(ctx, "voices", "From PV Require Import Model.C17_Voices.", terms, "voices_check", 40)
    if failing is None:
        return
    ctx.obligation("correspondence: estimate_voices = Model.C17_Voices.estimate_voices with the observed VoSA rows as oracle value "
                   "(and: the ids handed to VoSA are one member of every (onset, duration) chord and nothing else - every id in "
                   "monophonic mode - in any order; VoSA answered exactly them) on %d calls" % len(terms),
                   not failing, failing[:5])
    for i in failing[:3]:
        ctx.violation("voices: implementation and outer-layer model disagree", kept[i])
    ctx.count("voices:vosa_call_not_observable", len(terms_self))
    if terms_self:
        failing = _coq_failing(ctx, "voices_self", "From PV Require Import Model.C17_Voices.", terms_self, "voices_check_self", 40)
        if failing is None:
            return
        ctx.obligation("correspondence (VoSA call not observable): output fed back as oracle value reproduces itself on %d calls" % len(terms_self),
                       not failing, failing[:5])
        for i in failing[:3]:
            ctx.violation("voices: implementation and outer-layer model disagree (self-consistency form)", kept_self[i])


def shrink_voices(case):
    unit, mono = tuple(case["unit"]), case["monophonic_voices"]

    def fails(sub):
        return voices_oracle(sub, unit, mono)[0] is not None

    try:
        if fails(case["rows"]):
            return {"kind": "voices", "rows": core.ddmin(case["rows"], fails), "unit": list(unit), "monophonic_voices": mono}
    except Exception:
        pass
    return case


# ----------------------------------------------------------------------------
# 3. key


def _corrs(hist, mat):
    """float64 correlations of an exact histogram with the 24 rows (for margins only)."""
    import numpy as np

    x = np.array([float(h) for h in hist])
    with np.errstate(all="ignore"):
        return np.array([np.corrcoef(x, row)[0, 1] for row in mat])


def _matrices():
    import partitura.musicanalysis.key_identification as KI

    return [KI.KRUMHANSL_KESSLER, KI.CMBS, KI.KOSTKA_PAYNE]


def _key_call(rows, unit, name):
    from partitura.musicanalysis import estimate_key

    arr = _array(rows, unit)
    if name is None:
        return estimate_key(arr)
    return estimate_key(arr, key_profiles=name)


def _hist(stored):
    h = [Fraction(0)] * 12
    for o, d, p in stored:
        h[p % 12] += Fraction(d)
    return h


def _margin(stored, setidx):
    """(margin between the two largest correlations, index of the largest) from exact histogram."""
    import numpy as np

    h = _hist(stored)
    if len(set(h)) == 1:
        return (None if h[0] == 0 else 0.0), 0
    c = _corrs(h, _matrices()[setidx])
    if np.any(np.isnan(c)):
        return 0.0, 0
    o = np.argsort(c)
    return float(c[o[-1]] - c[o[-2]]), int(o[-1])


def _name_pc_mode(nm):
    """what a key name means, independent of the implementation's tables: (tonic pitch class, mode)."""
    m = re.fullmatch(r"([A-G])([#b]?)(m?)", nm) if isinstance(nm, str) else None
    if not m:
        return None
    return (STEP_PC[m.group(1)] + {"#": 1, "b": -1, "": 0}[m.group(2)]) % 12, ("minor" if m.group(3) else "major")


def key_oracle(rows, unit, name, names, parse_ok, variant):
    """-> (None | description, result).  variant: dict describing the metamorphic re-run."""
    setidx = 0 if name is None else PROFILE_SETS[name]
    try:
        r = _key_call(rows, unit, name)
    except Exception as e:
        return "estimate_key(key_profiles=%r) raised %s: %s" % (name, type(e).__name__, str(e)[:200]), None
    if not isinstance(r, str) or r not in names or not parse_ok.get(r, False) or _name_pc_mode(r) is None:
        return "estimate_key returned %r which is not one of the 24 valid key names" % (r,), r
    stored = _rows_as_stored(rows, unit)
    margin, _ = _margin(stored, setidx)
    kind = variant["kind"]
    if kind == "octave":
        rows2 = [(o, d, p + 12 * k) for (o, d, p), k in zip(rows, variant["shifts"])]
        tol, expect = None, r
    elif kind == "scale":
        f = variant["factor"]
        rows2 = [(o, d * f, p) for o, d, p in rows]
        exact = all(Fraction(a[1]) * Fraction(f) == Fraction(b[1]) for a, b in zip(stored, _rows_as_stored(rows2, unit)))
        if not exact and unit[1] == "i4":
            return None, r
        tol, expect = (None if exact and variant.get("pow2") else 1e-4), r
    else:
        j = variant["semitones"]
        rows2 = [(o, d, p + j) for o, d, p in rows]
        pc, mode = _name_pc_mode(r)
        tol, expect = 1e-6, ((pc + j) % 12, mode)
    by_meaning = kind == "transpose"
    if margin is None:      # zero histogram: every correlation undefined (the first key is returned)
        if kind == "transpose":
            return None, r      # a 24-way tie: the property fixes no tonic to be moved (counted as near-tie)
        tol = None
        expect = r
        by_meaning = False
    elif tol is not None and margin < tol:
        return None, r          # near-tie: counted by the caller
    try:
        r2 = _key_call(rows2, unit, name)
    except Exception as e:
        return "estimate_key raised %s on the %s variant: %s" % (type(e).__name__, kind, str(e)[:200]), r
    got2 = _name_pc_mode(r2) if by_meaning else r2
    if got2 != expect:
        return ("%s variant %r: estimate_key gives %r, expected %s (original input gives %r, top-two margin %r)"
                % (kind, {k: v for k, v in variant.items() if k != "shifts"}, r2,
                   "tonic pitch class %d, %s" % expect if by_meaning else repr(expect), r, margin)), r
    return None, r


def run_key(ctx, K):
    rng = ctx.rng
    try:
        from partitura.utils.globals import VALID_KEY_PROFILES
    except Exception:      # the list is an internal: without it, try every documented name
        VALID_KEY_PROFILES = sorted(PROFILE_SETS)
        ctx.count("key:VALID_KEY_PROFILES_not_importable")

    names = K["names"]
    parse_ok = {nm: (res is not None) for nm, res in K["parse"]}
    accepted = [None] + list(VALID_KEY_PROFILES)
    for nm in VALID_KEY_PROFILES:
        if nm not in PROFILE_SETS:
            ctx.violation("key: VALID_KEY_PROFILES admits %r, which names none of the three documented profile sets" % nm,
                          {"kind": "key_profile_name", "name": nm})
    accepted = [a for a in accepted if a is None or a in PROFILE_SETS]
    count, big = (420, 6) if ctx.tier == "quick" else (5000, 50)
    terms, kept = [], []
    near = 0
    nviol = 0
    szs = sizes(rng, count, big)
    for ci, n in enumerate(szs):
        unit = rng.choice(UNITS)
        name = accepted[ci % len(accepted)]
        setidx = 0 if name is None else PROFILE_SETS[name]
        r0 = rng.random()
        if r0 < 0.04:
            rows = [(o, 0, p) for o, d, p in gen_rows(rng, n, 21, 108, int_times=unit[1] == "i4")]
        else:
            rows = gen_rows(rng, n, 33, 96, int_times=unit[1] == "i4", tonal=rng.random() < 0.7,
                            zero_w=rng.choice([0, 0.1, 0.3]))
            if rng.random() < 0.15 and unit[1] != "i4":   # arbitrary (not grid) durations
                rows = [(o, d * (0.5 + rng.random()), p) for o, d, p in rows]
        vr = rng.random()
        if vr < 0.3:
            variant = {"kind": "octave", "shifts": [rng.choice([-1, 0, 0, 1]) if rng.random() < 0.5 else 0 for _ in rows]}
            if rng.random() < 0.4:
                g = rng.choice([-1, 1])
                variant["shifts"] = [g] * len(rows)
        elif vr < 0.6:
            f = rng.choice([2, 4, 0.5, 0.25, 3, 10, 7, 0.1, 1.7])
            if unit[1] == "i4":
                f = rng.choice([2, 3, 4, 7, 10])
            variant = {"kind": "scale", "factor": f, "pow2": f in (2, 4, 0.5, 0.25)}
        else:
            variant = {"kind": "transpose", "semitones": rng.randint(1, 11)}
        ctx.evaluations += 1
        ctx.count("key:set%d" % setidx)
        ctx.count("key:variant_" + variant["kind"])
        bad, r = key_oracle(rows, unit, name, names, parse_ok, variant)
        case = {"kind": "key", "rows": rows, "unit": list(unit), "key_profiles": name, "variant": variant}
        if bad:
            nviol += 1
            if nviol <= 3:
                case["got"] = r
                ctx.violation("key: " + bad, case)
            continue
        stored = _rows_as_stored(rows, unit)
        margin, top = _margin(stored, setidx)
        exact_sum = all(Fraction(d) * 16 == int(Fraction(d) * 16) and d < 4096 for o, d, p in stored)
        tol = 1e-9 if exact_sum else 1e-4
        if margin is not None and margin < tol:
            near += 1
            continue
        if margin is None:
            ctx.count("key:zero_histogram")
        if len({p % 12 for o, d, p in stored}) >= 3 and margin is not None:
            ctx.nontrivial(("key", stored, setidx))
        ds = _ints([d for o, d, p in stored])
        terms.append(ctuple([cz(setidx), clist([ctuple([cz(stored[i][2]), cz(ds[i])]) for i in range(len(stored))]), cstr(r)]))
        case["got"] = r
        kept.append(case)
        if len(rows) <= 6 and len(rows) >= 2:
            ctx.sample({"key_case": case}, limit=7)
    ctx.count("key:near_tie_skipped", near)
    ctx.log("key: implementation and oracle done, %d cases to the model" % len(terms))
    failing = _coq_failing(ctx, "key", "From PV Require Import Model.C17_Key.", terms, "key_check", 60)
    if failing is None:
        return
    ctx.obligation("correspondence: estimate_key = Model.C17_Key.estimate_key (exact integer correlation comparison; evaluated as estimate_key_fast, theorem estimate_key_fast_eq) on %d arrays, "
                   "every accepted profile name; %d near-ties (top-two margin below 1e-9, or 1e-4 when float32 sums are inexact) skipped"
                   % (len(terms), near), not failing, failing[:5])
    for i in failing[:3]:
        ctx.violation("key: implementation and model disagree", kept[i])


# ----------------------------------------------------------------------------
# 4. MIDI import


def build_midi(notes, ppq, ntracks, timesig):
    """notes: (onset_tick, dur_tick, pitch, track, channel) -> mido.MidiFile (in memory)."""
    import mido

    mid = mido.MidiFile(ticks_per_beat=ppq)
    for t in range(ntracks):
        ev = []
        for k, (o, d, p, tr, ch) in enumerate(notes):
            if tr != t:
                continue
            ev.append((o, 1, k, mido.Message("note_on", note=p, velocity=64, channel=ch)))
            ev.append((o + d, 0 if d > 0 else 2, k, mido.Message("note_off", note=p, velocity=0, channel=ch)))
        ev.sort(key=lambda e: (e[0], e[1], e[2]))
        track = mido.MidiTrack()
        now = 0
        if t == 0 and timesig:
            track.append(mido.MetaMessage("time_signature", numerator=timesig[0], denominator=timesig[1], time=0))
        for tt, _, _, msg in ev:
            track.append(msg.copy(time=tt - now))
            now = tt
        mid.tracks.append(track)
    return mid


def midi_oracle(case):
    import partitura
    from partitura import score as S

    notes = [tuple(x) for x in case["notes"]]
    mid = build_midi(notes, case["ppq"], case["ntracks"], case["timesig"])
    try:
        sc = partitura.load_score_midi(mid, part_voice_assign_mode=case["mode"],
                                       estimate_voice_info=case["estimate_voice_info"], estimate_key=case["estimate_key"])
    except Exception as e:
        return "load_score_midi raised %s: %s" % (type(e).__name__, str(e)[:200]), None
    got = []
    notes_seen = {"no_positive_voice": 0, "key_signatures": []}
    for part in S.iter_parts(sc.parts):
        for n in part.notes_tied:
            got.append((n.start.t, int(n.midi_pitch)))
        for n in part.notes:
            if n.tie_next is not None and n.tie_next.midi_pitch != n.midi_pitch:
                return "tied notes with different pitches %d -> %d" % (n.midi_pitch, n.tie_next.midi_pitch), None
            if n.voice is None or n.voice < 1:
                notes_seen["no_positive_voice"] += 1
        notes_seen["key_signatures"].append(len(list(part.iter_all(S.KeySignature))))
    case["_observed"] = notes_seen        # counted by the caller, not demanded (C17 does not state them)
    # "contains exactly the file's pitches": the pitches sounding at the 1st, 2nd, ... distinct onset of
    # the file are the pitches of the notes starting at the 1st, 2nd, ... distinct time of the score
    # (the time unit of the score is not C17's business, the order of the onsets identifies the notes)
    exp_r = _by_onset_rank((o, p) for o, d, p, tr, ch in notes)
    got_r = _by_onset_rank(got)
    if got_r != exp_r:
        if len(got_r) != len(exp_r):
            return "the file's notes start at %d distinct times, the imported score's at %d (%d vs %d notes)" % (
                len(exp_r), len(got_r), len(notes), len(got)), got_r
        k = next(i for i in range(len(exp_r)) if exp_r[i] != got_r[i])
        onset = sorted({o for o, d, p, tr, ch in notes})[k]
        return "imported pitches differ from the file: at the file's onset %d (distinct onset number %d) the file has pitches %r, the score %r" % (
            onset, k, exp_r[k], got_r[k]), got_r
    return None, got_r


def _by_onset_rank(pairs):
    d = {}
    for t, p in pairs:
        d.setdefault(t, []).append(int(p))
    return [sorted(d[t]) for t in sorted(d)]


def run_midi(ctx):
    rng = ctx.rng
    count = 70 if ctx.tier == "quick" else 1200
    nviol = 0
    for ci in range(count):
        n = rng.choice([1, 2, 3, 5, 8, 13, 20, 40, 80]) if ci > 2 else 250
        ppq = rng.choice([4, 12, 48, 96, 480])
        ntracks = rng.choice([1, 1, 2, 3])
        rows = gen_rows(rng, n, 21, 108, int_times=True, zero_w=rng.choice([0, 0.1, 0.3]), tonal=rng.random() < 0.5)
        unit = max(1, ppq // 4)
        notes, busy = [], {}
        for o, d, p in rows:
            o, d = int(o) * unit, int(d) * unit
            tr, ch = rng.randrange(ntracks), rng.choice([0, 0, 1, 9])
            # the MIDI format cannot hold two sounding notes of one pitch on one channel: move to a free slot
            placed = False
            for tr2, ch2 in [(tr, ch)] + [(a, b) for a in range(ntracks) for b in (0, 1, 2, 3, 9)]:
                if all(not (o <= e and s <= o + d) for s, e in busy.get((tr2, ch2, p), [])):
                    busy.setdefault((tr2, ch2, p), []).append((o, o + d))
                    notes.append((o, d, p, tr2, ch2))
                    placed = True
                    break
            if not placed:
                continue
        used = sorted({x[3] for x in notes})
        notes = [(o, d, p, used.index(tr), ch) for o, d, p, tr, ch in notes]
        case = {"kind": "midi", "notes": notes, "ppq": ppq, "ntracks": len(used), "mode": rng.randrange(6),
                "timesig": rng.choice([None, (4, 4), (3, 4), (6, 8)]),
                "estimate_voice_info": rng.random() < 0.5, "estimate_key": rng.random() < 0.6}
        ctx.evaluations += 1
        ctx.count("midi:files")
        if case["estimate_key"]:
            ctx.count("midi:estimate_key")
        if case["estimate_voice_info"]:
            ctx.count("midi:estimate_voice_info")
        bad, got = midi_oracle(case)
        obs = case.pop("_observed", None)
        if obs:
            ctx.count("midi:notes_without_positive_voice(not demanded)", obs["no_positive_voice"])
            if case["estimate_key"] and any(k != 1 for k in obs["key_signatures"]):
                ctx.count("midi:estimate_key_but_not_one_key_signature_per_part(not demanded)")
        if bad:
            nviol += 1
            if nviol <= 3:
                def fails(sub, case=case):
                    c2 = dict(case)
                    c2["notes"] = sub
                    return bool(sub) and midi_oracle(c2)[0] is not None
                try:
                    case["notes"] = core.ddmin(case["notes"], fails)
                except Exception:
                    pass
                bad2 = midi_oracle(case)[0]
                case.pop("_observed", None)
                ctx.violation("midi: " + (bad2 or bad), case)
            continue
        if len(notes) >= 2 and len({p % 12 for o, d, p, tr, ch in notes}) >= 2:
            ctx.nontrivial(("midi", notes, case["mode"], case["estimate_key"], case["estimate_voice_info"]))
        if any(d == 0 for o, d, p, tr, ch in notes):
            ctx.count("midi:has_zero_length_notes")
        if len({(tr, ch) for o, d, p, tr, ch in notes}) > 1:
            ctx.count("midi:several_track_channel_groups")
        if len(notes) > len({o for o, d, p, tr, ch in notes}):
            ctx.count("midi:has_simultaneous_onsets")
        if 2 <= len(notes) <= 5:
            ctx.sample({"midi_case": dict(case, imported_pitches_by_distinct_onset=got)}, limit=9)
    ctx.obligation("importer: the notes of load_score_midi's score carry exactly the file's pitches, onset by onset (pitch multiset at "
                   "the k-th distinct onset, for every k; %d files, all six part/voice modes, with and without voice and key estimation)"
                   % count, nviol == 0, "")


# ----------------------------------------------------------------------------


def run(ctx):
    ctx.rule = ("Random note arrays (1..300 rows; many small, a few of 120..300) over six time-unit/dtype layouts with simultaneous, "
                "overlapping, zero-length notes, notes of equal onset and pitch, exact duplicates; 70% shuffled, rest sorted/reversed/as generated. "
                "spelling: pitches 21..108, 15% with non-default K_pre/K_post; voices: pitches 0..127, both modes, zero-duration share 0..100%, "
                "preceded by ALL arrays of up to 2 (thorough: 3) notes over onsets {0,1} x durations {0,1,2} x pitches {60,64}; "
                "key: every accepted profile name in turn, one metamorphic variant (octave shifts / rescaling / transposition) per case; "
                "midi: files built in memory with mido from such arrays (pitches 21..108, 0..30% zero-length notes), 1..3 tracks, "
                "channels 0/1/9, all six part-voice modes, with/without voice and key estimation; compared: the pitch multiset at the "
                "k-th distinct onset.  "
                "Non-trivial = spelling array with >= 2 rows that has an altered note or two rows of equal (onset, pitch); voice array with "
                ">= 2 rows and more than one voice, a zero-duration note or a chord; key array with >= 3 pitch classes and a defined "
                "correlation; MIDI file with >= 2 notes of >= 2 pitch classes.")
    ctx.trusted = ["Coq 8.16.1 kernel incl. vm_compute",
                   "harness/props/c17.py: generators, reflection of the ps13/key tables (ast literal of compute_morph_array's "
                   "init_morph/morph_int - or, if they are no literals there, read off compute_morph_array by probing -, module "
                   "attributes for the rest; score.Note(step, octave, alter).midi_pitch run on 7 x 5 x 9 notes), exact scaling of float "
                   "times to integers, Coq literal printing",
                   "the VoSA search (class VoSA) is not modelled: its observed result is the oracle value of the outer-layer model; "
                   "which chord member is handed to VoSA is read off the observed call",
                   "mido (building the MIDI files)"]
    ctx.assumptions = ["float onsets/durations are dyadic rationals; a case's times are multiplied by one common power of two before "
                       "they reach the integer model (order, equality and ratios preserved)",
                       "key: cases whose two largest correlations differ by less than 1e-9 (1e-4 when the float32 duration sums are "
                       "inexact) are counted and not compared (float corrcoef vs exact comparison)",
                       "numpy int overflow is out of scope"]
    P, K = gen()
    ctx.count("reflection:ps13 tables from " + P.get("tables_from", "?"))
    ok, why = ctx.coq_props(expect_min=36)
    nv0 = len(ctx.violations) + sum(ctx.known_hits.values())
    ctx.log("props: %s" % ("ok" if ok else "FAILED"))
    for name, fn in (("spelling", run_spelling), ("voices", run_voices), ("key", lambda c: run_key(c, K)), ("midi", run_midi)):
        t0 = time.time()
        fn(ctx)
        ctx.log("%s stream done in %.1fs" % (name, time.time() - t0))
    if not ok and len(ctx.violations) + sum(ctx.known_hits.values()) == nv0:
        ctx.violation("proof obligations of Props/C17.v no longer check over the tables reflected from the working tree "
                      "(ps13 tables / Note.midi_pitch table / key profile matrices / KEYS / key_name_to_fifths_mode): " + why, {"theorem_or_build": why}, no_input=True)


def replay(obj):
    r = obj.get("replay", obj)
    print(json.dumps(obj, indent=1, default=str)[:4000])
    kind = r.get("kind")
    if kind == "spelling":
        rows = [tuple(x) for x in r["rows"]]
        bad, out = spelling_oracle(rows, tuple(r["unit"]), r["kwargs"], r["perm"])
        print("estimate_spelling now gives:", out)
        print("oracle:", bad or "property holds on this input")
    elif kind == "voices":
        rows = [tuple(x) for x in r["rows"]]
        bad, v, calls = voices_oracle(rows, tuple(r["unit"]), r["monophonic_voices"])
        print("estimate_voices now gives:", v)
        print("VoSA rows (id, voice):", calls)
        print("oracle:", bad or "property holds on this input")
    elif kind == "key":
        P, K = gen()
        rows = [tuple(x) for x in r["rows"]]
        parse_ok = {nm: (res is not None) for nm, res in K["parse"]}
        bad, res = key_oracle(rows, tuple(r["unit"]), r["key_profiles"], K["names"], parse_ok, r["variant"])
        print("estimate_key now gives:", res)
        print("oracle:", bad or "property holds on this input")
    elif kind == "midi":
        bad, got = midi_oracle(r)
        print("imported pitches by distinct onset:", got)
        print("oracle:", bad or "property holds on this input")
    else:
        print("nothing to re-run (no concrete input in this replay)")
    return 0
