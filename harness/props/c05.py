"""C05 -- the note array is a faithful table of the score.

What runs here (see design.d/C05.md):
  * generator of part / score specifications (JSON) built through partitura's public API
    (Part, set_quarter_duration, add(TimeSignature|KeySignature|Measure|Note|GraceNote|Rest), tie links);
  * implementation runner: Part.note_array, Score.note_array, Part.rest_array, ensure_notearray,
    rest_array_from_part_list, note_array_to_score -> note_array, create_divs_from_beats,
    create_beats_from_divs, over the include_* options and unique_id_per_part;
  * direct oracle (Python, independent of the Coq model): expected rows computed from the
    specification (what was put into the score) and the part's own maps;
  * correspondence: the Gallina models (coq/Model/C05.v, C05_Ext.v, C05_Disp.v, C05_Inv.v) evaluated by
    vm_compute on the same inputs must produce the same table (rows compared as multisets within equal
    (onset, pitch)); for the inverse direction also the divisions, the pickup measure and the tied notes of
    the Score that note_array_to_score returns.
"""
import itertools
import json
import math
from fractions import Fraction

import core
from core import cz, cq, cstr, clist, ctuple, copt, cbool

STEPS = ["C", "D", "E", "F", "G", "A", "B"]
BASE = {"C": 0, "D": 2, "E": 4, "F": 5, "G": 7, "A": 9, "B": 11}
GRACE_TYPES = ["grace", "acciaccatura", "appoggiatura"]
TS_CHOICES = [(4, 4), (3, 4), (2, 4), (6, 8), (3, 8), (2, 2), (5, 4), (12, 8)]
OPT_NAMES = ["include_pitch_spelling", "include_key_signature", "include_time_signature",
             "include_metrical_position", "include_grace_notes", "include_staff",
             "include_divs_per_quarter"]
REST_OPT_NAMES = ["include_pitch_spelling", "include_key_signature", "include_time_signature",
                  "include_metrical_position", "include_grace_notes", "include_staff"]
F4_REL = 2.0 ** -21  # declared tolerance for float32 columns (float32 has a 24 bit significand)


# ----------------------------------------------------------------------------
# specifications -> partitura objects (public API only)


def add_notes(p, objs, notes):
    import partitura.score as S
    for n in notes:
        kw = dict(id=n["id"], voice=n["voice"], staff=n["staff"])
        if n.get("rest"):
            o = S.Rest(**kw)
        elif n.get("grace"):
            o = S.GraceNote(n["grace"], step=n["step"], octave=n["oct"], alter=n["alter"], **kw)
        else:
            o = S.Note(step=n["step"], octave=n["oct"], alter=n["alter"], **kw)
        p.add(o, n["s"], n["e"])
        objs[n["id"]] = o


def link_notes(objs, notes):
    for n in notes:
        if n.get("tie_next") and n["tie_next"] in objs and n["id"] in objs:
            a, b = objs[n["id"]], objs[n["tie_next"]]
            a.tie_next = b
            b.tie_prev = a


def build_part(spec, only_ids=None):
    """Build a partitura Part from a JSON specification.  Returns (part, {id: object}).
    only_ids: add only these notes (the others follow later through add_notes / link_notes)."""
    import partitura.score as S

    p = S.Part(spec["id"])
    for t, q in spec["qd"]:
        p.set_quarter_duration(t, q)
    for t, b, bt in spec["ts"]:
        p.add(S.TimeSignature(b, bt), t)
    for t, f, m in spec["ks"]:
        p.add(S.KeySignature(f, m), t)
    for i, (s, e) in enumerate(spec["measures"]):
        p.add(S.Measure(number=i + 1), s, e)
    if spec.get("repeat"):
        p.add(S.Repeat(), spec["repeat"][0], spec["repeat"][1])
    objs = {}
    notes = [n for n in spec["notes"] if only_ids is None or n["id"] in only_ids]
    add_notes(p, objs, notes)
    link_notes(objs, notes)
    return p, objs


def sub_spec(spec, ids):
    """The specification restricted to the notes in ids (tie links to the others dropped)."""
    out = []
    for n in spec["notes"]:
        if n["id"] in ids:
            m = dict(n)
            if m.get("tie_next") and m["tie_next"] not in ids:
                m.pop("tie_next")
            out.append(m)
    s = dict(spec)
    s["notes"] = out
    return s


def build_score(specs):
    import partitura.score as S

    parts = [build_part(s)[0] for s in specs]
    return S.Score(parts), parts


def spec_divs(spec):
    return spec["qd"][0][1]


# ----------------------------------------------------------------------------
# generators


def gen_layout(rng, quarter_aligned=False):
    """A metrical layout in half-quarter units (hq), shared by the parts of a score."""
    nseg = rng.choice([1, 1, 2, 2, 3])
    pickup = rng.random() < 0.4
    choices = [c for c in TS_CHOICES if not quarter_aligned or (c[0] * 8 // c[1]) % 2 == 0]
    t = 0
    measures, ts = [], []
    for si in range(nseg):
        b, bt = rng.choice(choices)
        mlen = b * 8 // bt
        ts.append([t, b, bt])
        for j in range(rng.randint(1, 3)):
            l = mlen
            if si == 0 and j == 0 and pickup and mlen > 2:
                l = rng.randrange(2, mlen, 2) if quarter_aligned else rng.randint(1, mlen - 1)
            measures.append([t, t + l])
            t += l
    r = rng.random()
    if r < 0.12:
        ts = []                      # no time signature at all (default 4/4 assumed by the maps)
    elif r < 0.2 and len(measures) > 1:
        shift = measures[1][0]       # first time signature only at the second measure
        ts = [x for x in ts if x[0] >= shift] or [[shift, ts[0][1], ts[0][2]]]
    starts = [m[0] for m in measures]
    ks = []
    r = rng.random()
    if r > 0.15:
        pts = sorted(rng.sample(starts, min(len(starts), rng.choice([1, 1, 2, 3]))))
        if rng.random() < 0.75:
            pts[0] = 0
        for x in sorted(set(pts)):
            ks.append([x, rng.randint(-7, 7), rng.choice(["major", "minor", None])])
    if rng.random() < 0.1:
        measures = []                # a part without measures
    elif rng.random() < 0.1:
        measures = measures[:1]
    return {"total": t, "measures": measures, "ts": ts, "ks": ks}


# How the voices of one part are numbered.  The voice column must say what the score STATES: 0 is a voice
# (0-based numbering; what note_array_to_score creates for a 0-based voice column), so is a number after a gap
# or a negative number; only a MISSING voice is replaced.  (weight, name, pool)
VOICE_SCHEMES = [
    (26, "one_based", [None, 1, 1, 2, 3, 4]),
    (18, "zero_based", [None, 0, 0, 1, 2, 3]),           # voice 0 next to positive voices and missing ones
    (8, "zero_based_all_stated", [0, 0, 1, 2]),          # voice 0 next to positive voices
    (8, "all_zero", [0]),
    (9, "zero_and_missing", [0, 0, None]),               # voice 0 next to notes without voice, nothing else
    (10, "gaps", [None, 0, 2, 5, 9]),
    (5, "gaps_all_stated", [0, 3, 7]),
    (4, "negative", [None, -2, 0, 1, -3]),                 # negative numbers other than the code's marker -1
    (4, "one_voice", [2, 2, 2, None]),
    (8, "all_missing", [None]),
]
# C05-K1: the stated voice -1 (the value the implementation uses internally for "no voice")
VOICE_SENTINEL = (100, "states_minus_one(C05-K1)", [-1, -1, 0, 2, None])
# staff: "note.staff if note.staff else 0" -- staff 0 and no staff both read 0; gaps and single staves
STAFF_POOLS = [[None, None, 1, 2, 0], [None, None, 1, 2, 0], [0, 1, None], [None, 2, 5], [0], [None], [1, 2, 3]]


def pick_voice_scheme(rng, allow_sentinel=False):
    """(name, pool).  allow_sentinel: 3 % of the parts state voice -1 somewhere (known finding C05-K1)."""
    if allow_sentinel and rng.random() < 0.03:
        return VOICE_SENTINEL[1], VOICE_SENTINEL[2]
    x = rng.random() * sum(w for w, _, _ in VOICE_SCHEMES)
    for w, name, pool in VOICE_SCHEMES:
        x -= w
        if x < 0:
            return name, pool
    return VOICE_SCHEMES[0][1], VOICE_SCHEMES[0][2]


def gen_notes(rng, total, bar, prefix="n", n_max=14, rests=True, allow_sentinel=False):
    """Notes in division units on [0, total]; weights on the corner cases C05 names."""
    notes = []
    k = [0]
    _, vpool = pick_voice_scheme(rng, allow_sentinel)
    spool = rng.choice(STAFF_POOLS)

    def nid():
        k[0] += 1
        return "%s%d" % (prefix, k[0] - 1)

    def attrs():
        return {"step": rng.choice(STEPS), "alter": rng.choice([None, None, 0, 1, -1, 2, -2]),
                "oct": rng.randint(1, 7),
                "voice": rng.choice(vpool), "staff": rng.choice(spool)}

    if total <= 0:
        return notes
    r = rng.random()
    n_items = 0 if r < 0.06 else rng.randint(1, n_max)
    for _ in range(n_items):
        kind = rng.random()
        s = rng.randrange(0, total)
        if kind < 0.40:      # plain note
            e = min(total, s + rng.randint(1, max(1, bar)))
            notes.append(dict(id=nid(), s=s, e=e, **attrs()))
        elif kind < 0.55:    # chord / duplicates at one onset (same pitch possible)
            a = attrs()
            e = min(total, s + rng.randint(1, max(1, bar)))
            notes.append(dict(id=nid(), s=s, e=e, **a))
            for _ in range(rng.randint(1, 2)):
                b = dict(a) if rng.random() < 0.4 else attrs()
                b["voice"] = rng.choice(vpool)
                notes.append(dict(id=nid(), s=s, e=min(total, s + rng.randint(1, max(1, bar))), **b))
        elif kind < 0.80:    # tie chain, often across several measures
            a = attrs()
            nseg = rng.randint(2, 4)
            prev = None
            t = s
            for j in range(nseg):
                if t >= total:
                    break
                e = min(total, t + rng.randint(1, max(1, bar + bar // 2)))
                n = dict(id=nid(), s=t, e=e, **a)
                if rng.random() < 0.3:
                    n["voice"] = rng.choice(vpool + [None, 1])   # voices may differ along a chain; the head counts
                notes.append(n)
                if prev is not None:
                    prev["tie_next"] = n["id"]
                prev = n
                t = e
        else:                # grace note (zero duration)
            a = attrs()
            notes.append(dict(id=nid(), s=s, e=s, grace=rng.choice(GRACE_TYPES), **a))
            if rng.random() < 0.5 and s < total:
                notes.append(dict(id=nid(), s=s, e=min(total, s + rng.randint(1, max(1, bar))), **attrs()))
    if rests:
        # the rests are numbered like the notes (half of the parts) or on their own
        rpool = vpool if rng.random() < 0.5 else pick_voice_scheme(rng, allow_sentinel)[1]
        for _ in range(rng.choice([0, 0, 1, 2, 4])):
            s = rng.randrange(0, total)
            e = min(total, s + rng.randint(1, max(1, bar)))
            notes.append(dict(id="r%d" % len(notes), s=s, e=e, rest=True,
                              voice=rng.choice(rpool), staff=rng.choice(spool)))
    rng.shuffle(notes)
    return notes


def instantiate(layout, divs, pid, notes, qd_change=None):
    """Layout (hq units) -> part specification in divisions.  qd_change = (hq position, new divs)."""
    def cv(h):
        if qd_change is None or h <= qd_change[0]:
            return h * divs // 2
        return qd_change[0] * divs // 2 + (h - qd_change[0]) * qd_change[1] // 2

    qd = [[0, divs]]
    if qd_change is not None:
        qd.append([cv(qd_change[0]), qd_change[1]])
    return {"id": pid, "qd": qd,
            "ts": [[cv(t), b, bt] for t, b, bt in layout["ts"]],
            "ks": [[cv(t), f, m] for t, f, m in layout["ks"]],
            "measures": [[cv(s), cv(e)] for s, e in layout["measures"]],
            "notes": notes, "total": cv(layout["total"])}


def gen_dense_notes(rng, total, prefix="n"):
    """Many notes on few onsets (chords of 8-30 notes, duplicates of (onset, pitch)): numpy's sorts
    only leave their small-array code path above 16 elements, so the (stable) second pass of the
    two-pass sort is only exercised by arrays of this size."""
    notes = []
    _, vpool = pick_voice_scheme(rng)
    spool = rng.choice(STAFF_POOLS)
    onsets = sorted(rng.sample(range(0, max(1, total)), min(max(1, total), rng.randint(2, 6))))
    n = rng.randint(24, 70)
    for k in range(n):
        s = rng.choice(onsets)
        e = min(total, s + rng.randint(1, 6))
        if rng.random() < 0.1:
            e = s
        a = {"step": rng.choice(STEPS), "alter": rng.choice([None, 0, 1, -1]), "oct": rng.randint(1, 7),
             "voice": rng.choice(vpool), "staff": rng.choice(spool)}
        d = dict(id="%s%d" % (prefix, k), s=s, e=e, **a)
        if e == s:
            d["grace"] = rng.choice(GRACE_TYPES)
        notes.append(d)
    rng.shuffle(notes)
    return notes


def gen_part_spec(rng, pid="P1", allow_qd_change=True, allow_sentinel=False):
    aligned = rng.random() < 0.35
    layout = gen_layout(rng, quarter_aligned=aligned)
    divs = rng.choice([1, 2, 3, 4, 5, 6, 12] if aligned else [2, 4, 6, 8, 10, 12, 16, 24])
    qd_change = None
    if allow_qd_change and rng.random() < 0.2 and len(layout["measures"]) >= 2:
        m = rng.choice(layout["measures"][1:])
        qd_change = (m[0], rng.choice([2, 4, 6, 10, 12]))
        if qd_change[1] == divs:
            qd_change = (m[0], divs + 2)
    spec = instantiate(layout, divs, pid, [], qd_change)
    bar = max(1, 2 * divs)
    if rng.random() < 0.09 and spec["total"] > 0:
        spec["notes"] = gen_dense_notes(rng, spec["total"])
    else:
        spec["notes"] = gen_notes(rng, spec["total"], bar, allow_sentinel=allow_sentinel)
    return spec


DIVS_SETS = [(4, 6), (4, 6, 10), (6, 8), (10, 12), (2, 3), (3, 4, 5), (2, 2), (4, 6, 4), (12, 8, 6), (1, 2), (6, 10, 15)]


def gen_score_specs(rng):
    """2-4 parts over one layout, divisions whose lcm exceeds all of them; often one part without notes;
    sometimes 11-13 small parts (part numbers with two digits) or one dense part."""
    ds = list(rng.choice(DIVS_SETS))
    aligned = any(d % 2 for d in ds)
    layout = gen_layout(rng, quarter_aligned=aligned)
    r = rng.random()
    many = False
    if r < 0.08:
        ds = ds[:1]                                  # single-part score: ids never prefixed
    elif r < 0.14:
        many = True
        ds = [rng.choice(ds) for _ in range(rng.randint(11, 13))]
    empty_at = None
    if rng.random() < 0.5 and len(ds) >= 2:
        empty_at = rng.randrange(0, len(ds) + 1)
        ds.insert(empty_at, rng.choice(ds))          # its divisions are one of the others' (lcm unaffected)
    dense_at = rng.randrange(len(ds)) if (not many and rng.random() < 0.1) else None
    specs = []
    for i, d in enumerate(ds):
        spec = instantiate(layout, d, "part%d" % i, [])
        if i != empty_at and spec["total"] > 0:
            if i == dense_at:
                ns = gen_dense_notes(rng, spec["total"])
            else:
                ns = gen_notes(rng, spec["total"], max(1, 2 * d), prefix="n", n_max=(2 if many else 7), rests=rng.random() < 0.3)
            if not [n for n in ns if not n.get("rest")] and rng.random() < 0.7:
                ns.append(dict(id="nx", s=0, e=min(spec["total"], d), step="C", alter=None, oct=4, voice=1, staff=1))
            spec["notes"] = ns
        specs.append(spec)
    return specs


def gen_shape(rng, n):
    """How the n parts are handed over: a nested list of part numbers (inner lists = PartGroups),
    parts in their order.  [0, 1, 2] is the flat list."""
    if n < 2 or rng.random() < 0.45:
        return list(range(n))

    def split(lo, hi, depth):
        items = list(range(lo, hi))
        if len(items) <= 1 or depth > 2:
            return items
        out = []
        i = lo
        while i < hi:
            k = rng.randint(1, max(1, min(3, hi - i)))
            if rng.random() < 0.5 or (k == hi - lo and depth > 0):
                out.extend(range(i, i + k))           # plain members
            else:
                out.append(split(i, i + k, depth + 1) if k > 1 else [i])   # a group (possibly of one part)
            i += k
        return out
    sh = split(0, n, 0)
    return sh


def shape_is_flat(shape):
    return all(isinstance(x, int) for x in shape)


def shape_leaves(shape):
    out = []
    for x in shape:
        out.extend([x] if isinstance(x, int) else shape_leaves(x))
    return out


def canonical_prefixes(shape, uniq, pre=""):
    """part number -> id prefix the current implementation (and the Coq model) uses."""
    out = {}
    for i, x in enumerate(shape):
        p = pre + ("P%02d_" % i if (uniq and len(shape) > 1) else "")
        if isinstance(x, int):
            out[x] = p
        else:
            out.update(canonical_prefixes(x, uniq, p))
    return out


def build_members(shape, parts):
    import partitura.score as S
    out = []
    for x in shape:
        if isinstance(x, int):
            out.append(parts[x])
        else:
            g = S.PartGroup(group_name="g")
            g.children = build_members(x, parts)
            out.append(g)
    return out


def option_sets(rng, names, n_random, full=False, mp_ok=True):
    """A covering sample of the 2^k include_* combinations (or all of them)."""
    k = len(names)
    if full:
        combos = list(itertools.product([False, True], repeat=k))
    else:
        combos = {tuple([False] * k), tuple([True] * k)}
        for i in range(k):
            combos.add(tuple(j == i for j in range(k)))
            combos.add(tuple(j != i for j in range(k)))
        combos = sorted(combos)
        combos = rng.sample(combos, min(len(combos), 6)) + [tuple(rng.random() < 0.5 for _ in range(k)) for _ in range(n_random)]
    out = []
    for c in combos:
        o = dict(zip(names, c))
        if not mp_ok:
            o["include_metrical_position"] = False
        if o not in out:
            out.append(o)
    return out


# ----------------------------------------------------------------------------
# expected rows (direct oracle), computed from the specification


def spec_heads(spec, rests=False):
    """[(note, tied duration)] for the objects that must produce a row."""
    by_id = {n["id"]: n for n in spec["notes"]}
    if rests:
        return [(n, n["e"] - n["s"]) for n in spec["notes"] if n.get("rest")]
    targets = {n["tie_next"] for n in spec["notes"] if n.get("tie_next")}
    out = []
    for n in spec["notes"]:
        if n.get("rest") or n["id"] in targets:
            continue
        d, m, guard = 0, n, 0
        while m is not None:
            d += m["e"] - m["s"]
            m = by_id[m["tie_next"]] if m.get("tie_next") else None
            guard += 1
            assert guard < 10000
        out.append((n, d))
    return out


def midi_pitch(n):
    return 0 if n.get("rest") else 12 * (n["oct"] + 1) + BASE[n["step"]] + (n["alter"] or 0)


def tabulate_maps(part, times, want):
    """The part's own maps at the given times (reference for the optional columns).
    Returns dict name -> {t: value} ; a map that raises is reported under 'errors'."""
    out = {"errors": {}}
    ts = sorted(set(times))
    for name, attr in (("ks", "key_signature_map"), ("ts", "time_signature_map"), ("mp", "metrical_position_map")):
        if name not in want:
            continue
        try:
            f = getattr(part, attr)
            tab = {}
            for t in ts:
                v = f(t)
                tab[t] = tuple(int(x) for x in v)
                if any(float(x) != int(x) for x in v):
                    raise ValueError("non-integer map value %r" % (v,))
            out[name] = tab
        except Exception as e:  # the map itself fails: not C05's subject (C02/C10)
            out["errors"][name] = "%s: %s" % (type(e).__name__, e)
    return out


def time_maps(part, times):
    ts = sorted(set(times))
    if not ts:
        return {}, {}
    qm = part.quarter_map(ts)
    bm = part.beat_map(ts)
    return ({t: float(v) for t, v in zip(ts, qm)}, {t: float(v) for t, v in zip(ts, bm)})


def expected_rows(spec, part, opts, rests=False):
    """Expected table as a list of dicts (unordered) + the tabulated maps."""
    heads = spec_heads(spec, rests)
    # what the score states: a voice that is not None is reported as it is -- 0 included; only a missing
    # voice is replaced (documented: "max voice + 1"; the oracle only demands a number that is no stated voice)
    raw_voices = [(-1 if n["voice"] is None else n["voice"]) for n, _ in heads]
    mv = max(raw_voices) if raw_voices else 0
    want = set()
    if opts.get("include_key_signature"):
        want.add("ks")
    if opts.get("include_time_signature"):
        want.add("ts")
    if opts.get("include_metrical_position"):
        want.add("mp")
    maps = tabulate_maps(part, [n["s"] for n, _ in heads], want)
    times = [n["s"] for n, _ in heads] + [n["s"] + d for n, d in heads]
    qm, bm = time_maps(part, times)
    rows = []
    stated = frozenset(n["voice"] for n, _ in heads if n["voice"] is not None)
    for (n, d), rv in zip(heads, raw_voices):
        r = {"onset_div": n["s"], "duration_div": d, "pitch": midi_pitch(n),
             "voice": (mv + 1 if n["voice"] is None else n["voice"]), "voice_stated": n["voice"] is not None, "id": n["id"],
             "onset_quarter": qm[n["s"]], "duration_quarter": qm[n["s"] + d] - qm[n["s"]],
             "onset_beat": bm[n["s"]], "duration_beat": bm[n["s"] + d] - bm[n["s"]],
             # bookkeeping (not columns): the voices the score states in this array, the id in the part,
             # the magnitudes of the two map values a duration is the difference of
             "_stated": stated, "_oid": n["id"], "_part": 0,
             "_span_quarter": abs(qm[n["s"]]) + abs(qm[n["s"] + d]), "_span_beat": abs(bm[n["s"]]) + abs(bm[n["s"] + d])}
        if opts.get("include_pitch_spelling"):
            if rests:
                r.update(step="0", alter=0, octave=0)
            else:
                r.update(step=n["step"], alter=n["alter"] or 0, octave=n["oct"])
        if opts.get("include_grace_notes"):
            r.update(is_grace=1 if n.get("grace") else 0, grace_type=n.get("grace") or "")
        if "ks" in maps:
            r.update(ks_fifths=maps["ks"][n["s"]][0], ks_mode=maps["ks"][n["s"]][1])
        if "ts" in maps:
            r.update(ts_beats=maps["ts"][n["s"]][0], ts_beat_type=maps["ts"][n["s"]][1], ts_mus_beats=maps["ts"][n["s"]][2])
        if "mp" in maps:
            rel, tot = maps["mp"][n["s"]]
            r.update(is_downbeat=1 if rel == 0 else 0, rel_onset_div=rel, tot_measure_div=tot)
        if opts.get("include_staff"):
            r.update(staff=n["staff"] or 0)
        if opts.get("include_divs_per_quarter"):
            # what the score states AT THE ONSET (the implementation refuses parts with several divisions; a table
            # that comes back for such a part must still say the divisions in force at each onset)
            r.update(divs_pq=[q for t, q in sorted(spec["qd"]) if t <= n["s"]][-1] if any(t <= n["s"] for t, q in spec["qd"]) else spec_divs(spec))
        rows.append(r)
    return rows, maps


INT_COLS = ["onset_div", "duration_div", "pitch", "voice", "alter", "octave", "is_grace", "ks_fifths", "ks_mode",
            "ts_beats", "ts_beat_type", "ts_mus_beats", "is_downbeat", "rel_onset_div", "tot_measure_div",
            "staff", "divs_pq"]
STR_COLS = ["id", "step", "grace_type"]
F_COLS = ["onset_quarter", "duration_quarter", "onset_beat", "duration_beat"]


def array_rows(arr):
    """Structured array -> list of plain dicts."""
    names = arr.dtype.names
    out = []
    for rec in arr:
        d = {}
        for nm in names:
            v = rec[nm]
            if nm in STR_COLS:
                d[nm] = str(v)
            elif nm in F_COLS:
                d[nm] = float(v)
            else:
                d[nm] = int(v)
        out.append(d)
    return out


def f4_close(got, exp, span=None):
    """float32 column against the part's float64 map: relative 2^-21 (of the value; for a duration of the
    two map values it is the difference of, so that the difference may be taken in single precision)."""
    return abs(got - exp) <= (abs(exp) if span is None else span) * F4_REL + 2.0 ** -40


K1_TEXT = "the score states -1 (the value the implementation uses internally for 'no voice')"


def row_diff(g, e, cols, rests=False, defer_k1=False):
    """First column in which the observed row g differs from what the score states (e); None if none.
    * a STATED voice (0, a number after a gap, a negative number) must be the voice column;
    * a note WITHOUT voice: the score states nothing; the number chosen must not be one of the voices the
      score states in that array (it is not compared with the implementation's max+1 formula);
    * defer_k1: the stated voice -1 (known finding C05-K1) is not compared here -- compare_table reports it
      only when nothing else is wrong with the table, so that it cannot hide another discrepancy;
    * the dummy spelling letter of a rest is not compared (alter and octave are the documented zeros)."""
    for c in cols:
        if c == "id":
            continue
        if c in F_COLS:
            span = e["_span_" + c.split("_")[1]] if c.startswith("duration") else None
            if not f4_close(g[c], e[c], span):
                return "row %r: %s = %r, the part's map gives %r" % (g["id"], c, g[c], e[c])
        elif c == "voice" and not e["voice_stated"]:
            if g[c] in e["_stated"]:
                return ("row %r: voice = %r for a note without voice, which is a voice the score states for other notes "
                        "of the array (%s)" % (g["id"], g[c], sorted(e["_stated"])))
        elif c == "voice" and e[c] == -1:
            if defer_k1:
                if g[c] != -1 and g[c] in e["_stated"]:
                    return ("row %r: voice = %r, the score states -1 and %r for other notes of the array"
                            % (g["id"], g[c], g[c]))
            elif g[c] != -1:
                return "row %r: voice = %r, %s" % (g["id"], g[c], K1_TEXT)
        elif c == "step" and rests:
            continue
        elif g[c] != e[c]:
            return "row %r: %s = %r, the score states %r" % (g["id"], c, g[c], e[c])
    return None


def table_columns(exp_rows, names, optional=()):
    return [c for c in INT_COLS + STR_COLS + F_COLS
            if exp_rows and c in exp_rows[0] and not (c in optional and c not in names)]


def compare_table(got_rows, exp_rows, names, rests=False, optional=(), final_ids=None):
    """Property check on one table.  Returns (None, matched) or (description of the first discrepancy, None);
    matched[i] is the expected row that explains got_rows[i].  final_ids: the id each expected row must
    carry in the table (default: its own id)."""
    exp_cols = table_columns(exp_rows, names, optional)
    if exp_rows:
        missing = [c for c in exp_cols if c not in names]
        if missing:
            return "columns missing from the array: %s" % missing, None
    else:
        missing = [c for c in ["onset_div", "duration_div", "pitch", "voice", "id"] if c not in names]
        if missing:
            return "columns missing from the (empty) array: %s" % missing, None
    if len(got_rows) != len(exp_rows):
        return "row count %d, expected %d (one row per sounding note / tie chain)" % (len(got_rows), len(exp_rows)), None
    # order: onset, then pitch
    for a, b in zip(got_rows, got_rows[1:]):
        if (a["onset_div"], a["pitch"]) > (b["onset_div"], b["pitch"]):
            return ("rows not ordered by (onset, pitch): %r before %r"
                    % ((a["onset_div"], a["pitch"], a["id"]), (b["onset_div"], b["pitch"], b["id"]))), None
    # multiset comparison; rows are found through their id (several candidates when ids repeat)
    if final_ids is None:
        final_ids = [e["id"] for e in exp_rows]
    by_id = {}
    for e, fid in zip(exp_rows, final_ids):
        by_id.setdefault(fid, []).append(e)
    matched = []
    for g in got_rows:
        cands = by_id.get(g["id"])
        if not cands:
            if g["id"] == "scribbled":
                return ("the returned array shares its data with an array returned EARLIER (the harness wrote 'scribbled' / 7 into "
                        "every array it had been given; this one came back with those values)"), None
            return ("row with id %r does not belong to a sounding note of the score (or appears more often than "
                    "in the score)" % g["id"]), None
        first = None
        for k, e in enumerate(cands):
            m = row_diff(g, e, exp_cols, rests, defer_k1=True)
            if m is None:
                matched.append(cands.pop(k))
                break
            first = first or m
        else:
            return first, None
    # everything else agrees: now the stated voice -1 (C05-K1)
    for g, e in zip(got_rows, matched):
        if "voice" in exp_cols and e["voice_stated"] and e["voice"] == -1 and g["voice"] != -1:
            return "row %r: voice = %r, %s" % (g["id"], g["voice"], K1_TEXT), None
    return None, matched


def call_note_array(part, opts, rests=False):
    """Run the implementation; returns ('ok', array) or ('exc', ExceptionInstance)."""
    try:
        if rests:
            return "ok", part.rest_array(**opts)
        return "ok", part.note_array(**opts)
    except Exception as e:  # classified by the caller
        return "exc", e


def is_declared_multidiv_rejection(spec, opts, exc):
    return (len(spec["qd"]) > 1 and opts.get("include_divs_per_quarter")
            and "multiple divisions is not supported" in str(exc.args[0] if exc.args else ""))


def check_part(spec, opts, rests=False, part=None):
    """Direct oracle for one part and one option set (part: an already built part, e.g. one that has
    been read before and extended since).
    Returns (status, message, rows, maps): status in ok | rejected | map_unavailable | FAIL; rows carry
    under "_exp" the expected row that explains them."""
    if part is None:
        part, _ = build_part(spec)
    exp, maps = expected_rows(spec, part, opts, rests)
    if maps["errors"]:
        return "map_unavailable", str(maps["errors"]), None, maps
    st, res = call_note_array(part, opts, rests)
    if st == "exc":
        if is_declared_multidiv_rejection(spec, opts, res):
            return "rejected", "declared: several divisions with include_divs_per_quarter", None, maps
        return "FAIL", "%s raised %s: %s" % ("rest_array" if rests else "note_array", type(res).__name__, res), None, maps
    rows = array_rows(res)
    scribble(res)            # the caller owns the array: nothing may be shared with a later result
    msg, matched = compare_table(rows, exp, res.dtype.names, rests=rests)
    if msg:
        return "FAIL", msg, rows, maps
    for r, e in zip(rows, matched):
        r["_exp"] = e
        r["_names"] = res.dtype.names
    return "ok", "", rows, maps


def same_failure(res, cls):
    return res[0] == "FAIL" and failure_class(res[1]) == cls


def shrink_spec(spec, still_fails):
    """ddmin over the note list (tie links to removed notes are dropped)."""
    def sub(notes):
        ids = {n["id"] for n in notes}
        out = []
        for n in notes:
            m = dict(n)
            if m.get("tie_next") and m["tie_next"] not in ids:
                m.pop("tie_next")
            out.append(m)
        s = dict(spec)
        s["notes"] = out
        return s

    def fails(notes):
        try:
            return still_fails(sub(notes))
        except Exception:
            return False
    if len(spec["notes"]) < 2:
        return spec
    return sub(core.ddmin(spec["notes"], fails))


# ----------------------------------------------------------------------------
# Coq printers


def c_note(n, oid, oid_of):
    return ("(mkNote %s %s %s %s %s %s %s %s %s %s %s %s %s)" % (
        cz(oid), cstr(n["id"]), cz(n["s"]), cz(n["e"]),
        copt(oid_of.get(("prev", n["id"])), cz), copt(oid_of.get(("next", n["id"])), cz),
        cstr(n.get("step") or "C"), copt(n.get("alter"), cz), cz(n.get("oct") or 0),
        copt(n["voice"], cz), copt(n["staff"], cz), copt(n.get("grace"), cstr), cbool(bool(n.get("rest")))))


def c_notes(spec):
    oid = {n["id"]: 100 + i for i, n in enumerate(spec["notes"])}
    links = {}
    for n in spec["notes"]:
        if n.get("tie_next"):
            links[("next", n["id"])] = oid[n["tie_next"]]
            links[("prev", n["tie_next"])] = oid[n["id"]]
    return "(%s : list note)" % clist([c_note(n, oid[n["id"]], links) for n in spec["notes"]])


def c_opts(o):
    return "(mkOpts %s)" % " ".join(cbool(bool(o.get(k))) for k in OPT_NAMES)


def c_obs(r, names, rests=False, obs_id=None):
    """Observed row as a Coq term.  A row explained by a note WITHOUT voice is printed with voice -1 (the
    oracle has checked that the observed number is not a stated voice; the model side shows such rows as
    -1 too, Model/C05_Ext.norm_voice); the dummy spelling letter of a rest is printed as the model's "0"."""
    def grp(cols, pr):
        if all(c in names for c in cols):
            return "(Some %s)" % pr([r[c] for c in cols])
        return "None"
    e = r.get("_exp")
    voice = r["voice"] if (e is None or e["voice_stated"]) else -1
    return ctuple([
        cz(r["onset_div"]), cz(r["duration_div"]), cz(r["pitch"]), cz(voice), cstr(r["id"] if obs_id is None else obs_id),
        grp(["step", "alter", "octave"], lambda v: ctuple([cstr("0" if rests else v[0]), cz(v[1]), cz(v[2])])),
        grp(["is_grace", "grace_type"], lambda v: ctuple([cbool(v[0] != 0), cstr(v[1])])),
        grp(["ks_fifths", "ks_mode"], lambda v: ctuple([cz(v[0]), cz(v[1])])),
        grp(["ts_beats", "ts_beat_type", "ts_mus_beats"], lambda v: ctuple([cz(x) for x in v])),
        grp(["is_downbeat", "rel_onset_div", "tot_measure_div"], lambda v: ctuple([cz(x) for x in v])),
        grp(["staff"], lambda v: cz(v[0])),
        grp(["divs_pq"], lambda v: cz(v[0])),
    ])


def c_part_case(spec, part, opts, rows, rests):
    """One part-level correspondence case (None when a map is unavailable)."""
    am = all_maps(part, spec, rests)
    if am["errors"]:
        return None
    names = rows[0]["_names"] if rows else ()
    obs = "(%s : list obs)" % clist([c_obs(r, names, rests) for r in rows])
    o7 = dict(opts)
    if rests:
        o7["include_divs_per_quarter"] = False
    return "(%s, %s, %s, %s, %s, %s)" % (c_notes(spec), c_maps(am), cz(spec_divs(spec)), c_opts(o7), cbool(rests), obs)


def c_time_case(spec, part, rows, rests=False):
    heads = spec_heads(spec, rests)
    times = [n["s"] for n, _ in heads] + [n["s"] + d for n, d in heads]
    qm, bm = time_maps(part, times)
    tcs = "(%s : list (Z * Z * (Q * Q * Q * Q)))" % clist([ctuple([cz(r["onset_div"]), cz(r["duration_div"]),
                         ctuple([core.cfloat_q(r[c]) for c in ("onset_quarter", "duration_quarter", "onset_beat", "duration_beat")])])
                 for r in rows])
    return "(%s, (maps_of_q %s %s [] [] []), %s, %s, %s)" % (c_notes(spec), c_qmap(qm), c_qmap(bm), cz(spec_divs(spec)), cbool(rests), tcs)


PART_CHECKER = "fun c => match c with (ns, mp, d, o, rests, impl) => part_case_ok_n ns mp d o rests impl end"
TIME_CHECKER = "fun c => match c with (ns, mp, d, rests, impl) => time_cols_ok_s ns mp d rests impl end"


def c_amap(tab, width):
    ty = "Z * (Z * Z)" if width == 2 else "Z * (Z * Z * Z)"
    return "(%s : list (%s))" % (clist([ctuple([cz(t), ctuple([cz(x) for x in v])]) for t, v in sorted(tab.items())]), ty)


def c_maps(maps):
    return "(maps_of %s %s %s)" % (c_amap(maps.get("ks", {}), 2), c_amap(maps.get("ts", {}), 3), c_amap(maps.get("mp", {}), 2))


def c_qmap(tab):
    return "(%s : list (Z * Q))" % clist([ctuple([cz(t), core.cfloat_q(v)]) for t, v in sorted(tab.items())])


def all_maps(part, spec, rests=False):
    heads = spec_heads(spec, rests)
    return tabulate_maps(part, [n["s"] for n, _ in heads], {"ks", "ts", "mp"})


# ----------------------------------------------------------------------------
# stages


def probe_metrical_position():
    """D13 (owned by C02/C10): metrical_position_map used the removed np.row_stack.  Runtime probe:
    while the map cannot be built for an ordinary two-measure part, include_metrical_position is left
    out of the generated option sets (and that is recorded in the evidence)."""
    spec = {"id": "probe", "qd": [[0, 4]], "ts": [[0, 4, 4]], "ks": [], "measures": [[0, 16], [16, 32]],
            "notes": [dict(id="n0", s=4, e=8, step="C", alter=None, oct=4, voice=1, staff=1)]}
    part, _ = build_part(spec)
    try:
        v = part.metrical_position_map(4)
        return tuple(int(x) for x in v) == (4, 16)
    except Exception:
        return False


def stage_parts(ctx, n_parts, n_random_opts, full_every, mp_ok, coq_per_part):
    import numpy as np
    import partitura.utils.music as M
    rng = ctx.rng
    coq_terms, coq_cases = [], []
    tc_terms, tc_cases = [], []
    seen_combos = set()
    for pi in range(n_parts):
        spec = gen_part_spec(rng, pid="P%d" % pi, allow_sentinel=True)
        full = full_every and (pi % full_every == 0)
        osets = option_sets(rng, OPT_NAMES, n_random_opts, full=full, mp_ok=mp_ok)
        feats = part_features(spec)
        for f in feats:
            ctx.count("part:" + f)
        coq_pick = set(rng.sample(range(len(osets)), min(coq_per_part, len(osets))))
        for oi, opts in enumerate(osets):
            part, _ = build_part(spec)
            status, msg, rows, maps = check_part(spec, opts, part=part)
            ctx.evaluations += 1
            ctx.count("note_array:" + status)
            seen_combos.add(tuple(opts[k] for k in OPT_NAMES))
            if status == "FAIL":
                cls = failure_class(msg)      # the shrunk part fails in the same way (a known finding must not stand in for another failure)
                small = shrink_spec(spec, lambda s: same_failure(check_part(s, opts), cls))
                m2 = check_part(small, opts)[1]
                ctx.violation("Part.note_array(%s): %s" % (fmt_opts(opts), m2 or msg),
                              {"kind": "part", "spec": small, "opts": opts, "rests": False, "message": m2 or msg})
                continue
            if status != "ok":
                continue
            if feats:
                ctx.nontrivial(("part", spec, opts))
            if oi in coq_pick:
                term = c_part_case(spec, part, opts, rows, False)
                if term is None:
                    continue
                coq_terms.append(term)
                coq_cases.append({"kind": "part", "spec": spec, "opts": opts, "rests": False})
                if len(tc_terms) < len(coq_terms) // 3 + 1 and rows:
                    tc_terms.append(c_time_case(spec, part, rows))
                    tc_cases.append({"kind": "part", "spec": spec, "opts": opts, "rests": False})
        if pi < 2:
            ctx.sample({"part_spec": spec, "options_tried": len(osets)})
        # the rest array of the same part
        for ri, opts in enumerate(option_sets(rng, REST_OPT_NAMES, 1, full=bool(full and pi % (2 * full_every) == 0), mp_ok=mp_ok)[: (64 if full else 4)]):
            part, _ = build_part(spec)
            status, msg, rows, maps = check_part(spec, opts, rests=True, part=part)
            ctx.evaluations += 1
            ctx.count("rest_array:" + status)
            if status == "FAIL":
                cls = failure_class(msg)
                small = shrink_spec(spec, lambda s: same_failure(check_part(s, opts, rests=True), cls))
                m2 = check_part(small, opts, rests=True)[1]
                ctx.violation("Part.rest_array(%s): %s" % (fmt_opts(opts), m2 or msg),
                              {"kind": "part", "spec": small, "opts": opts, "rests": True, "message": m2 or msg})
                continue
            if status == "ok" and rows and rng.random() < 0.5:
                term = c_part_case(spec, part, opts, rows, True)
                if term is None:
                    continue
                coq_terms.append(term)
                coq_cases.append({"kind": "part", "spec": spec, "opts": opts, "rests": True})
                ctx.nontrivial(("rest", spec, opts))
                if ri == 0 and len(tc_terms) < len(coq_terms) // 3 + 1:
                    tc_terms.append(c_time_case(spec, part, rows, rests=True))
                    tc_cases.append({"kind": "part", "spec": spec, "opts": opts, "rests": True})
        # dispatch on the input type: the ensure_* functions return what the part's methods return
        if pi % 4 == 0:
            opts = osets[0]
            ropts = {k: v for k, v in opts.items() if k in REST_OPT_NAMES}
            msg = check_dispatch(spec, opts, ropts)
            ctx.evaluations += 1
            ctx.count("dispatch:" + ("ok" if not msg else "FAIL"))
            if msg:
                ctx.violation("dispatch on the input type: " + msg, {"kind": "dispatch", "spec": spec, "opts": opts, "message": msg})
    ctx.count("option_combinations_seen", len(seen_combos))
    ctx.extra["option_combinations_seen"] = len(seen_combos)
    run_coq(ctx, "part", coq_terms, coq_cases, PART_CHECKER,
            "model note_array/rest_array = Part.note_array/Part.rest_array (integer and string columns, row multiset, order; "
            "voices of notes without voice compared as 'not a stated voice')")
    run_coq(ctx, "timecols", tc_terms, tc_cases, TIME_CHECKER,
            "model quarter/beat columns (part maps at onset and onset+duration) = float32 columns within 2^-21")


def same_arrays(a, b):
    import numpy as np
    return a.dtype == b.dtype and a.shape == b.shape and all(np.array_equal(a[n], b[n]) for n in a.dtype.names)


def check_dispatch(spec, opts, ropts):
    """ensure_notearray / ensure_rest_array on a part, a structured array, a one-part list."""
    import numpy as np
    import partitura.utils.music as M
    part, _ = build_part(spec)
    st, a = call_note_array(part, opts)
    if st != "ok":
        return None          # judged by the part-level oracle
    try:
        b = M.ensure_notearray(part, **opts)
        if not same_arrays(a, b):
            return "ensure_notearray(part, %s) differs from part.note_array(...)" % fmt_opts(opts)
        if not same_arrays(M.ensure_notearray(a), a):
            return "ensure_notearray(structured array) does not return the array"
        st, ra = call_note_array(part, ropts, rests=True)
        if st == "ok":
            rb = M.ensure_rest_array(part, **ropts)
            if not same_arrays(ra, rb):
                return "ensure_rest_array(part, %s) differs from part.rest_array(...)" % fmt_opts(ropts)
            if not same_arrays(M.ensure_rest_array(ra), ra):
                return "ensure_rest_array(structured array) does not return the array"
    except Exception as e:
        return "raised %s: %s" % (type(e).__name__, e)
    return None


def part_features(spec):
    f = []
    ns = spec["notes"]
    if any(n.get("tie_next") for n in ns):
        f.append("tie_chain")
        by_id = {n["id"]: n for n in ns}
        for n in ns:
            if n.get("tie_next"):
                m = by_id[n["tie_next"]]
                for s, e in spec["measures"]:
                    if n["s"] < e <= m["s"] or (n["s"] < e < m["e"]):
                        f.append("tie_over_barline")
                        break
                else:
                    continue
                break
    if any(n.get("grace") for n in ns):
        f.append("grace")
    if any(n["voice"] is None for n in ns if not n.get("rest")):
        f.append("missing_voice")
    for what, sel in (("note", [n for n in ns if not n.get("rest")]), ("rest", [n for n in ns if n.get("rest")])):
        vs = [n["voice"] for n in sel]
        st = sorted({v for v in vs if v is not None})
        if 0 in st:
            f.append("%s_in_voice_0" % what)
            if None in vs:
                f.append("%s_in_voice_0_next_to_missing_voice" % what)
            if any(v > 0 for v in st):
                f.append("%s_in_voice_0_next_to_positive_voice" % what)
            if st == [0] and None not in vs:
                f.append("%ss_all_in_voice_0" % what)
        if any(b - a > 1 for a, b in zip(st, st[1:])):
            f.append("%s_voices_with_gap" % what)
        if any(v < 0 for v in st):
            f.append("%s_in_negative_voice" % what)
        if -1 in st:
            f.append("%s_states_voice_-1(C05-K1)" % what)
    if any(n["staff"] == 0 for n in ns):
        f.append("staff_0")
    if any(n["staff"] is None for n in ns if not n.get("rest")):
        f.append("missing_staff")
    if len(spec["qd"]) > 1:
        f.append("division_change")
    if len(spec["ts"]) > 1:
        f.append("ts_change")
    if len(spec["ks"]) > 1:
        f.append("ks_change")
    if spec["measures"] and spec["ts"] and spec["ts"][0][0] == 0:
        b, bt = spec["ts"][0][1:]
        full = spec["qd"][0][1] * 4 * b // bt
        if spec["measures"][0][1] - spec["measures"][0][0] < full:
            f.append("pickup")
    if not [n for n in ns if not n.get("rest")]:
        f.append("no_notes")
    if len(ns) > 20:
        f.append("dense(>20 notes on few onsets)")
    keys = [(n["s"], midi_pitch(n)) for n in ns if not n.get("rest")]
    if len(keys) != len(set(keys)):
        f.append("equal_onset_and_pitch")
    return f


def fmt_opts(o):
    return ", ".join("%s=True" % k for k in sorted(o) if o[k]) or "defaults"


def run_coq(ctx, name, terms, cases, checker, what):
    if not terms:
        ctx.obligation("correspondence: %s on 0 cases" % what, False, "no case generated")
        return
    try:
        failing = ctx.coq_failing(name, "From PV Require Import Lib.Base Model.C05 Model.C05_Ext Model.C05_Inv Model.C05_Disp Model.C05_Voice Model.C05_Hist Model.C05_Sel.\nFrom Coq Require Import QArith.", "", terms, checker, shard=40)
    except RuntimeError as e:
        ctx.obligation("correspondence: %s" % what, False, str(e)[-1500:])
        ctx.violation("correspondence machinery failed for %s: %s" % (name, str(e)[-800:]), {"stage": name}, no_input=True)
        return
    ctx.obligation("correspondence: %s on %d cases" % (what, len(terms)), not failing, failing[:5])
    for i in failing[:5]:
        c = dict(cases[i])
        c["message"] = "Coq model and implementation disagree (%s)" % what
        ctx.violation("model/implementation disagree: %s" % what, c)


def scribble(arr):
    """Write into a returned array (the caller owns it): a later call must not serve this object, or data shared with it."""
    try:
        if arr is not None and len(arr):
            for nm in arr.dtype.names:
                if nm in ("onset_div", "duration_div", "pitch", "voice", "onset_beat", "onset_quarter", "divs_pq"):
                    arr[nm] = 7
                elif nm == "id":
                    arr[nm] = "scribbled"
    except Exception:
        pass


ATTR_VALUES = {"voice": [None, 0, 1, 2, 4], "staff": [None, 0, 1, 2, 3], "step": STEPS, "alter": [None, 0, 1, -1, 2],
               "oct": [1, 2, 3, 4, 5, 6, 7]}


def gen_attr_edits(rng, n=None, allow_id=True):
    """Edits of existing notes through their attributes (note.voice = ..., note.step = ..., note.id = ...)."""
    out = []
    for k in range(n or rng.randint(1, 3)):
        attr = rng.choice(["voice", "voice", "staff", "step", "alter", "oct"] + (["id"] if allow_id else []))
        val = ("y%d_%d" % (k, rng.randrange(1000))) if attr == "id" else rng.choice(ATTR_VALUES[attr])
        out.append({"note": rng.randrange(0, 64), "attr": attr, "value": val})
    return out


def apply_attr_edits(spec, objs, edits):
    """Apply attribute edits to the note objects and return the specification of the part as it is afterwards."""
    notes = [dict(n) for n in spec["notes"]]
    sounding = [n for n in notes if not n.get("rest")]
    for ed in edits:
        if not sounding:
            break
        n = sounding[ed["note"] % len(sounding)]
        o = objs[n["id"]]
        a, v = ed["attr"], ed["value"]
        if a == "id":
            if any(m["id"] == v for m in notes):
                continue
            old = n["id"]
            o.id = v
            for m in notes:
                if m.get("tie_next") == old:
                    m["tie_next"] = v
            n["id"] = v
            objs[v] = objs.pop(old)
        else:
            setattr(o, "octave" if a == "oct" else a, v)
            n[a] = v
    out = dict(spec)
    out["notes"] = notes
    return out


# ---- histories: the array is a table of the score AS IT IS NOW


def check_history(spec, first_ids, opts1, opts2, rests=False, third=None):
    """Build the part with the notes in first_ids only, read its array (opts1), add the remaining notes
    and tie links, read the array again (opts2): each reading must be the table of the score at that moment.
    Returns (None | message, rows of the second reading, the part)."""
    first = sub_spec(spec, first_ids)
    part, objs = build_part(spec, only_ids=first_ids)
    st, msg, rows, maps = check_part(first, opts1, rests, part=part)
    if st == "FAIL":
        return "first reading (before the score was extended): " + msg, None, None, None
    # read the other array and the maps as well (anything that might be cached)
    call_note_array(part, {k: v for k, v in opts1.items() if k in REST_OPT_NAMES}, rests=not rests)
    rest = [n for n in spec["notes"] if n["id"] not in first_ids]
    add_notes(part, objs, rest)
    link_notes(objs, spec["notes"])
    st, msg, rows, maps = check_part(spec, opts2, rests, part=part)
    if st == "FAIL":
        return "second reading (after %d more notes and their ties were added): %s" % (len(rest), msg), None, None, None
    if st != "ok":
        return None, None, None, None
    if not third:
        return None, rows, part, spec
    # third phase: the notes are edited through their attributes, a key signature is added, the divisions are changed
    spec3 = apply_attr_edits(spec, objs, third.get("attrs", []))
    if third.get("ks"):
        import partitura.score as S
        t, f, m = third["ks"]
        if all(x[0] != t for x in spec3["ks"]):
            part.add(S.KeySignature(f, m), t)
            spec3["ks"] = sorted(spec3["ks"] + [[t, f, m]])
    if third.get("qd") and len(spec3["qd"]) == 1:
        part.set_quarter_duration(0, third["qd"])
        spec3["qd"] = [[0, third["qd"]]]
    st, msg, rows3, maps = check_part(spec3, opts2, rests, part=part)
    if st == "FAIL":
        return ("third reading (after the notes were edited through their attributes %s%s%s): %s"
                % (json.dumps(third.get("attrs", [])), ", a key signature was added" if third.get("ks") else "",
                   ", the divisions were set to %s" % third["qd"] if third.get("qd") else "", msg)), None, None, None
    if st != "ok":
        return None, rows, part, spec
    return None, rows3, part, spec3


def stage_history(ctx, n, mp_ok):
    rng = ctx.rng
    terms, cases = [], []
    for hi in range(n):
        spec = gen_part_spec(rng, pid="H%d" % hi, allow_qd_change=False)
        if len(spec["notes"]) < 2:
            continue
        ids = [x["id"] for x in spec["notes"]]
        first_ids = sorted(rng.sample(ids, rng.randint(1, len(ids) - 1)))
        o = option_sets(rng, OPT_NAMES, 2, mp_ok=mp_ok)
        opts1 = rng.choice(o)
        opts2 = opts1 if rng.random() < 0.5 else rng.choice(o)     # the same call twice: what a cache would serve
        rests = rng.random() < 0.25
        if rests:
            opts1 = {k: v for k, v in opts1.items() if k in REST_OPT_NAMES}
            opts2 = {k: v for k, v in opts2.items() if k in REST_OPT_NAMES}
        third = None
        if rng.random() < 0.7:
            third = {"attrs": gen_attr_edits(rng)}
            free = [m[0] for m in spec["measures"] if all(k[0] != m[0] for k in spec["ks"])]
            if free and rng.random() < 0.45:
                third["ks"] = [rng.choice(free), rng.randint(-7, 7), rng.choice(["major", "minor", None])]
                if rng.random() < 0.7:           # the column the new signature shows in, asked for before and after
                    opts1 = dict(opts1, include_key_signature=True)
                    opts2 = dict(opts2, include_key_signature=True)
            if rng.random() < 0.3:
                third["qd"] = rng.choice([d for d in (1, 2, 3, 4, 6, 8, 12) if d != spec_divs(spec)])
            ctx.count("history:third=" + "+".join(sorted(third)))
        msg, rows, part, spec_now = check_history(spec, first_ids, opts1, opts2, rests, third)
        ctx.evaluations += 3 if third else 2
        ctx.count("history:" + ("FAIL" if msg else "ok"))
        if msg:
            ctx.violation("%s read, extended, read again, edited, read again: %s" % ("rest_array" if rests else "note_array", msg),
                          {"kind": "history", "spec": spec, "first_ids": first_ids, "opts1": opts1, "opts2": opts2, "rests": rests,
                           "third": third, "message": msg})
            continue
        ctx.nontrivial(("history", spec, first_ids, opts1, opts2, rests, third))
        if rows is not None and (rows or not rests) and len(terms) < n // 2 + 1:
            term = c_part_case(spec_now, part, opts2, rows, rests)
            if term is not None:
                terms.append(term)
                cases.append({"kind": "history", "spec": spec, "first_ids": first_ids, "opts1": opts1, "opts2": opts2, "rests": rests, "third": third})
    run_coq(ctx, "history", terms, cases, PART_CHECKER,
            "model note_array/rest_array of the final score = last reading of a part that was read, extended, read again, edited through "
            "the attributes of its notes / a new key signature / new divisions and read again")


# ---- scores


ENTRIES_FLAT = ["score", "score", "ensure_score", "ensure_list", "partgroup", "ensure_partgroup", "from_list"]
ENTRIES_NESTED = ["from_list", "from_list", "partgroup", "ensure_partgroup", "score_of_groups"]


def call_score_array(specs, parts, shape, via, uniq, opts):
    """Run one of the entry points on the parts arranged as `shape`.  Returns (array, effective shape)."""
    import partitura.utils.music as M
    import partitura.score as S
    members = build_members(shape, parts)
    kw = dict(unique_id_per_part=uniq, **opts)
    if via == "score":
        return S.Score(list(parts)).note_array(**kw), list(range(len(parts)))
    if via == "ensure_score":
        return M.ensure_notearray(S.Score(list(parts)), **kw), list(range(len(parts)))
    if via == "score_of_groups":          # a Score holds the flat list of the parts of its groups
        return S.Score(members).note_array(**kw), list(range(len(parts)))
    if via == "ensure_list":
        return M.ensure_notearray(list(parts), **kw), list(range(len(parts)))
    if via in ("partgroup", "ensure_partgroup"):
        g = S.PartGroup(group_name="all")
        g.children = members
        return (g.note_array(**kw) if via == "partgroup" else M.ensure_notearray(g, **kw)), shape
    return M.note_array_from_part_list(members, **kw), shape


def expected_score_rows(specs, parts, opts):
    """Per part: its expected table rescaled to the lcm of the divisions of the parts that have rows."""
    per = []
    errs = {}
    o = dict(opts)
    o["include_divs_per_quarter"] = True   # the lcm rescaling needs every part's divisions
    for spec, part in zip(specs, parts):
        rows, maps = expected_rows(spec, part, o)
        errs.update(maps["errors"])
        per.append(rows)
    ds = [spec_divs(s) for s, r in zip(specs, per) if r]
    L = 1
    for d in ds:
        L = L * d // math.gcd(L, d)
    out = []
    for i, (spec, rows) in enumerate(zip(specs, per)):
        d = spec_divs(spec)
        new = []
        for r in rows:
            r = dict(r)
            r["onset_div"] = r["onset_div"] * L // d
            r["duration_div"] = r["duration_div"] * L // d
            r["divs_pq"] = L
            r["_part"] = i
            new.append(r)
        out.append(new)
    return out, L, errs


def content_key(r, cols):
    return tuple(r[c] for c in cols if c not in ("id", "voice") and c not in F_COLS)


def find_prefixes(got_rows, per_part, cols):
    """unique_id_per_part: the property asks for part-prefixed ids, not for a format.  Find for every part
    with rows a string p such that its rows appear with the ids p + id (same p for the whole part).
    Returns {part: prefix} or None."""
    from collections import Counter
    pool = Counter((g["id"], content_key(g, cols)) for g in got_rows)
    order = [i for i, rows in enumerate(per_part) if rows]
    chosen = {}

    def rec(k):
        if k == len(order):
            return True
        i = order[k]
        e0 = per_part[i][0]
        k0 = content_key(e0, cols)
        cands = sorted({gid[: len(gid) - len(e0["id"])] for (gid, ck), n in pool.items()
                        if n > 0 and ck == k0 and gid.endswith(e0["id"])})
        for p in cands:
            need = Counter((p + e["id"], content_key(e, cols)) for e in per_part[i])
            if all(pool[x] >= n for x, n in need.items()):
                pool.subtract(need)
                chosen[i] = p
                if rec(k + 1):
                    return True
                pool.update(need)
                del chosen[i]
        return False
    return dict(chosen) if rec(0) else None


def check_score(specs, opts, uniq, via="score", shape=None):
    """Direct oracle for the array of a score / list / (nested) part group.
    Returns (status, message, rows, names, effective shape)."""
    sc, parts = build_score(specs)
    if shape is None:
        shape = list(range(len(specs)))
    per_part, L, errs = expected_score_rows(specs, parts, opts)
    if errs:
        return "map_unavailable", str(errs), None, None, None
    try:
        arr, eff = call_score_array(specs, parts, shape, via, uniq, opts)
    except Exception as e:
        return "FAIL", "%s raised %s: %s" % (via, type(e).__name__, e), None, None, None
    return judge_score_array(arr, specs, per_part, opts, uniq, eff)


def judge_score_array(arr, specs, per_part, opts, uniq, eff):
    """The array of a container against the tables of the parts it holds (per_part: expected_score_rows of them, in
    the order of the leaves of the arrangement eff).  Returns (status, message, rows, names, eff)."""
    rows = array_rows(arr)
    names = arr.dtype.names
    scribble(arr)            # the caller owns the array: nothing may be shared with a later result
    exp = [r for rows_i in per_part for r in rows_i]
    # the divs_pq column is only promised when asked for (the implementation always has it)
    optional = () if opts.get("include_divs_per_quarter") else ("divs_pq",)
    cols = table_columns(exp, names, optional)
    canon = canonical_prefixes(eff, uniq)
    prefixes = {i: "" for i in range(len(specs))}
    if uniq and exp and len(rows) == len(exp) and not [c for c in cols if c not in names]:
        found = find_prefixes(rows, per_part, cols)
        if found is None:
            found = canon          # no consistent prefixing explains the ids: report against the usual scheme
        prefixes.update(found)
    final_ids = [prefixes[e["_part"]] + e["id"] for e in exp]
    msg, matched = compare_table(rows, exp, names, optional=optional, final_ids=final_ids)
    if msg:
        return "FAIL", msg, rows, names, eff
    if uniq and len(specs) > 1:
        with_rows = [i for i, r in enumerate(per_part) if r]
        for a in with_rows:
            for b in with_rows:
                if a < b and (prefixes[a].startswith(prefixes[b]) or prefixes[b].startswith(prefixes[a])):
                    return "FAIL", ("unique_id_per_part: the ids of part %d and part %d are prefixed with %r and %r, which does not "
                                    "keep the parts apart" % (a, b, prefixes[a], prefixes[b])), rows, names, eff
    for r, e in zip(rows, matched):
        r["_exp"] = e
        r["_canon_id"] = canon[e["_part"]] + e["_oid"]
    return "ok", "", rows, names, eff


def c_itree(shape, pterms):
    return clist([pterms[x] if isinstance(x, int) else "(IGroup %s)" % c_itree(x, pterms) for x in shape])


SCORE_CHECKER = "fun c => match c with (cont, members, uniq, o, impl) => dispatch_case_ok cont members uniq o impl end"
CONTAINER = {"score": "CScore", "ensure_score": "CScore", "score_of_groups": "CScore", "ensure_list": "CList", "from_list": "CList",
             "partgroup": "CGroup", "ensure_partgroup": "CGroup"}


def c_score_case(specs, opts, uniq, rows, names, shape, via):
    """The members as they were handed over (nested shape) and the kind of container: the model decides what
    note_array_from_part_list finally sees (a Score flattens its groups)."""
    sc, parts = build_score(specs)
    pterms = []
    for spec, part in zip(specs, parts):
        am = all_maps(part, spec)
        if am["errors"]:
            return None
        pterms.append("(ILeaf %s %s %s)" % (c_notes(spec), c_maps(am), cz(spec_divs(spec))))
    o = dict(opts)
    o["include_divs_per_quarter"] = "divs_pq" in names
    obs = "(%s : list obs)" % clist([c_obs(r, names, obs_id=r["_canon_id"]) for r in rows])
    if via in ("score", "ensure_score"):
        shape = list(range(len(specs)))          # these entry points are handed the plain list of parts
    return "(%s, (%s : list itree), %s, %s, %s)" % (CONTAINER[via], c_itree(shape, pterms), cbool(uniq), c_opts(o), obs)


def stage_scores(ctx, n_scores, mp_ok, full_every):
    rng = ctx.rng
    names7 = OPT_NAMES
    terms, cases = [], []
    for si in range(n_scores):
        specs = gen_score_specs(rng)
        ds = [spec_divs(s) for s in specs]
        nonempty = [spec_divs(s) for s in specs if [n for n in s["notes"] if not n.get("rest")]]
        L = 1
        for d in nonempty:
            L = L * d // math.gcd(L, d)
        ctx.count("score:parts=%s" % (len(specs) if len(specs) < 10 else "10+"))
        if nonempty and L > max(nonempty):
            ctx.count("score:lcm_exceeds_all")
        empties = [i for i, s in enumerate(specs) if not [n for n in s["notes"] if not n.get("rest")]]
        if empties and len(nonempty) >= 1:
            ctx.count("score:has_part_without_notes")
            if empties[0] < len(specs) - 1:
                ctx.count("score:part_without_notes_not_last")
        if max([len(s["notes"]) for s in specs] + [0]) > 20:
            ctx.count("score:has_dense_part")
        full = full_every and si % full_every == 0
        osets = option_sets(rng, names7, 2, full=full, mp_ok=mp_ok)
        if not full:
            osets = osets[:5]
        for oi, opts in enumerate(osets):
            uniq = rng.random() < 0.6 if not full else (oi % 2 == 0)
            shape = gen_shape(rng, len(specs))
            flat = shape_is_flat(shape)
            via = rng.choice(ENTRIES_FLAT if flat else ENTRIES_NESTED)
            ctx.count("score:via=" + via + ("" if flat else "(nested)"))
            status, msg, rows, names, eff = check_score(specs, opts, uniq, via, shape)
            ctx.evaluations += 1
            ctx.count("score_note_array:" + status)
            if status == "FAIL":
                small = shrink_score(specs, lambda ss: check_score(ss, opts, uniq, via, shape)[0] == "FAIL")
                m2 = check_score(small, opts, uniq, via, shape)[1]
                ctx.violation("note array of %d parts (unique_id_per_part=%s, %s) [%s, arrangement %s]: %s"
                              % (len(specs), uniq, fmt_opts(opts), via, shape, m2 or msg),
                              {"kind": "score", "specs": small, "opts": opts, "uniq": uniq, "via": via, "shape": shape, "message": m2 or msg})
                continue
            if status != "ok":
                continue
            if len(set(ds)) > 1 or empties or not flat:
                ctx.nontrivial(("score", specs, opts, uniq, shape))
            if oi < 2:
                term = c_score_case(specs, opts, uniq, rows, names, shape, via)
                if term is None:
                    continue
                terms.append(term)
                cases.append({"kind": "score", "specs": specs, "opts": opts, "uniq": uniq, "via": via, "shape": shape})
        if si < 1:
            ctx.sample({"score_specs": specs})
        # rest arrays of a part list: union of the part rest arrays
        if si % 3 == 0:
            uq = rng.random() < 0.5
            rvia = rng.choice(["from_list", "ensure_list", "partgroup", "ensure_partgroup"])
            msg = check_rest_list(specs, uq, rvia)
            ctx.evaluations += 1
            ctx.count("rest_array_from_part_list:" + ("ok" if not msg else "FAIL"))
            if msg:
                ctx.violation("rest array of a list of parts [%s]: %s" % (rvia, msg),
                              {"kind": "restlist", "specs": specs, "uniq": uq, "via": rvia, "message": msg})
    run_coq(ctx, "score", terms, cases, SCORE_CHECKER,
            "model ensure_notearray_m (container kind: a Score flattens its groups, a list / PartGroup keeps the nesting) + "
            "tree_array (nested part groups; lcm rescaling, multipliers per member, two-pass sort; id prefixes compared "
            "after the oracle has found them consistent per part and prefix-free) = Score.note_array / PartGroup.note_array / "
            "ensure_notearray / note_array_from_part_list")


def check_rest_list(specs, uniq, via="from_list"):
    """The rest array of a list of parts is the union of the part rest arrays (ids: the part's id behind a
    per-part prefix when unique_id_per_part; staff, voice and quarter times as in the part arrays)."""
    import partitura.utils.music as M
    import partitura.score as S
    sc, parts = build_score(specs)
    try:
        if via == "ensure_list":
            arr = M.ensure_rest_array(list(parts), unique_id_per_part=uniq, include_staff=True)
        elif via in ("partgroup", "ensure_partgroup"):
            g = S.PartGroup(group_name="g")
            g.children = list(parts)
            arr = (g.rest_array(unique_id_per_part=uniq, include_staff=True) if via == "partgroup"
                   else M.ensure_rest_array(g, unique_id_per_part=uniq, include_staff=True))
        else:
            arr = M.rest_array_from_part_list(parts, unique_id_per_part=uniq, include_staff=True)
    except Exception as e:
        return "raised %s: %s" % (type(e).__name__, e)
    got = array_rows(arr)
    per = []
    for i, (spec, part) in enumerate(zip(specs, parts)):
        rows, _ = expected_rows(spec, part, {"include_staff": True}, rests=True)
        for r in rows:
            r["_part"] = i
        per.append(rows)
    exp = [r for rows in per for r in rows]
    if len(got) != len(exp):
        return "%d rows, the parts have %d rests" % (len(got), len(exp))
    cols = ["staff", "id"]
    prefixes = {i: "" for i in range(len(specs))}
    if uniq and exp:
        found = find_prefixes(got, per, cols)
        if found is None:
            found = {i: "P%02d_" % i for i in range(len(specs))}
        prefixes.update(found)
    by_id = {}
    for e in exp:
        by_id.setdefault(prefixes[e["_part"]] + e["id"], []).append(e)
    for g in got:
        cands = by_id.get(g["id"])
        if not cands:
            return "row with id %r is not a rest of one of the parts (or appears too often)" % g["id"]
        first = None
        for k, e in enumerate(cands):
            m = row_diff(g, e, ["staff", "voice", "onset_quarter", "duration_quarter"], rests=True)
            if m is None:
                cands.pop(k)
                break
            first = first or m
        else:
            return first
    if uniq and len(specs) > 1:
        wr = [i for i, r in enumerate(per) if r]
        for a in wr:
            for b in wr:
                if a < b and (prefixes[a].startswith(prefixes[b]) or prefixes[b].startswith(prefixes[a])):
                    return "unique_id_per_part: prefixes %r and %r do not keep parts %d and %d apart" % (prefixes[a], prefixes[b], a, b)
    return None


def shrink_score(specs, still_fails):
    specs = [dict(s) for s in specs]
    for i in range(len(specs)):
        def f(s, i=i):
            ss = list(specs)
            ss[i] = s
            return still_fails(ss)
        try:
            specs[i] = shrink_spec(specs[i], f)
        except Exception:
            pass
    return specs


# ---- sessions: state carried between calls.  A container (Score, list, PartGroup) is kept, changed through the public
#      API (a part edited in place, score[i] = part, members[i] = part, append, score = unfold_part_*(score)) and read
#      again and again through every entry point; each reading is judged against what the container holds AT THAT MOMENT.


SESSION_KINDS = ["score"] * 5 + ["score_of_groups"] * 2 + ["list"] * 2 + ["partgroup"] * 2
SCORE_READS = ["score", "score", "score", "ensure_score", "ensure_score", "from_list", "ensure_list", "partgroup", "ensure_partgroup"]


def spec_of_part(part):
    """The sounding notes of a part read off the part itself (iter_all and the attributes of the notes; not the code under
    test): the specification of a part the harness did not build (the parts of an unfolded score).
    Returns (spec, {id: object}) or (None, reason)."""
    import partitura.score as S
    notes = [o for o in part.iter_all(S.GenericNote, include_subclasses=True) if not isinstance(o, S.Rest)]
    ids = [o.id for o in notes]
    if len(set(ids)) != len(ids) or any(not isinstance(i, str) for i in ids):
        return None, "note ids not unique"
    inside = {id(o) for o in notes}
    out = []
    for o in notes:
        for l in (o.tie_next, o.tie_prev):
            if l is not None and id(l) not in inside:
                return None, "tie link leaving the part"
        if (o.tie_next is not None and o.tie_next.tie_prev is not o) or (o.tie_prev is not None and o.tie_prev.tie_next is not o):
            return None, "tie links not mutual"
        if o.start is None or o.end is None:
            return None, "note without time"
        n = dict(id=o.id, s=int(o.start.t), e=int(o.end.t), step=o.step, alter=(None if o.alter is None else int(o.alter)),
                 oct=int(o.octave), voice=(None if o.voice is None else int(o.voice)), staff=(None if o.staff is None else int(o.staff)))
        if isinstance(o, S.GraceNote):
            n["grace"] = o.grace_type
        if o.tie_next is not None:
            n["tie_next"] = o.tie_next.id
        out.append(n)
    qd = [[int(t), int(q)] for t, q in part.quarter_durations()]
    if len({q for _, q in qd}) != 1:
        return None, "several divisions"
    spec = {"id": part.id, "qd": qd[:1], "ts": [], "ks": [], "measures": [], "notes": out,
            "total": max([n["e"] for n in out] + [0]), "read_off": True}
    return spec, {o.id: o for o in notes}


def untied_notes(spec):
    targets = {n["tie_next"] for n in spec["notes"] if n.get("tie_next")}
    return [n for n in spec["notes"] if not n.get("rest") and not n.get("tie_next") and n["id"] not in targets]


def renumber_shape(shape):
    """(leaves in order, the same arrangement with the leaves numbered 0, 1, ... in that order)."""
    leaves = shape_leaves(shape)
    pos = {o: i for i, o in enumerate(leaves)}

    def go(sh):
        return [pos[x] if isinstance(x, int) else go(x) for x in sh]
    return leaves, go(shape)


def gen_session(rng):
    """A container, 1-3 changes through the public API, readings before and after every change."""
    for _ in range(6):
        specs = gen_score_specs(rng)[:6]
        if len(specs) >= 3:
            break
    n_spare = 0 if len(specs) < 2 else (1 if len(specs) < 4 else rng.randint(1, 2))
    spares, specs = specs[len(specs) - n_spare:], specs[:len(specs) - n_spare]
    kind = rng.choice(SESSION_KINDS)
    is_score = kind.startswith("score")
    shape = list(range(len(specs))) if kind == "score" else gen_shape(rng, len(specs))
    # repeats: what unfold_part_maximal plays twice
    # (the same measures in every part: the parts of a score share the metrical layout also after the unfolding)
    nm = min(len(sp["measures"]) for sp in specs + spares)
    if is_score and nm >= 2 and rng.random() < 0.7:
        i = rng.randrange(0, nm - 1)
        j = rng.randrange(i, nm)
        for sp in specs + spares:
            sp["repeat"] = [sp["measures"][i][0], sp["measures"][j][1]]
    osets = option_sets(rng, OPT_NAMES, 2)
    o_main, u_main = rng.choice(osets), rng.random() < 0.6

    def read():
        if is_score:
            via = rng.choice(SCORE_READS)
        elif kind == "list":
            via = rng.choice(["from_list", "from_list", "ensure_list"])
        else:
            via = rng.choice(["partgroup", "partgroup", "ensure_partgroup", "from_list"])
        same = rng.random() < 0.6          # the same call again: what a cache would serve
        return {"do": "read", "via": via, "uniq": u_main if same else (rng.random() < 0.5),
                "opts": dict(o_main if same else rng.choice(osets))}

    # a part that is completed later: it starts with some of its notes
    pending = {}
    for k, sp in enumerate(specs):
        if len(sp["notes"]) >= 2 and len(sp["notes"]) <= 20 and rng.random() < 0.5:
            ids = [x["id"] for x in sp["notes"]]
            first = set(rng.sample(ids, rng.randint(1, len(ids) - 1)))
            full = sp["notes"]
            specs[k] = sub_spec(sp, first)
            by = {n["id"]: n for n in full}
            pending[k] = {"add": [n for n in full if n["id"] not in first],
                          "ties": [[n["id"], n["tie_next"]] for n in full if n.get("tie_next") and
                                   (n["id"] not in first or n["tie_next"] not in first)]}
    steps = [read()]
    n_leaves = len(specs)
    cur_shape = list(shape)
    unfolded = False
    fresh = [0]
    for _ in range(rng.randint(1, 3)):
        r = rng.random()
        if pending and not unfolded and r < 0.3:
            k = sorted(pending)[0]
            # part k is still the k-th leaf (completions are dropped as soon as a member is replaced or appended)
            steps.append(dict(pending.pop(k), do="edit", leaf=k))
        elif r < 0.45:
            k = rng.randrange(n_leaves)
            if rng.random() < 0.5:
                fresh[0] += 1
                s0 = rng.randrange(0, 8)
                steps.append({"do": "edit", "leaf": k, "ties": [],
                              "add": [dict(id="x%d" % fresh[0], s=s0, e=s0 + rng.randint(1, 4), step=rng.choice(STEPS), alter=None,
                                           oct=rng.randint(2, 6), voice=rng.choice([None, 0, 1, 2]), staff=rng.choice([None, 1, 2]))]})
            elif rng.random() < 0.5:
                steps.append({"do": "edit", "leaf": k, "add": [], "ties": [], "remove_untied": rng.randrange(0, 8)})
            else:
                steps.append({"do": "edit", "leaf": k, "add": [], "ties": [], "attrs": gen_attr_edits(rng)})
        elif is_score and r < 0.75 and spares and not unfolded:     # (a folded part next to unfolded ones: another layout)
            i = rng.randrange(n_leaves)
            steps.append({"do": "setitem", "index": i, "spec": spares.pop()})
            pending.pop(i, None)
        elif is_score:
            steps.append({"do": "unfold", "how": rng.choice(["maximal", "maximal", "minimal"])})
            unfolded = True
            pending.clear()
        elif r < 0.75 and spares:
            if rng.random() < 0.6:
                i = rng.randrange(len(cur_shape))
                steps.append({"do": "setmember", "index": i, "spec": spares.pop()})
                n_leaves += 1 - len(shape_leaves([cur_shape[i]]))
                cur_shape = cur_shape[:i] + [-1] + cur_shape[i + 1:]          # bookkeeping of positions only
            else:
                steps.append({"do": "append", "spec": spares.pop()})
                cur_shape = cur_shape + [-1]
                n_leaves += 1
            pending.clear()       # positions moved: the later completion would name another leaf
        else:
            k = rng.randrange(n_leaves)
            steps.append({"do": "edit", "leaf": k, "add": [], "ties": [], "remove_untied": rng.randrange(0, 8)})
        for _ in range(rng.randint(1, 2)):
            steps.append(read())
    return {"kind": "session", "container": kind, "specs": specs, "shape": shape, "steps": steps}


def c_leaf(spec, part):
    am = all_maps(part, spec)
    if am["errors"]:
        return None
    return "(ILeaf %s %s %s)" % (c_notes(spec), c_maps(am), cz(spec_divs(spec)))


def c_rtree(shape):
    return "(%s : list rtree)" % clist(["(RLeaf %s)" % cz(x) if isinstance(x, int) else "(RGroup %s)" % c_rtree(x) for x in shape])


SESSION_CHECKER = "fun c => match c with (st, members, steps) => session_case_ok st members steps end"


def run_session(sess, want_term=False):
    """Execute a session on the implementation.  Returns a dict: fail = None | (index of the step, message),
    term = Coq term of the session (when asked for and available), reads, notes (what happened)."""
    import partitura.score as S
    import partitura.utils.music as M
    kind = sess["container"]
    is_score = kind.startswith("score")
    pobjs = []
    info = {"fail": None, "term": None, "reads": 0, "notes": [], "grew": False}
    hsteps = []
    term_ok = [want_term]

    def new_pobj(spec, part=None, objs=None):
        if part is None:
            part, objs = build_part(spec)
        pobjs.append({"spec": spec, "part": part, "objs": objs})
        return len(pobjs) - 1

    def put_term(o):
        if term_ok[0]:
            t = c_leaf(pobjs[o]["spec"], pobjs[o]["part"])
            if t is None:
                term_ok[0] = False
            return t

    store0 = []
    for sp in sess["specs"]:
        o = new_pobj(sp)
        store0.append("(%s, %s)" % (cz(o), put_term(o)))
    shape = json.loads(json.dumps(sess["shape"]))
    members = build_members(shape, [po["part"] for po in pobjs])
    score = group = None
    flat = None
    if is_score:
        score = S.Score(list(members) if kind == "score_of_groups" else [po["part"] for po in pobjs])
        flat = shape_leaves(shape)
    elif kind == "partgroup":
        group = S.PartGroup(group_name="all")
        group.children = members

    for si, st in enumerate(sess["steps"]):
        do = st["do"]
        leaves = flat if is_score else shape_leaves(shape)
        if do == "read":
            via, uniq, opts = st["via"], st["uniq"], st["opts"]
            if is_score:
                eff = list(range(len(leaves)))
            else:
                _, eff = renumber_shape(shape)
            cur_specs = [pobjs[o]["spec"] for o in leaves]
            cur_parts = [pobjs[o]["part"] for o in leaves]
            if any(sp["notes"] and (p.first_point is None or p.first_point is p.last_point) for sp, p in zip(cur_specs, cur_parts)):
                # a timeline with ONE time point (a lone grace note, no measures): the part's quarter / beat maps are 0 everywhere
                # (the maps are C02's subject and this check's reference), so its rows are ordered by a beat that says nothing
                info["notes"].append("degenerate_timeline")
                continue
            per_part, L, errs = expected_score_rows(cur_specs, cur_parts, opts)
            if errs:
                info["notes"].append("map_unavailable")
                continue
            kw = dict(unique_id_per_part=uniq, **opts)
            try:
                if is_score:
                    if via == "score":
                        arr = score.note_array(**kw)
                    elif via == "ensure_score":
                        arr = M.ensure_notearray(score, **kw)
                    elif via == "from_list":
                        arr = M.note_array_from_part_list(list(cur_parts), **kw)
                    elif via == "ensure_list":
                        arr = M.ensure_notearray(list(cur_parts), **kw)
                    else:
                        g = S.PartGroup(group_name="all")
                        g.children = list(cur_parts)
                        arr = g.note_array(**kw) if via == "partgroup" else M.ensure_notearray(g, **kw)
                elif via == "from_list":
                    arr = M.note_array_from_part_list(members, **kw)
                elif via == "ensure_list":
                    arr = M.ensure_notearray(members, **kw) if shape_is_flat(shape) else M.note_array_from_part_list(members, **kw)
                elif via == "partgroup":
                    arr = group.note_array(**kw)
                else:
                    arr = M.ensure_notearray(group, **kw)
            except Exception as e:
                info["fail"] = (si, "%s raised %s: %s" % (via, type(e).__name__, e))
                return info
            status, msg, rows, names, _ = judge_score_array(arr, cur_specs, per_part, opts, uniq, eff)
            info["reads"] += 1
            if status == "FAIL":
                info["got"] = [{k: v for k, v in r.items() if not k.startswith("_")} for r in (rows or [])]
                info["expected"] = [{k: v for k, v in r.items() if not k.startswith("_")} for rr in per_part for r in rr]
                what = {"score": "Score.note_array()", "ensure_score": "ensure_notearray(score)"}.get(via, via) if is_score else via
                info["fail"] = (si, "reading %d (step %d, %s, unique_id_per_part=%s, %s) is not the table of the parts the %s holds at that "
                                "moment (%s): %s" % (info["reads"], si, what, uniq, fmt_opts(opts),
                                                      "score" if is_score else kind, [s["id"] for s in cur_specs], msg))
                return info
            if term_ok[0]:
                o7 = dict(opts)
                o7["include_divs_per_quarter"] = "divs_pq" in names
                obs = "(%s : list obs)" % clist([c_obs(r, names, obs_id=r["_canon_id"]) for r in rows])
                if is_score:
                    view = "VScore" if via in ("score", "ensure_score") else "(VParts %s)" % CONTAINER[via]
                else:
                    view = "(VMembers %s)" % ("CList" if (via in ("from_list", "ensure_list")) else "CGroup")
                hsteps.append("(HRead %s %s %s %s)" % (view, cbool(uniq), c_opts(o7), obs))
        elif do == "edit":
            if not leaves:
                continue
            o = leaves[st["leaf"] % len(leaves)]
            po = pobjs[o]
            spec = dict(po["spec"])
            notes = [dict(n) for n in spec["notes"]]
            have = {n["id"] for n in notes}
            if "remove_untied" in st:
                cand = untied_notes(spec)
                if not cand:
                    continue
                victim = cand[st["remove_untied"] % len(cand)]
                po["part"].remove(po["objs"][victim["id"]])
                notes = [n for n in notes if n["id"] != victim["id"]]
            add = [dict(n) for n in st.get("add", []) if n["id"] not in have]
            if add:
                add_notes(po["part"], po["objs"], add)
                notes += add
                have |= {n["id"] for n in add}
                by = {n["id"]: n for n in notes}
                for a, b in st.get("ties", []):
                    if a in have and b in have:
                        by[a]["tie_next"] = b
                for n in notes:
                    if n.get("tie_next") and n["tie_next"] not in have:
                        n.pop("tie_next")
                link_notes(po["objs"], notes)
            spec["notes"] = notes
            if st.get("attrs"):
                spec = apply_attr_edits(spec, po["objs"], st["attrs"])
            po["spec"] = spec
            hsteps.append("(HOp (OPut %s %s))" % (cz(o), put_term(o)))
        elif do in ("setitem", "setmember", "append"):
            o = new_pobj(st["spec"])
            hsteps.append("(HOp (OPut %s %s))" % (cz(o), put_term(o)))
            if do == "setitem":
                i = st["index"] % len(flat)
                score[i] = pobjs[o]["part"]
                flat = flat[:i] + [o] + flat[i + 1:]
                hsteps.append("(HOp (OSetPart %d %s))" % (i, cz(o)))
            elif do == "setmember":
                i = st["index"] % len(members)
                members[i] = pobjs[o]["part"]
                shape[i] = o
                hsteps.append("(HOp (OSetMember %d %s))" % (i, cz(o)))
            else:
                members.append(pobjs[o]["part"])
                shape.append(o)
                hsteps.append("(HOp (OAppend %s))" % cz(o))
        elif do == "unfold":
            try:
                new_score = (S.unfold_part_maximal if st["how"] == "maximal" else S.unfold_part_minimal)(score)
            except Exception as e:       # unfolding itself is C09's subject
                info["notes"].append("unfold_raised:%s" % type(e).__name__)
                break
            new_flat = []
            bad = None
            for p in list(new_score):
                sp, objs = spec_of_part(p)
                if sp is None:
                    bad = objs
                    break
                new_flat.append((sp, p, objs))
            if bad:
                info["notes"].append("unfold_unreadable:" + bad)
                break
            before = sum(len(spec_heads(pobjs[o]["spec"])) for o in flat)
            score = new_score
            flat = []
            for sp, p, objs in new_flat:
                o = new_pobj(sp, p, objs)
                flat.append(o)
                hsteps.append("(HOp (OPut %s %s))" % (cz(o), put_term(o)))
            hsteps.append("(HOp (OUnfold %s))" % clist([cz(o) for o in flat]))
            if sum(len(spec_heads(pobjs[o]["spec"])) for o in flat) != before:
                info["grew"] = True
            info["notes"].append("unfolded")
    if want_term and term_ok[0]:
        info["term"] = "((%s : list (Z * itree)), %s, (%s : list hstep))" % (clist(store0), c_rtree(sess["shape"]), clist(hsteps))
    return info


def shrink_session(sess):
    """Cut the session after the failing reading, drop every step and shrink every note list that is not needed."""
    res = run_session(sess)
    if not res["fail"]:
        return sess
    cls = failure_class(res["fail"][1].split("): ", 1)[-1])

    def fails(x):
        try:
            r = run_session(x)
        except Exception:
            return False
        return bool(r["fail"]) and failure_class(r["fail"][1].split("): ", 1)[-1]) == cls
    cur = dict(sess, steps=sess["steps"][:res["fail"][0] + 1])
    i = len(cur["steps"]) - 2
    while i >= 0:
        cand = dict(cur, steps=cur["steps"][:i] + cur["steps"][i + 1:])
        if fails(cand):
            cur = cand
        i -= 1
    named = {n["id"] for st in cur["steps"] if st["do"] == "edit" for n in st.get("add", [])} | \
            {x for st in cur["steps"] if st["do"] == "edit" for t in st.get("ties", []) for x in t}
    for k in range(len(cur["specs"])):
        if any(n["id"] in named for n in cur["specs"][k]["notes"]):
            continue

        def f(sp, k=k):
            ss = list(cur["specs"])
            ss[k] = sp
            return fails(dict(cur, specs=ss))
        try:
            ss = list(cur["specs"])
            ss[k] = shrink_spec(cur["specs"][k], f)
            cur = dict(cur, specs=ss)
        except Exception:
            pass
    for j, st in enumerate(cur["steps"]):
        if "spec" in st:
            def g(sp, j=j):
                steps = list(cur["steps"])
                steps[j] = dict(steps[j], spec=sp)
                return fails(dict(cur, steps=steps))
            try:
                steps = list(cur["steps"])
                steps[j] = dict(st, spec=shrink_spec(st["spec"], g))
                cur = dict(cur, steps=steps)
            except Exception:
                pass
    return cur


def stage_sessions(ctx, n, n_coq):
    rng = ctx.rng
    terms, cases = [], []
    for si in range(n):
        sess = gen_session(rng)
        try:
            res = run_session(sess, want_term=len(terms) < n_coq)
        except Exception as e:
            ctx.violation("session (state carried between calls) could not be executed: %s: %s" % (type(e).__name__, e), dict(sess, message=str(e)))
            continue
        ctx.evaluations += res["reads"]
        ctx.count("session:container=" + sess["container"])
        for st in sess["steps"]:
            if st["do"] != "read":
                ctx.count("session:op=" + st["do"] + (":" + st["how"] if st["do"] == "unfold" else ""))
        for x in res["notes"]:
            ctx.count("session:" + x)
        if res["grew"]:
            ctx.count("session:unfolding_changed_the_rows")
        ctx.count("session:" + ("FAIL" if res["fail"] else "ok"))
        if res["fail"]:
            small = shrink_session(sess)
            r2 = run_session(small)
            msg = (r2["fail"] or res["fail"])[1]
            ctx.violation("%s kept between calls, changed (%s) and read again: %s"
                          % (sess["container"], ", ".join(st["do"] for st in small["steps"] if st["do"] != "read") or "nothing", msg),
                          dict(small, message=msg))
            continue
        ctx.nontrivial(("session", sess))
        if res["term"]:
            terms.append(res["term"])
            cases.append(sess)
        if si < 1:
            ctx.sample({"session": {k: v for k, v in sess.items() if k != "specs"}})
    run_coq(ctx, "session", terms, cases, SESSION_CHECKER,
            "model state machine (Model/C05_Hist.v: part objects, Score.parts / part_structure, list, PartGroup.children; edit in "
            "place, score[i] = part, members[i] = part, append, unfold_part_*) read after every step = every reading of the session")


# ---- inverse direction


DENS = [1, 1, 2, 2, 3, 4, 4, 6, 8, 12, 16, 5]


def gen_inverse_case(rng):
    kind = rng.choice(["beat", "beat", "div", "both"])
    n = rng.randint(1, 10)
    rows = []
    if kind == "beat":
        dens = [rng.choice(DENS) for _ in range(rng.choice([1, 2, 2, 3]))]
        t = Fraction(0)
        for i in range(n):
            if rng.random() < 0.7:
                t += Fraction(rng.randint(0, 8), rng.choice(dens))
            on = Fraction(rng.randint(0, 24), rng.choice(dens)) if rng.random() < 0.3 else t
            du = Fraction(rng.randint(1, 12), rng.choice(dens))
            rows.append([on, du, rng.randint(36, 90)])
        # the corner D10 names: an onset whose denominator no duration has
        if rng.random() < 0.4:
            d = rng.choice([3, 5, 6, 12, 16])
            rows.append([Fraction(rng.randint(1, 4 * d), d), Fraction(rng.randint(1, 4), rng.choice([1, 2])), rng.randint(36, 90)])
        divs = None
    else:
        divs = rng.choice([1, 2, 3, 4, 6, 8, 10, 12, 16, 24, 480])
        t = 0
        for i in range(n):
            if rng.random() < 0.7:
                t += rng.randint(0, 2 * divs)
            on = rng.randint(0, 8 * divs) if rng.random() < 0.3 else t
            du = rng.randint(1, 3 * divs)
            rows.append([Fraction(on, divs), Fraction(du, divs), rng.randint(36, 90)])
    with_voice = rng.random() < 0.6
    voices = gen_array_voices(rng, len(rows)) if with_voice else None
    if with_voice and rng.random() < 0.3:
        # a zero-duration (grace) row: at the onset and in the voice of a main note -- sanitize_part
        # deliberately removes grace notes without a main note; arrays without 'voice' carry none (C17)
        i = rng.randrange(len(rows))
        rows.append([rows[i][0], Fraction(0), rng.randint(36, 90)])
        voices.append(voices[i])
    case = {"kind": kind, "divs": divs, "rows": [[str(a), str(b), p] for a, b, p in rows],
            "voice": voices,
            "estimate_time": rng.random() < 0.4, "f8": rng.random() < 0.3,
            "with_id": rng.random() < 0.3,
            "divs_as": rng.choice(["int", "int", "int64", "int32"])}     # the kind of number handed over as divs
    return case


def divs_arg(case):
    """divs as the kind of number the case names (Python int, numpy int64 / int32)."""
    import numpy as np
    return {"int64": np.int64, "int32": np.int32}.get(case.get("divs_as"), int)(case["divs"])


def build_inverse_array(case):
    import numpy as np
    rows = [(Fraction(a), Fraction(b), p) for a, b, p in case["rows"]]
    ft = "f8" if case["f8"] else "f4"
    fields, cols = [], []
    if case["kind"] in ("beat", "both"):
        fields += [("onset_beat", ft), ("duration_beat", ft)]
        cols += [[float(a) for a, b, p in rows], [float(b) for a, b, p in rows]]
    if case["kind"] in ("div", "both"):
        d = case["divs"]
        fields += [("onset_div", "i4"), ("duration_div", "i4")]
        cols += [[int(a * d) for a, b, p in rows], [int(b * d) for a, b, p in rows]]
    fields += [("pitch", "i4")]
    cols += [[p for a, b, p in rows]]
    if case["voice"]:
        fields += [("voice", "i4")]
        cols += [case["voice"]]
    if case["with_id"]:
        fields += [("id", "U256")]
        cols += [["x%d" % i for i in range(len(rows))]]
    return np.array(list(zip(*cols)), dtype=fields)


def check_inverse(case):
    """note_array_to_score then note_array: same onsets, durations, pitches."""
    import numpy as np
    from partitura.musicanalysis.note_array_to_score import note_array_to_score
    arr = build_inverse_array(case)
    rows = [(Fraction(a), Fraction(b), p) for a, b, p in case["rows"]]
    kw = {}
    if case["kind"] == "div":
        kw["divs"] = divs_arg(case)
    if case["estimate_time"]:
        kw["estimate_time"] = True
    try:
        sc = note_array_to_score(arr.copy(), **kw)
        out = sc.note_array(include_divs_per_quarter=True)
    except Exception as e:
        return "raised %s: %s" % (type(e).__name__, e), None
    if len(out) != len(rows):
        return "round trip returned %d rows for %d input rows" % (len(out), len(rows)), None
    got = sorted((Fraction(int(r["onset_div"]), int(r["divs_pq"])), int(r["pitch"]), Fraction(int(r["duration_div"]), int(r["divs_pq"]))) for r in out)
    exp = sorted((a, p, b) for a, b, p in rows)
    if got != exp:
        i = next(i for i in range(len(exp)) if got[i] != exp[i])
        return ("after note_array_to_score + note_array the %d-th row (onset, pitch, duration in quarters) is %s, the input array has %s"
                % (i, tuple(str(x) for x in got[i]), tuple(str(x) for x in exp[i]))), None
    if case["kind"] in ("div", "both"):
        d = case["divs"]
        if sorted((int(r["onset_div"]), int(r["pitch"]), int(r["duration_div"])) for r in out) != sorted((int(a * d), p, int(b * d)) for a, b, p in rows):
            return "division columns changed in the round trip (divs=%d)" % d, None
    # time columns: durations exactly, onsets up to the pickup shift of the inferred first measure
    o2 = sorted((int(r["onset_div"]), int(r["pitch"]), int(r["duration_div"]), float(r["onset_quarter"]), float(r["duration_quarter"])) for r in out)
    shift = o2[0][3] - float(Fraction(o2[0][0], int(out[0]["divs_pq"])))
    for on, p, du, oq, dq in o2:
        D = int(out[0]["divs_pq"])
        if not f4_close(dq, du / D, span=abs(oq) + abs(oq + du / D)) or abs((oq - shift) - on / D) > 1e-4:
            return "quarter columns of the rebuilt score do not match its division columns (onset %d)" % on, None
    vmsg = check_rebuilt_voices(sc)[0]
    if vmsg:
        return vmsg, None
    return None, (sc, out)


def check_rebuilt_voices(sc):
    """The Score that note_array_to_score returns is a score like any other: the voice column of the note array
    of each of its parts must be the voice the part states for the note (0 for a 0-based voice column).
    Returns (None | message, per part {id: [stated voice]})."""
    stated_all = []
    for pi, part in enumerate(sc.parts):
        try:
            na = part.note_array()
        except Exception as e:
            return "note_array of the rebuilt part raised %s: %s" % (type(e).__name__, e), None
        heads = {}
        for n in part.notes_tied:
            heads.setdefault(str(n.id), []).append(None if n.voice is None else int(n.voice))
        stated = {v for vs in heads.values() for v in vs if v is not None}
        stated_all.append({k: list(v) for k, v in heads.items()})
        for r in na:
            vs = heads.get(str(r["id"]))
            if not vs:
                return "row %r of the rebuilt part's note array belongs to none of its notes" % str(r["id"]), None
            g = int(r["voice"])
            if g in vs:
                vs.remove(g)
            elif None in vs and g not in stated:
                vs.remove(None)
            else:
                return ("the part built by note_array_to_score states voice %s for note %r (voices of the part: %s), the voice "
                        "column of its note array says %d" % ("/".join(str(v) for v in vs), str(r["id"]), sorted(stated), g)), None
    return None, stated_all


def gen_array_voices(rng, n):
    """The voice column of an array handed to note_array_to_score: 1-based, 0-based, all zero, with gaps."""
    r = rng.random()
    if r < 0.35:
        return [rng.randint(1, 3) for _ in range(n)]
    if r < 0.75:
        return [rng.randint(0, 2) for _ in range(n)]
    if r < 0.85:
        return [0] * n
    return [rng.choice([0, 2, 5]) for _ in range(n)]


def gen_inverse_list(rng):
    """Two or three arrays of one kind (note_array_to_score builds one part per array)."""
    first = gen_inverse_case(rng)
    out = [first]
    want = rng.randint(2, 3)
    guard = 0
    while len(out) < want and guard < 200:
        guard += 1
        c = gen_inverse_case(rng)
        if c["kind"] != first["kind"]:
            continue
        if c["kind"] != "beat" and c["divs"] != first["divs"]:
            continue
        out.append(c)
    for c in out:
        c["estimate_time"] = False
    return out


def check_inverse_list(cases):
    """note_array_to_score on a LIST of arrays, then Score.note_array: the union of the onsets, durations
    (in quarters) and pitches of the arrays."""
    from partitura.musicanalysis.note_array_to_score import note_array_to_score
    arrs = [build_inverse_array(c) for c in cases]
    kw = {}
    if cases[0]["kind"] == "div":
        kw["divs"] = cases[0]["divs"]
    try:
        sc = note_array_to_score([a.copy() for a in arrs], **kw)
        out = sc.note_array(include_divs_per_quarter=True)
    except Exception as e:
        return "raised %s: %s" % (type(e).__name__, e)
    exp = sorted((Fraction(a), p, Fraction(b)) for c in cases for a, b, p in c["rows"])
    if len(out) != len(exp):
        return "round trip of %d arrays returned %d rows for %d input rows" % (len(cases), len(out), len(exp))
    got = sorted((Fraction(int(r["onset_div"]), int(r["divs_pq"])), int(r["pitch"]), Fraction(int(r["duration_div"]), int(r["divs_pq"]))) for r in out)
    if got != exp:
        i = next(i for i in range(len(exp)) if got[i] != exp[i])
        return ("after note_array_to_score (list of %d arrays) + note_array the %d-th row (onset, pitch, duration in quarters) is %s, "
                "the input arrays have %s" % (len(cases), i, tuple(str(x) for x in got[i]), tuple(str(x) for x in exp[i])))
    return check_rebuilt_voices(sc)[0]


def divs_from_beats_shifted(case, shift):
    """create_divs_from_beats on the beat columns of the case with every onset moved by -shift (a dyadic fraction: exact in
    float32), i.e. an array whose smallest onset is negative -- the branch of the function that shifts the onset column.
    Returns (message or None, onsets, durations, divs, onset_div column, duration_div column)."""
    import numpy as np
    from partitura.musicanalysis.note_array_to_score import create_divs_from_beats
    arr = build_inverse_array(case)
    arr = arr.copy()
    arr["onset_beat"] = arr["onset_beat"] - float(shift)
    try:
        na, d = create_divs_from_beats(arr)
    except Exception as e:
        return "create_divs_from_beats raised %s: %s" % (type(e).__name__, e), None, None, None, None, None
    ons = [Fraction(float(x)).limit_denominator(256) for x in arr["onset_beat"]]
    dus = [Fraction(float(x)).limit_denominator(256) for x in arr["duration_beat"]]
    d = int(d)
    od = [int(x) for x in na["onset_div"]]
    dd = [int(x) for x in na["duration_div"]]
    k = min(min(ons), 0)       # the column may be moved by ONE constant, and only when an onset is negative
    for i in range(len(ons)):
        if Fraction(od[i], d) != ons[i] - k or Fraction(dd[i], d) != dus[i]:
            return ("create_divs_from_beats (onsets moved by -%s: smallest onset %s): divs=%d turns onset %s / duration %s into %d / %d "
                    "divisions; expected %s / %s" % (shift, min(ons), d, ons[i], dus[i], od[i], dd[i], (ons[i] - k) * d, dus[i] * d)), ons, dus, d, od, dd
    return None, ons, dus, d, od, dd


def stage_inverse(ctx, n_cases, n_metrical):
    import numpy as np
    from partitura.musicanalysis.note_array_to_score import create_divs_from_beats, create_beats_from_divs
    rng = ctx.rng
    terms, cases = [], []
    rb_terms, rb_cases = [], []
    for ci in range(n_cases):
        case = gen_inverse_case(rng)
        msg, out = check_inverse(case)
        ctx.evaluations += 1
        ctx.count("inverse:%s%s" % (case["kind"], ":estimate_time" if case["estimate_time"] else ""))
        if msg:
            small = shrink_inverse(case)
            m2 = check_inverse(small)[0]
            ctx.violation("note_array_to_score -> note_array: %s" % (m2 or msg), {"kind": "inverse", "case": small, "message": m2 or msg})
            continue
        rows = [(Fraction(a), Fraction(b), p) for a, b, p in case["rows"]]
        onset_dens = {a.denominator for a, b, p in rows}
        dur_dens = {b.denominator for a, b, p in rows}
        if case["kind"] == "beat" and not all(any(dd % od == 0 for dd in dur_dens) for od in onset_dens):
            ctx.count("inverse:onset_denominator_not_among_durations")
        ctx.nontrivial(("inverse", case))
        if ci < 1:
            ctx.sample({"inverse_case": case})
        if ci % 2 == 0:
            term = inverse_rebuild_term(case, out)
            ctx.count("rebuild:inverse_case" + ("" if term is not None else ":not_printable"))
            if term is not None:
                rb_terms.append(term)
                rb_cases.append({"kind": "inverse", "case": case})
        if ci % 6 == 0:
            lst = gen_inverse_list(rng)
            lmsg = check_inverse_list(lst)
            ctx.evaluations += 1
            ctx.count("inverse:list_of_%d_arrays:%s" % (len(lst), lst[0]["kind"]))
            if lmsg:
                ctx.violation("note_array_to_score(list) -> note_array: %s" % lmsg, {"kind": "inverse_list", "cases": lst, "message": lmsg})
            else:
                ctx.nontrivial(("inverse_list", lst))
        # the two helper functions directly
        arr = build_inverse_array(case)
        if case["kind"] == "beat":
            try:
                na, d = create_divs_from_beats(arr)
            except Exception as e:
                ctx.violation("create_divs_from_beats raised %s: %s" % (type(e).__name__, e), {"kind": "inverse", "case": case})
                continue
            ons = [Fraction(float(x)).limit_denominator(256) for x in arr["onset_beat"]]
            dus = [Fraction(float(x)).limit_denominator(256) for x in arr["duration_beat"]]
            bad = [i for i in range(len(ons)) if Fraction(int(na["onset_div"][i]), int(d)) != ons[i] - min(min(ons), 0) or Fraction(int(na["duration_div"][i]), int(d)) != dus[i]]
            if bad:
                i = bad[0]
                ctx.violation("create_divs_from_beats: divs=%d turns onset %s / duration %s into %d / %d divisions (not exact)"
                              % (int(d), ons[i], dus[i], int(na["onset_div"][i]), int(na["duration_div"][i])),
                              {"kind": "inverse", "case": case, "message": "create_divs_from_beats inexact"})
                continue
            # round j (onset_column_roundtrip): the sign of the smallest onset decides whether the column is shifted
            ctx.count("inverse:divs_from_beats:smallest_onset_%s" % ("negative(shifted)" if min(ons) < 0 else "zero" if min(ons) == 0 else "positive(kept)"))
            terms.append("((%s : list Q), (%s : list Q), (%s, (%s : list Z), (%s : list Z)))"
                         % (clist([cq(x) for x in ons]), clist([cq(x) for x in dus]), cz(int(d)),
                            clist([cz(int(x)) for x in na["onset_div"]]), clist([cz(int(x)) for x in na["duration_div"]])))
            cases.append({"kind": "inverse", "case": case})
            # round j: the same array with its onsets moved below zero (the shifting branch; the generated onsets are never negative)
            if rng.random() < 0.6:
                shift = Fraction(rng.randint(1, 24), rng.choice([1, 2, 4]))
                smsg, ons2, dus2, d2, od2, dd2 = divs_from_beats_shifted(case, shift)
                ctx.evaluations += 1
                if smsg:
                    ctx.violation(smsg, {"kind": "divs_from_beats", "case": case, "shift": str(shift), "message": smsg})
                    continue
                ctx.count("inverse:divs_from_beats:smallest_onset_%s" % ("negative(shifted)" if min(ons2) < 0 else "zero" if min(ons2) == 0 else "positive(kept)"))
                terms.append("((%s : list Q), (%s : list Q), (%s, (%s : list Z), (%s : list Z)))"
                             % (clist([cq(x) for x in ons2]), clist([cq(x) for x in dus2]), cz(d2),
                                clist([cz(x) for x in od2]), clist([cz(x) for x in dd2])))
                cases.append({"kind": "divs_from_beats", "case": case, "shift": str(shift)})
        elif case["kind"] == "div":
            d = case["divs"]
            nb = create_beats_from_divs(arr, d)
            ctx.evaluations += 1
            for r in nb:
                if abs(float(r["onset_beat"]) - int(r["onset_div"]) / d) > 1e-9 or abs(float(r["duration_beat"]) - int(r["duration_div"]) / d) > 1e-9:
                    ctx.violation("create_beats_from_divs(divs=%d): %r" % (d, r), {"kind": "inverse", "case": case, "message": "create_beats_from_divs"})
                    break
    stage_metrical(ctx, n_metrical, rb_terms, rb_cases)
    run_coq(ctx, "rebuild", rb_terms, rb_cases, REBUILD_CHECKER,
            "model of note_array_to_score (lexsort, inferred divisions, pickup measure, time signatures from the columns, one "
            "note per row cut into tied pieces where the rebuilt part has them) composed with the model note_array = divisions, "
            "first measure, time signatures and notes of the rebuilt part and the rows (division columns; beat columns on "
            "metrical arrays; the voice column against the voices the rebuilt part states) of its note array")
    run_coq(ctx, "inverse", terms, cases,
            "fun c => match c with (ons, dus, impl) => inverse_case_ok_m ons dus impl end",
            "create_divs_from_beats returns a positive multiple of the model's lcm of the onset and duration denominators and the "
            "division columns the model computes for that number")


def shrink_inverse(case):
    idx = list(range(len(case["rows"])))

    def sub(keep):
        c = dict(case)
        c["rows"] = [case["rows"][i] for i in keep]
        if case["voice"]:
            c["voice"] = [case["voice"][i] for i in keep]
        return c

    cls = failure_class(check_inverse(case)[0])

    def fails(keep):
        try:
            return failure_class(check_inverse(sub(keep))[0]) == cls
        except Exception:
            return False
    if len(idx) < 2:
        return case
    return sub(core.ddmin(idx, fails))


def failure_class(msg):
    """Coarse class of an oracle message (numbers and quoted names removed): shrinking keeps the class."""
    if msg is None:
        return None
    import re
    return re.sub(r"[0-9]+|'[^']*'", "#", msg)[:60]


# ---- inverse direction on a metrical grid (pickup measures, time signature columns) and the rebuilt part


MET_TS = [(4, 4), (3, 4), (2, 4), (6, 8), (3, 8), (2, 2), (5, 4), (12, 8), (9, 8), (3, 2)]
MET_DIVS = [1, 2, 2, 3, 4, 4, 6, 6, 8, 12, 24, 120, 480]
MET_GRID_DEN = [1, 2, 3, 4, 6, 8, 12]


def gen_metrical_case(rng):
    """A note array as it is taken from a score: division AND beat columns (or beat columns alone), beat 0 at
    division P (pickup measure of P divisions; 70 % of the cases), the first note at division 0 or later (the
    pickup begins with a rest: half of the pickups), time signature given by columns (40 % of them changing:
    the numerator, for arrays with both kinds of columns also the beat type -- then a note starts at the barline
    of the change --, a third of the changes returning to the first signature), by the time_sigs argument, by
    estimate_time (4/4) or not at all."""
    tsmode = rng.choice(["cols", "cols", "cols", "cols", "param", "param", "estimate", "estimate", "none", "none"])
    kind = rng.choice(["both", "both", "beat"])
    if tsmode == "cols" and kind == "both":
        b, bt = rng.choice(MET_TS)
    elif tsmode == "estimate":
        b, bt = 4, 4
    else:                                    # without time signature columns beats are read as quarters
        b, bt = rng.choice([x for x in MET_TS if x[1] == 4])
    while True:
        divs = rng.choice(MET_DIVS)
        if (divs * 4) % bt == 0:
            break
    unit = divs * 4 // bt
    # positions are multiples of g (denominators of the beat values stay below 256 for create_divs_from_beats)
    g = 1
    if divs >= 24:
        g = divs // rng.choice([d for d in MET_GRID_DEN if divs % d == 0])
    # segments of (beats per measure, beat type, number of measures)
    segs = [[b, bt, rng.randint(1, 3)]]
    if tsmode == "cols" and rng.random() < 0.5:
        segs[0][2] = rng.randint(1, 2)
        for _ in range(rng.randint(1, 2)):
            if len(segs) == 2 and rng.random() < 0.5:
                nb, nbt = segs[0][0], segs[0][1]          # back to the first signature
            else:
                nbt = segs[-1][1]
                if kind == "both" and rng.random() < 0.5:
                    nbt = rng.choice([x for x in (2, 4, 8) if (divs * 4) % x == 0])
                nb = rng.choice([x for x in (2, 3, 4, 5, 6, 9, 12) if (x, nbt) != (segs[-1][0], segs[-1][1])])
            segs.append([nb, nbt, rng.randint(1, 2)])
    mlen = b * unit
    P = 0
    if rng.random() < 0.7 and mlen > g:
        P = g * rng.randint(1, (mlen - 1) // g)
    measures = [[0, P, b, bt]] if P else []
    t = P
    forced = []                               # a note starts where the beat type changes
    for si, (nb, nbt, k) in enumerate(segs):
        if si > 0 and nbt != segs[si - 1][1]:
            forced.append(t)
        for _ in range(k):
            ml = nb * divs * 4 // nbt
            measures.append([t, t + ml, nb, nbt])
            t += ml
    total = t
    first = 0
    if P > 0 and rng.random() < 0.5:
        first = g * rng.randrange(0, P // g)
    rows = []
    t = first
    n = rng.randint(1, 9) if len(segs) == 1 else rng.randint(2, 6) * len(segs)
    for i in range(n):
        if t >= total:
            break
        du = g * rng.randint(1, max(1, (2 if len(segs) == 1 else 4) * unit // g))
        rows.append([t, du, rng.randint(40, 88)])
        r = rng.random()
        if r < 0.2:
            pass                              # chord
        elif r < 0.8:
            t += du
        else:
            t += g * rng.randint(1, max(1, 3 * unit // g))
    # at least one complete measure after the pickup (a piece that ends inside its first measure IS a pickup)
    end = max(r[0] + r[1] for r in rows)
    if end < P + mlen:
        s0 = max(min(t, P + mlen - g), rows[-1][0])
        rows.append([s0, P + mlen - s0 + g * rng.randint(0, 2), rng.randint(40, 88)])
    for ft in forced:
        if not any(r[0] == ft for r in rows):
            rows.append([ft, g * rng.randint(1, max(1, unit // g)), rng.randint(40, 88)])
    rows.sort()
    case = {"kind": kind, "divs": divs, "P": P, "measures": measures, "rows": rows, "tsmode": tsmode,
            "f8": rng.random() < 0.25, "give_divs": rng.random() < 0.3, "divs_as": rng.choice(["int", "int", "int64", "int32"]),
            "voice": gen_array_voices(rng, len(rows)) if rng.random() < 0.6 else None}
    if not met_first_row_uniform(case):
        case["give_divs"] = True              # documented limit of the inference ("possible error against div/beat")
    if rng.random() < 0.3:
        idx = list(range(len(case["rows"])))
        rng.shuffle(idx)                      # handed over unsorted
        case["rows"] = [case["rows"][i] for i in idx]
        if case["voice"]:
            case["voice"] = [case["voice"][i] for i in idx]
    return case


def met_measure(c, t):
    """The measure (start, end, beats, beat type) in which division t lies."""
    ms = c["measures"]
    for m in ms:
        if m[0] <= t < m[1]:
            return m
    return ms[-1] if t >= ms[-1][1] else ms[0]


def met_beat(c, t):
    """Beat position of division t: beat 0 at division P, beats counted in the beat type in force."""
    pos = Fraction(0)
    P = c["P"]
    lo, hi = (P, t) if t >= P else (t, P)
    for m in c["measures"]:
        a, b = max(lo, m[0]), min(hi, m[1] if m is not c["measures"][-1] else max(hi, m[1]))
        if b > a:
            pos += Fraction((b - a) * m[3], c["divs"] * 4)
    return pos if t >= P else -pos


def met_first_row_uniform(c):
    """The divisions of an array with both kinds of columns are inferred from the first row (onset, pitch,
    duration order) with a non-zero duration: its beat duration must be counted in ONE beat type."""
    r = min((r for r in c["rows"] if r[1] > 0), key=lambda r: (r[0], r[2], r[1]), default=None)
    if r is None:
        return True
    return len({m[3] for m in c["measures"] if m[0] < r[0] + r[1] and m[1] > r[0]} | {met_measure(c, r[0])[3]}) == 1


def met_single_bt(c):
    bts = {m[3] for m in c["measures"]}
    return next(iter(bts)) if len(bts) == 1 else None


def metrical_valid(c):
    """The class of arrays the metrical oracle speaks about (kept by the shrinker)."""
    rows = c["rows"]
    if not rows:
        return False
    P = c["P"]
    full = next(m for m in c["measures"] if m[0] == P)
    if P > 0 and not any(r[0] < P for r in rows):
        return False
    for a, b in zip(c["measures"], c["measures"][1:]):
        if a[3] != b[3] and not any(r[0] == b[0] for r in rows):
            return False                      # a note starts where the beat type changes
    if c["kind"] == "both" and not c["give_divs"] and not met_first_row_uniform(c):
        return False
    return max(r[0] + r[1] for r in rows) >= full[1]


def build_metrical_array(c):
    import numpy as np
    ft = "f8" if c["f8"] else "f4"
    fields, cols = [], []
    rows = c["rows"]
    if c["kind"] == "both":
        fields += [("onset_div", "i4"), ("duration_div", "i4")]
        cols += [[r[0] for r in rows], [r[1] for r in rows]]
    fields += [("onset_beat", ft), ("duration_beat", ft)]
    cols += [[float(met_beat(c, r[0])) for r in rows], [float(met_beat(c, r[0] + r[1]) - met_beat(c, r[0])) for r in rows]]
    fields += [("pitch", "i4")]
    cols += [[r[2] for r in rows]]
    if c["tsmode"] == "cols":
        fields += [("ts_beats", "i4"), ("ts_beat_type", "i4")]
        cols += [[met_measure(c, r[0])[2] for r in rows], [met_measure(c, r[0])[3] for r in rows]]
    if c["voice"]:
        fields += [("voice", "i4")]
        cols += [c["voice"]]
    return np.array(list(zip(*cols)), dtype=fields)


def metrical_kwargs(c):
    kw = {}
    if c["tsmode"] == "estimate":
        kw["estimate_time"] = True
    if c["tsmode"] == "param":
        kw["time_sigs"] = [[0, c["measures"][0][2], c["measures"][0][3]]]
    if c["give_divs"] and c["kind"] == "both":
        kw["divs"] = divs_arg(c)
    return kw


def beats_close(g, e):
    return abs(g - e) <= 2.0 ** -18 * max(1.0, abs(e))


def check_metrical(c):
    """note_array_to_score then note_array on an array with a metrical grid: the same onsets, durations and
    pitches -- in divisions / quarters AND in beats (when the time signature is known, so that the rebuilt score
    has measures; without it the beat onsets may differ by one constant, the position of beat 0)."""
    from partitura.musicanalysis.note_array_to_score import note_array_to_score
    arr = build_metrical_array(c)
    try:
        sc = note_array_to_score(arr.copy(), **metrical_kwargs(c))
        out = sc.note_array(include_divs_per_quarter=True, include_time_signature=True)
    except Exception as e:
        return "raised %s: %s" % (type(e).__name__, e), None
    rows = c["rows"]
    if len(out) != len(rows):
        return "round trip returned %d rows for %d input rows" % (len(out), len(rows)), None
    D = int(out["divs_pq"][0])
    d = c["divs"]
    shift = min(r[0] for r in rows) if c["kind"] == "beat" else 0     # beat-only arrays begin at division 0
    exp = sorted((Fraction(r[0] - shift, d), r[2], Fraction(r[1], d)) for r in rows)
    got = sorted((Fraction(int(r["onset_div"]), D), int(r["pitch"]), Fraction(int(r["duration_div"]), D)) for r in out)
    if got != exp:
        i = next(i for i in range(len(exp)) if got[i] != exp[i])
        return ("after note_array_to_score + note_array the %d-th row (onset, pitch, duration in quarters) is %s, the input array has %s"
                % (i, tuple(str(x) for x in got[i]), tuple(str(x) for x in exp[i]))), None
    if c["kind"] == "both" and sorted((int(r["onset_div"]), int(r["pitch"]), int(r["duration_div"])) for r in out) != sorted((r[0], r[2], r[1]) for r in rows):
        return "division columns changed in the round trip (divs=%d, rebuilt score has %d)" % (d, D), None
    expb = sorted((r[0], r[2], r[1], float(met_beat(c, r[0])), float(met_beat(c, r[0] + r[1]) - met_beat(c, r[0]))) for r in rows)
    gotb = sorted((int(r["onset_div"]) * d // D + shift, int(r["pitch"]), int(r["duration_div"]) * d // D,
                   float(r["onset_beat"]), float(r["duration_beat"])) for r in out)
    off = (gotb[0][3] - expb[0][3]) if c["tsmode"] == "none" else 0.0
    for gb, eb in zip(gotb, expb):
        if not beats_close(gb[3] - off, eb[3]) or not beats_close(gb[4], eb[4]):
            ms = [(int(m.start.t), int(m.end.t)) for m in sc[0].measures][:3]
            return ("the row with onset_div %d, pitch %d comes back with onset_beat %s, duration_beat %s; the input array has %s, %s "
                    "(beat 0 at division %d; first measures of the rebuilt score %s%s)"
                    % (eb[0], eb[1], gb[3], gb[4], eb[3], eb[4], c["P"], ms,
                       "; no time signature: compared up to the constant %s" % off if c["tsmode"] == "none" else "")), None
    vmsg = check_rebuilt_voices(sc)[0]
    if vmsg:
        return vmsg, None
    return None, (sc, out)


def shrink_metrical(c):
    cls = failure_class(check_metrical(c)[0])
    idx = list(range(len(c["rows"])))

    def sub(keep):
        k = dict(c)
        k["rows"] = [c["rows"][i] for i in keep]
        if c["voice"]:
            k["voice"] = [c["voice"][i] for i in keep]
        return k

    def fails(keep):
        k = sub(keep)
        try:
            return metrical_valid(k) and failure_class(check_metrical(k)[0]) == cls
        except Exception:
            return False
    if len(idx) < 2:
        return c
    return sub(core.ddmin(idx, fails))


def observe_rebuilt(part):
    """What note_array_to_score built (the Score it returns is an observation point of C05): divisions, first
    measure, time signatures, the notes with their tie links."""
    import partitura.score as S
    qd = [(int(t), int(q)) for t, q in part.quarter_durations()] if hasattr(part, "quarter_durations") else []
    meas = sorted((int(m.start.t), int(m.end.t)) for m in part.iter_all(S.Measure))
    tss = sorted((int(x.start.t), int(x.beats), int(x.beat_type)) for x in part.iter_all(S.TimeSignature))
    notes = list(part.notes)
    heads = []
    for n in notes:
        if n.tie_prev is None:
            ch, m, guard = [], n, 0
            while m is not None and guard < 1000:
                ch.append((int(m.start.t), int(m.end.t)))
                m = m.tie_next
                guard += 1
            heads.append({"id": n.id, "on": int(n.start.t), "pitch": int(n.midi_pitch), "dur": ch[-1][1] - ch[0][0],
                          "step": n.step, "alter": (None if n.alter is None else int(n.alter)), "oct": int(n.octave),
                          "voice": (None if n.voice is None else int(n.voice)), "cuts": [x[0] for x in ch[1:]]})
    sigs = sorted([int(n.start.t), int(n.end.t), (int(n.midi_pitch) if n.tie_prev is None else 0), 1 if n.tie_prev is None else 0,
                   1 if n.tie_next is None else 0] for n in notes)
    return {"divs": qd[0][1] if len(qd) == 1 else None, "measures": meas, "ts": tss, "heads": heads, "sigs": sigs}


def c_irow(on, du, onb, durb, pitch, ts, h):
    return "(mkIRow %s %s %s %s %s %s %s %s %s %s %s %s)" % (
        cz(on), cz(du), core.cfloat_q(onb), core.cfloat_q(durb), cz(pitch),
        copt(ts, lambda v: ctuple([cz(v[0]), cz(v[1])])), cstr(h["id"] or ""), cstr(h["step"]), copt(h["alter"], cz), cz(h["oct"]),
        copt(h["voice"], cz), "(%s : list Z)" % clist([cz(x) for x in h["cuts"]]))


def c_rebuild_case(in_rows, given, has_meas, bt, cmp_ts, cmp_beats, sc, out):
    """in_rows: [(onset_div, duration_div, onset_beat, duration_beat, pitch, ts | None)] in the order handed over.
    Returns the Coq term or None (a row of the input has no note in the rebuilt part: the oracle's business)."""
    ob = observe_rebuilt(sc[0])
    if ob["divs"] is None:
        return None
    pool = {}
    for h in ob["heads"]:
        pool.setdefault((h["on"], h["pitch"], h["dur"]), []).append(h)
    irows = []
    for on, du, onb, durb, pitch, ts in in_rows:
        hs = pool.get((on, pitch, du))
        if not hs:
            return None
        irows.append(c_irow(on, du, onb, durb, pitch, ts, hs.pop()))
    first_meas = ob["measures"][0] if ob["measures"] else None
    obs_rows = clist([ctuple([cz(int(r["onset_div"])), cz(int(r["duration_div"])), cz(int(r["pitch"])),
                              ctuple([core.cfloat_q(float(r["onset_beat"])), core.cfloat_q(float(r["duration_beat"]))])]) for r in out])
    # the voice column of the rebuilt score's note array; a voice the rebuilt part states for none of its notes is
    # shown as -1 (the model's norm_voice does the same; check_rebuilt_voices has compared note by note)
    stated = {h["voice"] for h in ob["heads"] if h["voice"] is not None}
    vobs = clist([clist([cz(int(r["onset_div"])), cz(int(r["duration_div"])), cz(int(r["pitch"])),
                         cz(int(r["voice"]) if int(r["voice"]) in stated else -1)]) for r in out])
    return "((%s : list irow), %s, %s, %s, %s, %s, %s, %s, (%s : list (Z * (Z * Z))), (%s : list (list Z)), (%s : list (Z * Z * Z * (Q * Q))), (%s : list (list Z)))" % (
        clist(irows), copt(given, cz), cbool(has_meas), cz(bt), cbool(cmp_ts), cbool(cmp_beats), cz(ob["divs"]),
        copt(first_meas, lambda v: ctuple([cz(v[0]), cz(v[1])])),
        clist([ctuple([cz(int(r["onset_div"])), ctuple([cz(int(r["ts_beats"])), cz(int(r["ts_beat_type"]))])]) for r in out]
              if "ts_beats" in out.dtype.names else []),
        clist([clist([cz(x) for x in sg]) for sg in ob["sigs"]]), obs_rows, vobs)


REBUILD_CHECKER = ("fun c => match c with (l, given, has_meas, bt, cmp_ts, cmp_beats, d, fm, ts, notes, rows, vrows) => "
                   "rebuild_case_ok l given has_meas bt cmp_ts cmp_beats d fm ts notes rows && rebuild_voice_ok l vrows end")


def metrical_rebuild_term(c, sc, out):
    from partitura.musicanalysis.note_array_to_score import create_divs_from_beats
    arr = build_metrical_array(c)
    if c["kind"] == "beat":
        na, d = create_divs_from_beats(arr)
        ons, dus, given = [int(x) for x in na["onset_div"]], [int(x) for x in na["duration_div"]], int(d)
    else:
        ons, dus = [r[0] for r in c["rows"]], [r[1] for r in c["rows"]]
        given = c["divs"] if c["give_divs"] else None
    in_rows = [(ons[i], dus[i], float(arr["onset_beat"][i]), float(arr["duration_beat"][i]), r[2],
                (tuple(met_measure(c, r[0])[2:4]) if c["tsmode"] == "cols" else None)) for i, r in enumerate(c["rows"])]
    has_meas = c["tsmode"] != "none"
    bt = met_single_bt(c)                 # the model's beat map of the rebuilt part covers one beat type
    return c_rebuild_case(in_rows, given, has_meas, bt or 4, c["tsmode"] == "cols", has_meas and bt is not None, sc, out)


def inverse_rebuild_term(case, out_sc):
    """The classical inverse cases (no pickup, beats in quarters) through the same model."""
    from partitura.musicanalysis.note_array_to_score import create_divs_from_beats
    sc, out = out_sc
    arr = build_inverse_array(case)
    if case["kind"] == "beat":
        na, d = create_divs_from_beats(arr)
        ons, dus, given = [int(x) for x in na["onset_div"]], [int(x) for x in na["duration_div"]], int(d)
        onb, dub = [float(x) for x in arr["onset_beat"]], [float(x) for x in arr["duration_beat"]]
    elif case["kind"] == "div":
        d = case["divs"]
        ons, dus, given = [int(x) for x in arr["onset_div"]], [int(x) for x in arr["duration_div"]], d
        onb, dub = [x / d for x in ons], [x / d for x in dus]
    else:
        ons, dus, given = [int(x) for x in arr["onset_div"]], [int(x) for x in arr["duration_div"]], None
        onb, dub = [float(x) for x in arr["onset_beat"]], [float(x) for x in arr["duration_beat"]]
    if all(x == 0 for x in dub):
        return None
    in_rows = [(ons[i], dus[i], onb[i], dub[i], int(arr["pitch"][i]), None) for i in range(len(arr))]
    return c_rebuild_case(in_rows, given, bool(case["estimate_time"]), 4, False, False, sc, out)


def enumerate_metrical_small():
    """Small scope, complete: every time signature of MET_TS at 1, 2, 3, 6 divisions, every pickup length P below a
    measure, every position of the first note in the pickup (0 = no rest): one note from there to the barline, then
    one note per beat for a measure and a beat."""
    for b, bt in MET_TS:
        for divs in (1, 2, 3, 6):
            if (divs * 4) % bt:
                continue
            unit = divs * 4 // bt
            mlen = b * unit
            for P in range(0, mlen):
                for first in (range(0, P) if P else [0]):
                    rows = ([[first, P - first, 60]] if P else []) + [[P + k * unit, unit, 62 + k % 5] for k in range(b + 1)]
                    measures = ([[0, P, b, bt]] if P else []) + [[P, P + mlen, b, bt], [P + mlen, P + 2 * mlen, b, bt]]
                    yield {"kind": "both", "divs": divs, "P": P, "measures": measures, "rows": rows, "tsmode": "cols",
                           "f8": False, "give_divs": False, "voice": None}


def stage_metrical(ctx, n_cases, rebuild_terms, rebuild_cases):
    rng = ctx.rng
    if ctx.tier != "quick":
        n_enum = 0
        for c in enumerate_metrical_small():
            msg, res = check_metrical(c)
            ctx.evaluations += 1
            n_enum += 1
            if msg:
                ctx.violation("note_array_to_score -> note_array (small-scope enumeration of pickups): %s" % msg,
                              {"kind": "metrical", "case": c, "message": msg})
                break
        ctx.count("metrical:small_scope_enumeration", n_enum)
    for ci in range(n_cases):
        c = gen_metrical_case(rng)
        msg, res = check_metrical(c)
        ctx.evaluations += 1
        rest_first = c["P"] > 0 and min(r[0] for r in c["rows"]) > 0
        ctx.count("metrical:%s:ts=%s" % (c["kind"], c["tsmode"]))
        ctx.count("metrical:" + ("no_pickup" if c["P"] == 0 else ("pickup_begins_with_rest" if rest_first else "pickup")))
        sigs = [tuple(met_measure(c, r[0])[2:4]) for r in sorted(c["rows"])]
        runs = [x for i, x in enumerate(sigs) if i == 0 or x != sigs[i - 1]]
        if len(runs) > 1 and c["tsmode"] == "cols":
            ctx.count("metrical:time_signature_changes")
            if len({x[1] for x in runs}) > 1:
                ctx.count("metrical:beat_type_changes")
            if len(set(runs)) < len(runs):
                ctx.count("metrical:time_signature_returns")
        if msg:
            small = shrink_metrical(c)
            m2 = check_metrical(small)[0]
            ctx.violation("note_array_to_score -> note_array (array with %s columns, time signature: %s): %s"
                          % ("beat and division" if c["kind"] == "both" else "beat", c["tsmode"], m2 or msg),
                          {"kind": "metrical", "case": small, "message": m2 or msg})
            continue
        ctx.nontrivial(("metrical", c))
        if ci < 1:
            ctx.sample({"metrical_case": c})
        term = metrical_rebuild_term(c, *res)
        ctx.count("rebuild:metrical_case" + ("" if term is not None else ":not_printable"))
        if term is not None:
            rebuild_terms.append(term)
            rebuild_cases.append({"kind": "metrical", "case": c})


# ---- corpus


def corpus_cases():
    """Hand-written edge cases (always run first): the inputs of D08, D09, D10 and friends."""
    n = lambda i, s, e, **k: dict(dict(id=i, s=s, e=e, step="C", alter=None, oct=4, voice=1, staff=1), **k)
    base = {"id": "A", "qd": [[0, 4]], "ts": [[0, 4, 4]], "ks": [[0, 2, "minor"]], "measures": [[0, 16], [16, 32]], "total": 32}
    p1 = dict(base, notes=[n("n0", 0, 4), n("n1", 4, 16, tie_next="n2", voice=None), n("n2", 16, 32, tie_next=None), n("g", 4, 4, grace="acciaccatura", voice=None, staff=None),
                           dict(id="r0", s=0, e=4, rest=True, voice=1, staff=None), dict(id="r1", s=4, e=8, rest=True, voice=None, staff=2)])
    p1["notes"][2].pop("tie_next")
    pe = {"id": "E", "qd": [[0, 2]], "ts": [[0, 4, 4]], "ks": [], "measures": [[0, 8], [8, 16]], "notes": [], "total": 16}
    p2 = {"id": "B", "qd": [[0, 2]], "ts": [[0, 4, 4]], "ks": [], "measures": [[0, 8], [8, 16]], "total": 16,
          "notes": [n("n0", 0, 2), n("n1", 2, 4, step="E")]}
    p3 = {"id": "C", "qd": [[0, 3]], "ts": [[0, 4, 4]], "ks": [], "measures": [[0, 12], [12, 24]], "total": 24,
          "notes": [n("n0", 3, 6), n("n1", 1, 2, step="G", alter=1)]}
    # the voice column states what the score states: 0-based numbering, voice 0 next to notes without voice, all in
    # voice 0, gaps and a negative number; rests in voice 0 / without voice; staff 0 and no staff both read 0
    q = lambda i, k, v, **kw: dict(dict(id=i, s=4 * k, e=4 * k + 4, step=STEPS[k % 7], alter=None, oct=4, voice=v, staff=1), **kw)
    pv0 = dict(base, id="V0", notes=[q("n0", 0, 0), q("n1", 1, 1), q("n2", 2, 2), q("n3", 3, 0, staff=0),
                                     dict(id="r0", s=16, e=20, rest=True, voice=0, staff=0), dict(id="r1", s=20, e=24, rest=True, voice=1, staff=None)])
    pv1 = dict(base, id="V1", notes=[q("n0", 0, 0), q("n1", 1, None), q("n2", 2, 0, staff=None),
                                     dict(id="r0", s=12, e=16, rest=True, voice=0, staff=2), dict(id="r1", s=16, e=20, rest=True, voice=None, staff=2)])
    pv2 = dict(base, id="V2", notes=[q("n0", 0, 0), q("n1", 1, 0), q("n2", 1, 0, step="G"),
                                     dict(id="r0", s=12, e=16, rest=True, voice=0, staff=1)])
    pv3 = dict(base, id="V3", notes=[q("n0", 0, 0), q("n1", 1, 5), q("n2", 2, -3), q("n3", 3, None), q("g", 3, 7, e=12, grace="grace"),
                                     q("n4", 4, 0, tie_next="n5"), q("n5", 5, 2)])
    pv4 = {"id": "V4", "qd": [[0, 6]], "ts": [[0, 4, 4]], "ks": [], "measures": [[0, 24], [24, 48]], "total": 48,
           "notes": [dict(id="n0", s=0, e=6, step="C", alter=None, oct=4, voice=1, staff=1), dict(id="n1", s=6, e=12, step="D", alter=None, oct=4, voice=0, staff=0),
                     dict(id="n2", s=12, e=18, step="E", alter=None, oct=4, voice=2, staff=None)]}
    # C05-K1: the stated voice -1
    pk1 = dict(base, id="K1", notes=[q("n0", 0, -1), q("n1", 1, 2), q("n2", 2, 0)])
    return {"parts": [p1, p2, p3, pe, pv0, pv1, pv2, pv3, pv4, pk1],
            "scores": [[pe, p2, p3], [p2, pe, p3], [p2, p3, pe], [p2, p3], [p3], [pv0, pv4], [pv1, pe, pv4, pv3]],
            "inverse": [{"kind": "div", "divs": 4, "rows": [["0", "1", 60], ["0", "1", 72], ["1", "1", 62], ["1", "1", 74]], "voice": [0, 1, 0, 1],
                         "estimate_time": True, "f8": False, "with_id": False},
                        {"kind": "beat", "divs": None, "rows": [["0", "1", 60], ["1", "1/2", 62], ["3/2", "1/2", 64]], "voice": [0, 0, 0],
                         "estimate_time": False, "f8": False, "with_id": True},
                        {"kind": "both", "divs": 2, "rows": [["0", "2", 60], ["1/2", "1", 67], ["2", "1", 62]], "voice": [0, 5, 2],
                         "estimate_time": False, "f8": False, "with_id": False},
                        {"kind": "beat", "divs": None, "rows": [["0", "1/2", 60], ["1/3", "1/2", 62], ["1", "1/2", 64]], "voice": None,
                         "estimate_time": False, "f8": False, "with_id": False},
                        {"kind": "beat", "divs": None, "rows": [["0", "1", 60], ["5/16", "1", 62], ["7/12", "2", 64]], "voice": [1, 1, 2],
                         "estimate_time": False, "f8": True, "with_id": True}]}


def stage_corpus(ctx, mp_ok):
    c = corpus_cases()
    all_on = {k: True for k in OPT_NAMES}
    if not mp_ok:
        all_on["include_metrical_position"] = False
    for spec in c["parts"]:
        for rests in (False, True):
            for opts in ({}, ({k: v for k, v in all_on.items() if k in REST_OPT_NAMES} if rests else all_on)):
                status, msg, rows, _ = check_part(spec, opts, rests)
                ctx.evaluations += 1
                ctx.count("corpus:" + status)
                if status == "FAIL":
                    ctx.violation("corpus part %s, %s(%s): %s" % (spec["id"], "rest_array" if rests else "note_array", fmt_opts(opts), msg),
                                  {"kind": "part", "spec": spec, "opts": opts, "rests": rests, "message": msg})
    for specs in c["scores"]:
        for uniq in (True, False):
            for opts in ({}, all_on):
                status, msg = check_score(specs, opts, uniq)[:2]
                ctx.evaluations += 1
                ctx.count("corpus:" + status)
                if status == "FAIL":
                    ctx.violation("corpus score %s: %s" % ([s["id"] for s in specs], msg),
                                  {"kind": "score", "specs": specs, "opts": opts, "uniq": uniq, "via": "score", "message": msg})
        msg = check_rest_list(specs, True)
        if msg:
            ctx.violation("corpus rest_array_from_part_list: " + msg, {"kind": "restlist", "specs": specs, "message": msg})
    for case in c["inverse"]:
        msg, _ = check_inverse(case)
        ctx.evaluations += 1
        if msg:
            ctx.violation("corpus inverse: " + msg, {"kind": "inverse", "case": case, "message": msg})
    msg = check_dispatch(c["parts"][0], all_on, {k: v for k, v in all_on.items() if k in REST_OPT_NAMES})
    if msg:
        ctx.violation("corpus dispatch on the input type: " + msg, {"kind": "dispatch", "spec": c["parts"][0], "opts": all_on, "message": msg})


# ----------------------------------------------------------------------------
# round j: the entry functions of a part (selection of the maps for the optional columns, the refusal of
# include_divs_per_quarter on a part with several entries of divisions) against Model/C05_Sel.v

ENTRY_CHECKER = "fun c => match c with (p, o, rests, impl) => entry_case_ok p o rests impl end"


def part_qd(part):
    """The divisions as the PART OBJECT holds them (public API): [(time, divisions)]."""
    return [(int(t), int(d)) for t, d in part.quarter_durations()]


def gen_entry_spec(rng, pi):
    """(spec, kind of divisions): one entry 45 %, a change to other divisions 30 %, a second entry that repeats the
    divisions 12 %, three entries 13 % (the kinds that need two measures fall back to 'one' without them)."""
    r = rng.random()
    want = "one" if r < 0.45 else "change" if r < 0.75 else "repeat" if r < 0.87 else "three"
    for _ in range(40):
        spec = gen_part_spec(rng, pid="E%d" % pi, allow_qd_change=(want in ("change", "three")))
        multi = len(spec["qd"]) > 1
        if want == "one" and not multi:
            return spec, "one"
        if want == "change" and multi:
            return spec, "change"
        if want == "repeat" and not multi and len(spec["measures"]) >= 2:
            spec["qd"].append([spec["measures"][-1][0], spec["qd"][0][1]])
            return spec, "repeat"
        if want == "three" and multi:
            later = [m[0] for m in spec["measures"] if m[0] > spec["qd"][1][0]]
            if later:
                spec["qd"].append([later[-1], spec["qd"][1][1] + rng.choice([1, 2, 3])])     # a third entry (the maps are the part's own)
                return spec, "three"
    spec = gen_part_spec(rng, pid="E%d" % pi, allow_qd_change=False)
    return spec, "one"


def stage_entry(ctx, n, mp_ok):
    """One call of Part.note_array / Part.rest_array per case; the oracle of the part stream judges the table, the Coq
    model of the entry function (C05_Sel.entry_case_ok) must refuse exactly when the implementation raises the declared
    exception and build the same table -- column groups present exactly as asked for -- otherwise."""
    rng = ctx.rng
    terms, cases = [], []
    for pi in range(n):
        spec, kind = gen_entry_spec(rng, pi)
        rests = rng.random() < 0.2
        names = REST_OPT_NAMES if rests else OPT_NAMES
        k = rng.random()
        if k < 0.15:
            opts = {nm: False for nm in names}
        elif k < 0.3:
            opts = {nm: True for nm in names}
        elif k < 0.5:                                  # exactly one option
            one = rng.choice(names)
            opts = {nm: nm == one for nm in names}
        else:
            opts = {nm: rng.random() < 0.5 for nm in names}
        if not rests and rng.random() < 0.35:
            opts["include_divs_per_quarter"] = True
        if not mp_ok:
            opts["include_metrical_position"] = False
        part, _ = build_part(spec)
        qd = part_qd(part)
        status, msg, rows, maps = check_part(spec, opts, rests=rests, part=part)
        ctx.evaluations += 1
        ctx.count("entry:" + status)
        ctx.count("entry:divisions_" + kind)
        ctx.count("entry:qd_entries_on_the_part=%d" % min(len(qd), 3))
        ctx.count("entry:" + ("rest_array" if rests else "note_array"))
        ctx.count("entry:options_on=%d" % sum(1 for v in opts.values() if v))
        if not rests:
            ctx.count("entry:divs_pq_%s,%s" % ("asked" if opts["include_divs_per_quarter"] else "not_asked",
                                              "one_entry" if len(qd) == 1 else "several_entries"))
        if status == "FAIL":
            ctx.violation("Part.%s(%s): %s" % ("rest_array" if rests else "note_array", fmt_opts(opts), msg),
                          {"kind": "part", "spec": spec, "opts": opts, "rests": rests, "message": msg})
            continue
        if status not in ("ok", "rejected"):
            continue
        am = all_maps(part, spec, rests)
        if am["errors"]:
            ctx.count("entry:map_unavailable")
            continue
        if status == "rejected":
            impl = "(None : option (list obs))"
        else:
            nm = rows[0]["_names"] if rows else ()
            if not rows:
                ctx.count("entry:empty_table")
            impl = "(Some (%s : list obs))" % clist([c_obs(r, nm, rests) for r in rows])
        o7 = dict(opts)
        o7.setdefault("include_divs_per_quarter", False)
        pd = "(mkPart %s %s (%s : list (Z * Z)))" % (c_notes(spec), c_maps(am), clist([ctuple([cz(t), cz(d)]) for t, d in qd]))
        terms.append("(%s, %s, %s, %s)" % (pd, c_opts(o7), cbool(rests), impl))
        cases.append({"kind": "part", "spec": spec, "opts": opts, "rests": rests})
        ctx.nontrivial(("entry", spec, opts, rests))
    run_coq(ctx, "entry", terms, cases, ENTRY_CHECKER,
            "model note_array_from_part / rest_array_from_part (maps handed over per option, tuples built group by group, "
            "refusal of include_divs_per_quarter on several entries of divisions) = Part.note_array / Part.rest_array")


# ----------------------------------------------------------------------------


def run(ctx):
    ctx.rule = ("Parts and scores are built through the public API from generated specifications (layout of measures, time/key "
                "signatures, pickups 40 %, division changes 20 %, tie chains 25 % of the items (segments up to 1.5 bars: ties over "
                "barlines), grace notes 20 %, voices numbered per part by one of the schemes of VOICE_SCHEMES (1-based 26 %, 0-based "
                "with / without missing voices 26 %, all in voice 0 8 %, voice 0 next to missing voices only 9 %, gaps 15 %, negative numbers "
                "4 %, no voice at all 8 %; the rests numbered like the notes or on their own; 3 % of the parts of the part stream state "
                "voice -1: known finding C05-K1), staves from STAFF_POOLS (staff 0, no staff, gaps), equal (onset, pitch) "
                "duplicates 15 %, 9 % dense parts (24-70 notes on 2-6 onsets: above numpy's small-array sort path), 6 % parts without "
                "notes; scores: 2-4 parts whose divisions have an lcm above all of them (4,6 / 4,6,10 / 6,10,15 ...), 50 % with a part "
                "without notes at a random position, 8 % one part, 6 % 11-14 parts (two-digit part numbers), 10 % with a dense part, "
                "55 % handed over as nested PartGroups (groups of one part, groups in groups)).  One evaluation = one call of an "
                "entry point (part x option set, list of parts x option set x unique_id_per_part x entry point x arrangement, one "
                "reading of a history, one inverse round trip).  Inverse direction: arrays with beat (50 %), division (25 %) or both kinds "
                "of columns, denominators up to 16, zero-duration rows, lists of 2-3 arrays, voice column (60 %) 1-based 35 % / 0-based 40 % / "
                "all zero 10 % / with gaps 15 %; METRICAL arrays (as taken from a score): beat "
                "and division columns (2/3) or beat columns alone, beat 0 at division P (pickup 70 %, half of them beginning with a rest), "
                "time signature from ts columns (40 %, half of them changing numerator and/or beat type, also returning), time_sigs, "
                "estimate_time or none (20 % each), divisions 1..480, f4/f8, divs given 30 %, rows unsorted 30 %.  Histories: a part is "
                "read, extended (notes, tie links) and read "
                "again, half of them with identical options; 70 % go on: notes edited through their attributes (voice, staff, step, alter, "
                "octave, id), a new key signature (45 %), new divisions (30 %), third reading.  Sessions (state carried between calls): a Score "
                "(63 %, a third of them built from nested groups), a list or a PartGroup (18 % each) of 2-5 parts is kept, read, changed 1-3 times "
                "(part completed / note added / note removed / attributes edited in place, score[i] = part, unfold_part_maximal / minimal(score) "
                "with the same measures repeated in every part, members[i] = part, append) and read after every change through Score.note_array, "
                "ensure_notearray(score) and the list / PartGroup entry points on the same parts, 60 % of the readings with the session's main "
                "options; every reading is judged against the parts held at that moment; every returned array is written into by the harness.  "
                "divs handed to note_array_to_score as Python int (50 %), numpy int64 or int32.  Entry stream (round j): one call of "
                "Part.note_array (80 %) / Part.rest_array per generated part whose divisions have one entry (45 %), change (30 %), a redundant "
                "second entry (12 %) or three entries (13 %), options none / all / exactly one / random (15 / 15 / 20 / 50 %), "
                "include_divs_per_quarter forced on in a further 35 %; judged by the part oracle and by the Coq model of the entry "
                "function (refusal = refusal, column groups present exactly as asked for).  Distinct non-trivial = distinct (specification, options[, arrangement]) "
                "whose specification has at least one of the counted features (parts), differing divisions / a part without notes / a "
                "nested arrangement (scores), every history, every session, every inverse case.")
    ctx.trusted = ["Coq 8.16.1 kernel incl. vm_compute",
                   "harness/props/c05.py: generators, Coq printers, Python oracle (expected rows from the specification)",
                   "the part's own quarter/beat/key/time-signature/metrical maps as reference for those columns (C02/C10)",
                   "partitura's Part.add / set_quarter_duration put objects where the specification says (C01)"]
    ctx.assumptions = ["float32 onset columns compared with relative tolerance 2^-21 against the part's float64 maps; duration columns "
                       "with 2^-21 of the magnitudes of the two map values they are the difference of",
                       "numpy dtype truncation (U256, i4 overflow) out of scope",
                       "cyclic tie chains excluded (Python recursion would not terminate)",
                       "parts of one generated score share the metrical layout, so beat order = division order",
                       "a voice the score states (0, after a gap, negative) must be the voice column; staff 0 and no staff both read 0 "
                       "(documented: note.staff if note.staff else 0); the voice of the round trip array -> score -> array is not "
                       "compared with the INPUT array (the property names onsets, durations, pitches) but with the voices the rebuilt score states",
                       "the voice of a note WITHOUT voice, the id-prefix FORMAT, the dummy spelling letter of rests, the presence of "
                       "divs_pq in a score array when it was not asked for and the exact number of divisions create_divs_from_beats "
                       "picks are not named by the property: only 'not a stated voice', 'one prefix per part, prefix-free across "
                       "parts', and 'a positive multiple of the lcm of the denominators' are demanded",
                       "inverse direction: denominators <= 16 (metrical arrays: positions on a 1/12 .. 1/1 grid of the quarter at 120 / 480 divisions), arrays "
                       "without 'voice' carry no zero-duration notes (voice estimation is C17); metrical arrays: at least one complete measure "
                       "after the pickup, a note before beat 0 when beat 0 is not at division 0, a note at every change of beat type, the first "
                       "note within one beat type unless divs is given (documented limit of the inference); beat columns of the round trip are "
                       "demanded exactly (2^-18) only when the time signature is known, else up to one constant",
                       "the float arithmetic of the inferred divisions / pickup length is modelled on the exact rational values of the floats"]
    # C05-K1 (findings.d/C05.json): exactly the failure "a note / rest of the part states voice -1 and the voice column
    # says something else", everything else in the table being right
    ctx.matchers["C05-K1"] = is_k1
    ok, why = ctx.coq_props(expect_min=64)
    if not ok:
        ctx.log("coq_props failed: " + why[:2000])
    mp_ok = probe_metrical_position()
    ctx.extra["metrical_position_map_available"] = mp_ok
    ctx.count("probe:metrical_position_" + ("on" if mp_ok else "excluded(D13)"))
    quick = ctx.tier == "quick"
    nv0 = len(ctx.violations)
    ctx.log("proofs checked; corpus and parts")
    stage_corpus(ctx, mp_ok)
    stage_parts(ctx, n_parts=(100 if quick else 1000), n_random_opts=(2 if quick else 4),
                full_every=(0 if quick else 12), mp_ok=mp_ok, coq_per_part=(2 if quick else 2))
    ctx.log("histories")
    stage_history(ctx, n=(60 if quick else 500), mp_ok=mp_ok)
    ctx.log("scores")
    stage_scores(ctx, n_scores=(75 if quick else 800), mp_ok=mp_ok, full_every=(0 if quick else 30))
    ctx.log("sessions (state carried between calls)")
    stage_sessions(ctx, n=(120 if quick else 1500), n_coq=(40 if quick else 300))
    ctx.log("inverse direction")
    stage_inverse(ctx, n_cases=(160 if quick else 2500), n_metrical=(220 if quick else 2500))
    ctx.log("entry functions of a part (selection of the maps, refusal)")
    stage_entry(ctx, n=(160 if quick else 1500), mp_ok=mp_ok)
    if not ok and len(ctx.violations) == nv0:
        ctx.violation("proof obligations of Props/C05.v no longer check: " + why, {"theorem_or_build": why}, no_input=True)


def is_k1(replay_obj):
    """Known finding C05-K1: a part-level table whose only discrepancy is that a note / rest STATING voice -1 is reported
    in another voice (the implementation marks 'no voice' with -1 inside the voice column)."""
    import re
    r = replay_obj
    if r.get("kind") != "part":
        return False
    m = re.match(r"^row '([^']*)': voice = (-?\d+), " + re.escape(K1_TEXT) + "$", r.get("message") or "")
    if not m or int(m.group(2)) == -1:
        return False
    want_rest = bool(r.get("rests"))
    return any(n["id"] == m.group(1) and n["voice"] == -1 and bool(n.get("rest")) == want_rest for n in r["spec"]["notes"])


def replay(obj):
    r = obj.get("replay", obj)
    print(json.dumps({k: v for k, v in obj.items() if k != "replay"}, indent=1, default=str))
    kind = r.get("kind")
    if kind == "part":
        part, _ = build_part(r["spec"])
        exp, maps = expected_rows(r["spec"], part, r["opts"], r.get("rests", False))
        st, res = call_note_array(part, r["opts"], r.get("rests", False))
        print("specification:", json.dumps(r["spec"]))
        print("options:", r["opts"])
        print("implementation:", st, res if st == "exc" else "\n" + "\n".join(str(x) for x in array_rows(res)))
        print("expected rows (any order within equal onset,pitch; the voice of a note without voice only has to differ from the stated voices):\n"
              + "\n".join(str({k: v for k, v in x.items() if not k.startswith("_")}) for x in sorted(exp, key=lambda x: (x["onset_div"], x["pitch"]))))
        print("oracle:", check_part(r["spec"], r["opts"], r.get("rests", False))[:2])
    elif kind == "score":
        print("specifications:", json.dumps(r["specs"]))
        print("entry point:", r.get("via", "score"), " arrangement of the parts:", r.get("shape"))
        st = check_score(r["specs"], r["opts"], r["uniq"], r.get("via", "score"), r.get("shape"))
        print("oracle:", st[:2])
        if st[2] is not None:
            print("implementation:\n" + "\n".join(str({k: v for k, v in x.items() if not k.startswith("_")}) for x in st[2]))
    elif kind == "restlist":
        print("oracle:", check_rest_list(r["specs"], r.get("uniq", True), r.get("via", "from_list")))
    elif kind == "inverse_list":
        for c in r["cases"]:
            print("array:\n", build_inverse_array(c))
        print("oracle:", check_inverse_list(r["cases"]))
    elif kind == "dispatch":
        print("oracle:", check_dispatch(r["spec"], r["opts"], {k: v for k, v in r["opts"].items() if k in REST_OPT_NAMES}))
    elif kind == "history":
        print("oracle:", check_history(r["spec"], r["first_ids"], r["opts1"], r["opts2"], r.get("rests", False), r.get("third"))[:2])
    elif kind == "session":
        print("container:", r["container"], " arrangement of the parts:", r["shape"])
        print("initial specifications:", json.dumps(r["specs"]))
        for i, st in enumerate(r["steps"]):
            print("step %d:" % i, json.dumps(st))
        res = run_session(r)
        print("what happened:", res["notes"], " readings judged:", res["reads"])
        print("oracle:", res["fail"])
        if res["fail"]:
            print("implementation (the failing reading):\n" + "\n".join(str(x) for x in res.get("got", [])))
            print("rows of the parts held at that moment (ids without part prefix; any order within equal onset, pitch):\n"
                  + "\n".join(str(x) for x in sorted(res.get("expected", []), key=lambda x: (x["onset_div"], x["pitch"]))))
    elif kind == "inverse":
        print("array:\n", build_inverse_array(r["case"]))
        print("oracle:", check_inverse(r["case"])[0])
    elif kind == "divs_from_beats":
        print("array (before every onset is moved by -%s):\n" % r["shift"], build_inverse_array(r["case"]))
        res = divs_from_beats_shifted(r["case"], Fraction(r["shift"]))
        print("onsets:", [str(x) for x in res[1] or []], " durations:", [str(x) for x in res[2] or []])
        print("create_divs_from_beats: divs", res[3], " onset_div", res[4], " duration_div", res[5])
        print("oracle:", res[0])
    elif kind == "metrical":
        c = r["case"]
        arr = build_metrical_array(c)
        print("array (beat 0 at division %d, %d divisions per quarter, measures (start, end, beats, beat type) %s):\n" % (c["P"], c["divs"], c["measures"]), arr)
        print("note_array_to_score arguments:", metrical_kwargs(c))
        msg, res = check_metrical(c)
        print("oracle:", msg)
        try:
            from partitura.musicanalysis.note_array_to_score import note_array_to_score
            sc = note_array_to_score(arr.copy(), **metrical_kwargs(c))
            print("rebuilt part:", json.dumps(observe_rebuilt(sc[0])))
            print("its note array:\n", sc.note_array(include_divs_per_quarter=True))
        except Exception as e:
            print("implementation raised", type(e).__name__, e)
    else:
        print(json.dumps(r, indent=1, default=str))
    return 0
