"""C05 -- the note array is a faithful table of the score.

What runs here (see design.d/C05.md):
  * generator of part / score specifications (JSON) built through partitura's public API
    (Part, set_quarter_duration, add(TimeSignature|KeySignature|Measure|Note|GraceNote|Rest), tie links);
  * implementation runner: Part.note_array, Score.note_array, Part.rest_array, ensure_notearray,
    rest_array_from_part_list, note_array_to_score -> note_array, create_divs_from_beats,
    create_beats_from_divs, over the include_* options and unique_id_per_part;
  * direct oracle (Python, independent of the Coq model): expected rows computed from the
    specification (what was put into the score) and the part's own maps;
  * correspondence: the Gallina model (coq/Model/C05.v) evaluated by vm_compute on the same inputs
    must produce the same table (rows compared as multisets within equal (onset, pitch)).
"""
import itertools
import json
import math
from fractions import Fraction

import core
from core import cz, cq, cstr, clist, ctuple, copt, cbool

STEPS = ["C", "D", "E", "F", "G", "A", "B"]
BASE = {"C": 0, "D": 2, "E": 4, "F": 5, "G": 7, "A": 9, "B": 11}
GRACE_TYPES = ["grace", "acciaccatura", "appoggiatura"]
TS_CHOICES = [(4, 4), (3, 4), (2, 4), (6, 8), (3, 8), (2, 2), (5, 4), (12, 8)]
OPT_NAMES = ["include_pitch_spelling", "include_key_signature", "include_time_signature",
             "include_metrical_position", "include_grace_notes", "include_staff",
             "include_divs_per_quarter"]
REST_OPT_NAMES = ["include_pitch_spelling", "include_key_signature", "include_time_signature",
                  "include_metrical_position", "include_grace_notes", "include_staff"]
F4_REL = 2.0 ** -21  # declared tolerance for float32 columns (float32 has a 24 bit significand)


# ----------------------------------------------------------------------------
# specifications -> partitura objects (public API only)


def build_part(spec):
    """Build a partitura Part from a JSON specification.  Returns (part, {id: object})."""
    import partitura.score as S

    p = S.Part(spec["id"])
    for t, q in spec["qd"]:
        p.set_quarter_duration(t, q)
    for t, b, bt in spec["ts"]:
        p.add(S.TimeSignature(b, bt), t)
    for t, f, m in spec["ks"]:
        p.add(S.KeySignature(f, m), t)
    for i, (s, e) in enumerate(spec["measures"]):
        p.add(S.Measure(number=i + 1), s, e)
    objs = {}
    for n in spec["notes"]:
        kw = dict(id=n["id"], voice=n["voice"], staff=n["staff"])
        if n.get("rest"):
            o = S.Rest(**kw)
        elif n.get("grace"):
            o = S.GraceNote(n["grace"], step=n["step"], octave=n["oct"], alter=n["alter"], **kw)
        else:
            o = S.Note(step=n["step"], octave=n["oct"], alter=n["alter"], **kw)
        p.add(o, n["s"], n["e"])
        objs[n["id"]] = o
    for n in spec["notes"]:
        if n.get("tie_next"):
            a, b = objs[n["id"]], objs[n["tie_next"]]
            a.tie_next = b
            b.tie_prev = a
    return p, objs


def build_score(specs):
    import partitura.score as S

    parts = [build_part(s)[0] for s in specs]
    return S.Score(parts), parts


def spec_divs(spec):
    return spec["qd"][0][1]


# ----------------------------------------------------------------------------
# generators


def gen_layout(rng, quarter_aligned=False):
    """A metrical layout in half-quarter units (hq), shared by the parts of a score."""
    nseg = rng.choice([1, 1, 2, 2, 3])
    pickup = rng.random() < 0.4
    choices = [c for c in TS_CHOICES if not quarter_aligned or (c[0] * 8 // c[1]) % 2 == 0]
    t = 0
    measures, ts = [], []
    for si in range(nseg):
        b, bt = rng.choice(choices)
        mlen = b * 8 // bt
        ts.append([t, b, bt])
        for j in range(rng.randint(1, 3)):
            l = mlen
            if si == 0 and j == 0 and pickup and mlen > 2:
                l = rng.randrange(2, mlen, 2) if quarter_aligned else rng.randint(1, mlen - 1)
            measures.append([t, t + l])
            t += l
    r = rng.random()
    if r < 0.12:
        ts = []                      # no time signature at all (default 4/4 assumed by the maps)
    elif r < 0.2 and len(measures) > 1:
        shift = measures[1][0]       # first time signature only at the second measure
        ts = [x for x in ts if x[0] >= shift] or [[shift, ts[0][1], ts[0][2]]]
    starts = [m[0] for m in measures]
    ks = []
    r = rng.random()
    if r > 0.15:
        pts = sorted(rng.sample(starts, min(len(starts), rng.choice([1, 1, 2, 3]))))
        if rng.random() < 0.75:
            pts[0] = 0
        for x in sorted(set(pts)):
            ks.append([x, rng.randint(-7, 7), rng.choice(["major", "minor", None])])
    if rng.random() < 0.1:
        measures = []                # a part without measures
    elif rng.random() < 0.1:
        measures = measures[:1]
    return {"total": t, "measures": measures, "ts": ts, "ks": ks}


def gen_notes(rng, total, bar, prefix="n", n_max=14, rests=True):
    """Notes in division units on [0, total]; weights on the corner cases C05 names."""
    notes = []
    k = [0]

    def nid():
        k[0] += 1
        return "%s%d" % (prefix, k[0] - 1)

    def attrs():
        return {"step": rng.choice(STEPS), "alter": rng.choice([None, None, 0, 1, -1, 2, -2]),
                "oct": rng.randint(1, 7),
                "voice": rng.choice([None, 1, 1, 2, 3, 4]), "staff": rng.choice([None, None, 1, 2, 0])}

    if total <= 0:
        return notes
    r = rng.random()
    n_items = 0 if r < 0.06 else rng.randint(1, n_max)
    all_voiceless = rng.random() < 0.08
    for _ in range(n_items):
        kind = rng.random()
        s = rng.randrange(0, total)
        if kind < 0.40:      # plain note
            e = min(total, s + rng.randint(1, max(1, bar)))
            notes.append(dict(id=nid(), s=s, e=e, **attrs()))
        elif kind < 0.55:    # chord / duplicates at one onset (same pitch possible)
            a = attrs()
            e = min(total, s + rng.randint(1, max(1, bar)))
            notes.append(dict(id=nid(), s=s, e=e, **a))
            for _ in range(rng.randint(1, 2)):
                b = dict(a) if rng.random() < 0.4 else attrs()
                b["voice"] = rng.choice([None, 1, 2, 5])
                notes.append(dict(id=nid(), s=s, e=min(total, s + rng.randint(1, max(1, bar))), **b))
        elif kind < 0.80:    # tie chain, often across several measures
            a = attrs()
            nseg = rng.randint(2, 4)
            prev = None
            t = s
            for j in range(nseg):
                if t >= total:
                    break
                e = min(total, t + rng.randint(1, max(1, bar + bar // 2)))
                n = dict(id=nid(), s=t, e=e, **a)
                if rng.random() < 0.3:
                    n["voice"] = rng.choice([None, 1, 2])     # voices may differ along a chain; the head counts
                notes.append(n)
                if prev is not None:
                    prev["tie_next"] = n["id"]
                prev = n
                t = e
        else:                # grace note (zero duration)
            a = attrs()
            notes.append(dict(id=nid(), s=s, e=s, grace=rng.choice(GRACE_TYPES), **a))
            if rng.random() < 0.5 and s < total:
                notes.append(dict(id=nid(), s=s, e=min(total, s + rng.randint(1, max(1, bar))), **attrs()))
    if all_voiceless:
        for n in notes:
            n["voice"] = None
    if rests:
        for _ in range(rng.choice([0, 0, 1, 2, 4])):
            s = rng.randrange(0, total)
            e = min(total, s + rng.randint(1, max(1, bar)))
            notes.append(dict(id="r%d" % len(notes), s=s, e=e, rest=True,
                              voice=rng.choice([None, 1, 2]), staff=rng.choice([None, 1, 2])))
    rng.shuffle(notes)
    return notes


def instantiate(layout, divs, pid, notes, qd_change=None):
    """Layout (hq units) -> part specification in divisions.  qd_change = (hq position, new divs)."""
    def cv(h):
        if qd_change is None or h <= qd_change[0]:
            return h * divs // 2
        return qd_change[0] * divs // 2 + (h - qd_change[0]) * qd_change[1] // 2

    qd = [[0, divs]]
    if qd_change is not None:
        qd.append([cv(qd_change[0]), qd_change[1]])
    return {"id": pid, "qd": qd,
            "ts": [[cv(t), b, bt] for t, b, bt in layout["ts"]],
            "ks": [[cv(t), f, m] for t, f, m in layout["ks"]],
            "measures": [[cv(s), cv(e)] for s, e in layout["measures"]],
            "notes": notes, "total": cv(layout["total"])}


def gen_part_spec(rng, pid="P1", allow_qd_change=True):
    aligned = rng.random() < 0.35
    layout = gen_layout(rng, quarter_aligned=aligned)
    divs = rng.choice([1, 2, 3, 4, 5, 6, 12] if aligned else [2, 4, 6, 8, 10, 12, 16, 24])
    qd_change = None
    if allow_qd_change and rng.random() < 0.2 and len(layout["measures"]) >= 2:
        m = rng.choice(layout["measures"][1:])
        qd_change = (m[0], rng.choice([2, 4, 6, 10, 12]))
        if qd_change[1] == divs:
            qd_change = (m[0], divs + 2)
    spec = instantiate(layout, divs, pid, [], qd_change)
    bar = max(1, 2 * divs)
    spec["notes"] = gen_notes(rng, spec["total"], bar)
    return spec


DIVS_SETS = [(4, 6), (4, 6, 10), (6, 8), (10, 12), (2, 3), (3, 4, 5), (2, 2), (4, 6, 4), (12, 8, 6), (1, 2), (6, 10, 15)]


def gen_score_specs(rng):
    """2-4 parts over one layout, divisions whose lcm exceeds all of them; often one part without notes."""
    ds = list(rng.choice(DIVS_SETS))
    aligned = any(d % 2 for d in ds)
    layout = gen_layout(rng, quarter_aligned=aligned)
    if rng.random() < 0.08:
        ds = ds[:1]                                  # single-part score: ids never prefixed
    empty_at = None
    if rng.random() < 0.5 and len(ds) >= 2:
        empty_at = rng.randrange(0, len(ds) + 1)
        ds.insert(empty_at, rng.choice(ds))          # its divisions are one of the others' (lcm unaffected)
    specs = []
    for i, d in enumerate(ds):
        spec = instantiate(layout, d, "part%d" % i, [])
        if i != empty_at:
            ns = gen_notes(rng, spec["total"], max(1, 2 * d), prefix="n", n_max=7, rests=rng.random() < 0.3)
            if not [n for n in ns if not n.get("rest")] and rng.random() < 0.7:
                ns.append(dict(id="nx", s=0, e=min(spec["total"], d), step="C", alter=None, oct=4, voice=1, staff=1))
            spec["notes"] = ns
        specs.append(spec)
    return specs


def option_sets(rng, names, n_random, full=False, mp_ok=True):
    """A covering sample of the 2^k include_* combinations (or all of them)."""
    k = len(names)
    if full:
        combos = list(itertools.product([False, True], repeat=k))
    else:
        combos = {tuple([False] * k), tuple([True] * k)}
        for i in range(k):
            combos.add(tuple(j == i for j in range(k)))
            combos.add(tuple(j != i for j in range(k)))
        combos = sorted(combos)
        combos = rng.sample(combos, min(len(combos), 6)) + [tuple(rng.random() < 0.5 for _ in range(k)) for _ in range(n_random)]
    out = []
    for c in combos:
        o = dict(zip(names, c))
        if not mp_ok:
            o["include_metrical_position"] = False
        if o not in out:
            out.append(o)
    return out


# ----------------------------------------------------------------------------
# expected rows (direct oracle), computed from the specification


def spec_heads(spec, rests=False):
    """[(note, tied duration)] for the objects that must produce a row."""
    by_id = {n["id"]: n for n in spec["notes"]}
    if rests:
        return [(n, n["e"] - n["s"]) for n in spec["notes"] if n.get("rest")]
    targets = {n["tie_next"] for n in spec["notes"] if n.get("tie_next")}
    out = []
    for n in spec["notes"]:
        if n.get("rest") or n["id"] in targets:
            continue
        d, m, guard = 0, n, 0
        while m is not None:
            d += m["e"] - m["s"]
            m = by_id[m["tie_next"]] if m.get("tie_next") else None
            guard += 1
            assert guard < 10000
        out.append((n, d))
    return out


def midi_pitch(n):
    return 0 if n.get("rest") else 12 * (n["oct"] + 1) + BASE[n["step"]] + (n["alter"] or 0)


def tabulate_maps(part, times, want):
    """The part's own maps at the given times (reference for the optional columns).
    Returns dict name -> {t: value} ; a map that raises is reported under 'errors'."""
    out = {"errors": {}}
    ts = sorted(set(times))
    for name, attr in (("ks", "key_signature_map"), ("ts", "time_signature_map"), ("mp", "metrical_position_map")):
        if name not in want:
            continue
        try:
            f = getattr(part, attr)
            tab = {}
            for t in ts:
                v = f(t)
                tab[t] = tuple(int(x) for x in v)
                if any(float(x) != int(x) for x in v):
                    raise ValueError("non-integer map value %r" % (v,))
            out[name] = tab
        except Exception as e:  # the map itself fails: not C05's subject (C02/C10)
            out["errors"][name] = "%s: %s" % (type(e).__name__, e)
    return out


def time_maps(part, times):
    ts = sorted(set(times))
    if not ts:
        return {}, {}
    qm = part.quarter_map(ts)
    bm = part.beat_map(ts)
    return ({t: float(v) for t, v in zip(ts, qm)}, {t: float(v) for t, v in zip(ts, bm)})


def expected_rows(spec, part, opts, rests=False):
    """Expected table as a list of dicts (unordered) + the tabulated maps."""
    heads = spec_heads(spec, rests)
    raw_voices = [(-1 if n["voice"] is None else n["voice"]) for n, _ in heads]
    mv = max(raw_voices) if raw_voices else 0
    want = set()
    if opts.get("include_key_signature"):
        want.add("ks")
    if opts.get("include_time_signature"):
        want.add("ts")
    if opts.get("include_metrical_position"):
        want.add("mp")
    maps = tabulate_maps(part, [n["s"] for n, _ in heads], want)
    times = [n["s"] for n, _ in heads] + [n["s"] + d for n, d in heads]
    qm, bm = time_maps(part, times)
    rows = []
    for (n, d), rv in zip(heads, raw_voices):
        r = {"onset_div": n["s"], "duration_div": d, "pitch": midi_pitch(n),
             "voice": (mv + 1 if rv == -1 else rv), "voice_stated": n["voice"] is not None, "id": n["id"],
             "onset_quarter": qm[n["s"]], "duration_quarter": qm[n["s"] + d] - qm[n["s"]],
             "onset_beat": bm[n["s"]], "duration_beat": bm[n["s"] + d] - bm[n["s"]]}
        if opts.get("include_pitch_spelling"):
            if rests:
                r.update(step="0", alter=0, octave=0)
            else:
                r.update(step=n["step"], alter=n["alter"] or 0, octave=n["oct"])
        if opts.get("include_grace_notes"):
            r.update(is_grace=1 if n.get("grace") else 0, grace_type=n.get("grace") or "")
        if "ks" in maps:
            r.update(ks_fifths=maps["ks"][n["s"]][0], ks_mode=maps["ks"][n["s"]][1])
        if "ts" in maps:
            r.update(ts_beats=maps["ts"][n["s"]][0], ts_beat_type=maps["ts"][n["s"]][1], ts_mus_beats=maps["ts"][n["s"]][2])
        if "mp" in maps:
            rel, tot = maps["mp"][n["s"]]
            r.update(is_downbeat=1 if rel == 0 else 0, rel_onset_div=rel, tot_measure_div=tot)
        if opts.get("include_staff"):
            r.update(staff=n["staff"] or 0)
        if opts.get("include_divs_per_quarter"):
            r.update(divs_pq=spec_divs(spec))
        rows.append(r)
    return rows, maps


INT_COLS = ["onset_div", "duration_div", "pitch", "voice", "alter", "octave", "is_grace", "ks_fifths", "ks_mode",
            "ts_beats", "ts_beat_type", "ts_mus_beats", "is_downbeat", "rel_onset_div", "tot_measure_div",
            "staff", "divs_pq"]
STR_COLS = ["id", "step", "grace_type"]
F_COLS = ["onset_quarter", "duration_quarter", "onset_beat", "duration_beat"]


def array_rows(arr):
    """Structured array -> list of plain dicts."""
    names = arr.dtype.names
    out = []
    for rec in arr:
        d = {}
        for nm in names:
            v = rec[nm]
            if nm in STR_COLS:
                d[nm] = str(v)
            elif nm in F_COLS:
                d[nm] = float(v)
            else:
                d[nm] = int(v)
        out.append(d)
    return out


def f4_close(got, exp):
    return abs(got - exp) <= abs(exp) * F4_REL + 2.0 ** -40


def compare_table(got_rows, exp_rows, names):
    """Property check on one table.  Returns None or a description of the first discrepancy."""
    exp_cols = [c for c in INT_COLS + STR_COLS + F_COLS if exp_rows and c in exp_rows[0]]
    if exp_rows:
        missing = [c for c in exp_cols if c not in names]
        if missing:
            return "columns missing from the array: %s" % missing
    else:
        missing = [c for c in ["onset_div", "duration_div", "pitch", "voice", "id"] if c not in names]
        if missing:
            return "columns missing from the (empty) array: %s" % missing
    if len(got_rows) != len(exp_rows):
        return "row count %d, expected %d (one row per sounding note / tie chain)" % (len(got_rows), len(exp_rows))
    # order: onset, then pitch
    for a, b in zip(got_rows, got_rows[1:]):
        if (a["onset_div"], a["pitch"]) > (b["onset_div"], b["pitch"]):
            return "rows not ordered by (onset, pitch): %r before %r" % ((a["onset_div"], a["pitch"], a["id"]), (b["onset_div"], b["pitch"], b["id"]))
    # multiset comparison, matched through the id (ids are unique in generated parts)
    exp_by_id = {}
    for r in exp_rows:
        exp_by_id.setdefault(r["id"], []).append(r)
    for g in got_rows:
        cands = exp_by_id.get(g["id"])
        if not cands:
            return "row with id %r does not belong to a sounding note of the score (or appears twice)" % g["id"]
        e = cands.pop()
        for c in exp_cols:
            if c == "voice_stated":
                continue
            if c in F_COLS:
                if not f4_close(g[c], e[c]):
                    return "row %r: %s = %r, the part's map gives %r" % (g["id"], c, g[c], e[c])
            elif g[c] != e[c]:
                if c == "voice" and not e.get("voice_stated", True):
                    return ("row %r: voice = %r for a note without voice; the rule (one number above every stated voice "
                            "of the array) gives %r" % (g["id"], g[c], e[c]))
                return "row %r: %s = %r, the score states %r" % (g["id"], c, g[c], e[c])
    return None


def call_note_array(part, opts, rests=False):
    """Run the implementation; returns ('ok', array) or ('exc', ExceptionInstance)."""
    try:
        if rests:
            return "ok", part.rest_array(**opts)
        return "ok", part.note_array(**opts)
    except Exception as e:  # classified by the caller
        return "exc", e


def is_declared_multidiv_rejection(spec, opts, exc):
    return (len(spec["qd"]) > 1 and opts.get("include_divs_per_quarter")
            and "multiple divisions is not supported" in str(exc.args[0] if exc.args else ""))


def check_part(spec, opts, rests=False):
    """Direct oracle for one part and one option set.
    Returns (status, message, rows, maps): status in ok | rejected | map_unavailable | FAIL."""
    part, _ = build_part(spec)
    exp, maps = expected_rows(spec, part, opts, rests)
    if maps["errors"]:
        return "map_unavailable", str(maps["errors"]), None, maps
    st, res = call_note_array(part, opts, rests)
    if st == "exc":
        if is_declared_multidiv_rejection(spec, opts, res):
            return "rejected", "declared: several divisions with include_divs_per_quarter", None, maps
        return "FAIL", "%s raised %s: %s" % ("rest_array" if rests else "note_array", type(res).__name__, res), None, maps
    rows = array_rows(res)
    msg = compare_table(rows, exp, res.dtype.names)
    if msg:
        return "FAIL", msg, rows, maps
    return "ok", "", rows, maps


def shrink_spec(spec, still_fails):
    """ddmin over the note list (tie links to removed notes are dropped)."""
    def sub(notes):
        ids = {n["id"] for n in notes}
        out = []
        for n in notes:
            m = dict(n)
            if m.get("tie_next") and m["tie_next"] not in ids:
                m.pop("tie_next")
            out.append(m)
        s = dict(spec)
        s["notes"] = out
        return s

    def fails(notes):
        try:
            return still_fails(sub(notes))
        except Exception:
            return False
    if len(spec["notes"]) < 2:
        return spec
    return sub(core.ddmin(spec["notes"], fails))


# ----------------------------------------------------------------------------
# Coq printers


def c_note(n, oid, oid_of):
    return ("(mkNote %s %s %s %s %s %s %s %s %s %s %s %s %s)" % (
        cz(oid), cstr(n["id"]), cz(n["s"]), cz(n["e"]),
        copt(oid_of.get(("prev", n["id"])), cz), copt(oid_of.get(("next", n["id"])), cz),
        cstr(n.get("step") or "C"), copt(n.get("alter"), cz), cz(n.get("oct") or 0),
        copt(n["voice"], cz), copt(n["staff"], cz), copt(n.get("grace"), cstr), cbool(bool(n.get("rest")))))


def c_notes(spec):
    oid = {n["id"]: 100 + i for i, n in enumerate(spec["notes"])}
    links = {}
    for n in spec["notes"]:
        if n.get("tie_next"):
            links[("next", n["id"])] = oid[n["tie_next"]]
            links[("prev", n["tie_next"])] = oid[n["id"]]
    return "(%s : list note)" % clist([c_note(n, oid[n["id"]], links) for n in spec["notes"]])


def c_opts(o):
    return "(mkOpts %s)" % " ".join(cbool(bool(o.get(k))) for k in OPT_NAMES)


def c_obs(r, names):
    def grp(cols, pr):
        if all(c in names for c in cols):
            return "(Some %s)" % pr([r[c] for c in cols])
        return "None"
    return ctuple([
        cz(r["onset_div"]), cz(r["duration_div"]), cz(r["pitch"]), cz(r["voice"]), cstr(r["id"]),
        grp(["step", "alter", "octave"], lambda v: ctuple([cstr(v[0]), cz(v[1]), cz(v[2])])),
        grp(["is_grace", "grace_type"], lambda v: ctuple([cbool(v[0] != 0), cstr(v[1])])),
        grp(["ks_fifths", "ks_mode"], lambda v: ctuple([cz(v[0]), cz(v[1])])),
        grp(["ts_beats", "ts_beat_type", "ts_mus_beats"], lambda v: ctuple([cz(x) for x in v])),
        grp(["is_downbeat", "rel_onset_div", "tot_measure_div"], lambda v: ctuple([cz(x) for x in v])),
        grp(["staff"], lambda v: cz(v[0])),
        grp(["divs_pq"], lambda v: cz(v[0])),
    ])


def c_amap(tab, width):
    ty = "Z * (Z * Z)" if width == 2 else "Z * (Z * Z * Z)"
    return "(%s : list (%s))" % (clist([ctuple([cz(t), ctuple([cz(x) for x in v])]) for t, v in sorted(tab.items())]), ty)


def c_maps(maps):
    return "(maps_of %s %s %s)" % (c_amap(maps.get("ks", {}), 2), c_amap(maps.get("ts", {}), 3), c_amap(maps.get("mp", {}), 2))


def c_qmap(tab):
    return "(%s : list (Z * Q))" % clist([ctuple([cz(t), core.cfloat_q(v)]) for t, v in sorted(tab.items())])


def all_maps(part, spec, rests=False):
    heads = spec_heads(spec, rests)
    return tabulate_maps(part, [n["s"] for n, _ in heads], {"ks", "ts", "mp"})


# ----------------------------------------------------------------------------
# stages


def probe_metrical_position():
    """D13 (owned by C02/C10): metrical_position_map used the removed np.row_stack.  Runtime probe:
    while the map cannot be built for an ordinary two-measure part, include_metrical_position is left
    out of the generated option sets (and that is recorded in the evidence)."""
    spec = {"id": "probe", "qd": [[0, 4]], "ts": [[0, 4, 4]], "ks": [], "measures": [[0, 16], [16, 32]],
            "notes": [dict(id="n0", s=4, e=8, step="C", alter=None, oct=4, voice=1, staff=1)]}
    part, _ = build_part(spec)
    try:
        v = part.metrical_position_map(4)
        return tuple(int(x) for x in v) == (4, 16)
    except Exception:
        return False


def stage_parts(ctx, n_parts, n_random_opts, full_every, mp_ok, coq_per_part):
    rng = ctx.rng
    coq_terms, coq_cases = [], []
    tc_terms, tc_cases = [], []
    seen_combos = set()
    for pi in range(n_parts):
        spec = gen_part_spec(rng, pid="P%d" % pi)
        full = full_every and (pi % full_every == 0)
        osets = option_sets(rng, OPT_NAMES, n_random_opts, full=full, mp_ok=mp_ok)
        feats = part_features(spec)
        for f in feats:
            ctx.count("part:" + f)
        coq_pick = set(rng.sample(range(len(osets)), min(coq_per_part, len(osets))))
        for oi, opts in enumerate(osets):
            status, msg, rows, maps = check_part(spec, opts)
            ctx.evaluations += 1
            ctx.count("note_array:" + status)
            seen_combos.add(tuple(opts[k] for k in OPT_NAMES))
            if status == "FAIL":
                small = shrink_spec(spec, lambda s: check_part(s, opts)[0] == "FAIL")
                m2 = check_part(small, opts)[1]
                ctx.violation("Part.note_array(%s): %s" % (fmt_opts(opts), m2 or msg),
                              {"kind": "part", "spec": small, "opts": opts, "rests": False, "message": m2 or msg})
                continue
            if status != "ok":
                continue
            if feats:
                ctx.nontrivial(("part", spec, opts))
            if oi in coq_pick:
                part, _ = build_part(spec)
                am = all_maps(part, spec)
                if am["errors"]:
                    continue
                _, arr = call_note_array(part, opts)
                names = arr.dtype.names
                obs = "(%s : list obs)" % clist([c_obs(r, names) for r in rows])
                coq_terms.append("(%s, %s, %s, %s, false, %s)" % (c_notes(spec), c_maps(am), cz(spec_divs(spec)), c_opts(opts), obs))
                coq_cases.append({"kind": "part", "spec": spec, "opts": opts, "rests": False})
                if len(tc_terms) < len(coq_terms) // 3 + 1 and rows:
                    heads = spec_heads(spec)
                    times = [n["s"] for n, _ in heads] + [n["s"] + d for n, d in heads]
                    qm, bm = time_maps(part, times)
                    tcs = "(%s : list (Z * Z * (Q * Q * Q * Q)))" % clist([ctuple([cz(r["onset_div"]), cz(r["duration_div"]),
                                         ctuple([core.cfloat_q(r[c]) for c in ("onset_quarter", "duration_quarter", "onset_beat", "duration_beat")])])
                                 for r in rows])
                    tc_terms.append("(%s, (maps_of_q %s %s [] [] []), %s, false, %s)" % (c_notes(spec), c_qmap(qm), c_qmap(bm), cz(spec_divs(spec)), tcs))
                    tc_cases.append({"kind": "part", "spec": spec, "opts": opts, "rests": False})
        if pi < 2:
            ctx.sample({"part_spec": spec, "options_tried": len(osets)})
        # the rest array of the same part
        for opts in option_sets(rng, REST_OPT_NAMES, 1, full=bool(full and pi % (2 * full_every) == 0), mp_ok=mp_ok)[: (64 if full else 4)]:
            status, msg, rows, maps = check_part(spec, opts, rests=True)
            ctx.evaluations += 1
            ctx.count("rest_array:" + status)
            if status == "FAIL":
                small = shrink_spec(spec, lambda s: check_part(s, opts, rests=True)[0] == "FAIL")
                m2 = check_part(small, opts, rests=True)[1]
                ctx.violation("Part.rest_array(%s): %s" % (fmt_opts(opts), m2 or msg),
                              {"kind": "part", "spec": small, "opts": opts, "rests": True, "message": m2 or msg})
                continue
            if status == "ok" and rows and rng.random() < 0.5:
                part, _ = build_part(spec)
                am = all_maps(part, spec, rests=True)
                if am["errors"]:
                    continue
                _, arr = call_note_array(part, opts, rests=True)
                obs = "(%s : list obs)" % clist([c_obs(r, arr.dtype.names) for r in rows])
                o7 = dict(opts)
                o7["include_divs_per_quarter"] = False
                coq_terms.append("(%s, %s, %s, %s, true, %s)" % (c_notes(spec), c_maps(am), cz(spec_divs(spec)), c_opts(o7), obs))
                coq_cases.append({"kind": "part", "spec": spec, "opts": opts, "rests": True})
                ctx.nontrivial(("rest", spec, opts))
    ctx.count("option_combinations_seen", len(seen_combos))
    ctx.extra["option_combinations_seen"] = len(seen_combos)
    run_coq(ctx, "part", coq_terms, coq_cases,
            "fun c => match c with (ns, mp, d, o, rests, impl) => part_case_ok ns mp d o rests impl end",
            "model note_array/rest_array = Part.note_array/Part.rest_array (integer and string columns, row multiset, order)")
    run_coq(ctx, "timecols", tc_terms, tc_cases,
            "fun c => match c with (ns, mp, d, rests, impl) => time_cols_ok ns mp d rests impl end",
            "model quarter/beat columns (part maps at onset and onset+duration) = float32 columns within 2^-21")


def part_features(spec):
    f = []
    ns = spec["notes"]
    if any(n.get("tie_next") for n in ns):
        f.append("tie_chain")
        by_id = {n["id"]: n for n in ns}
        for n in ns:
            if n.get("tie_next"):
                m = by_id[n["tie_next"]]
                for s, e in spec["measures"]:
                    if n["s"] < e <= m["s"] or (n["s"] < e < m["e"]):
                        f.append("tie_over_barline")
                        break
                else:
                    continue
                break
    if any(n.get("grace") for n in ns):
        f.append("grace")
    if any(n["voice"] is None for n in ns if not n.get("rest")):
        f.append("missing_voice")
    if any(n["staff"] is None for n in ns if not n.get("rest")):
        f.append("missing_staff")
    if len(spec["qd"]) > 1:
        f.append("division_change")
    if len(spec["ts"]) > 1:
        f.append("ts_change")
    if len(spec["ks"]) > 1:
        f.append("ks_change")
    if spec["measures"] and spec["ts"] and spec["ts"][0][0] == 0:
        b, bt = spec["ts"][0][1:]
        full = spec["qd"][0][1] * 4 * b // bt
        if spec["measures"][0][1] - spec["measures"][0][0] < full:
            f.append("pickup")
    if not [n for n in ns if not n.get("rest")]:
        f.append("no_notes")
    keys = [(n["s"], midi_pitch(n)) for n in ns if not n.get("rest")]
    if len(keys) != len(set(keys)):
        f.append("equal_onset_and_pitch")
    return f


def fmt_opts(o):
    return ", ".join("%s=True" % k for k in sorted(o) if o[k]) or "defaults"


def run_coq(ctx, name, terms, cases, checker, what):
    if not terms:
        ctx.obligation("correspondence: %s on 0 cases" % what, False, "no case generated")
        return
    try:
        failing = ctx.coq_failing(name, "From PV Require Import Lib.Base Model.C05.\nFrom Coq Require Import QArith.", "", terms, checker, shard=40)
    except RuntimeError as e:
        ctx.obligation("correspondence: %s" % what, False, str(e)[-1500:])
        ctx.violation("correspondence machinery failed for %s: %s" % (name, str(e)[-800:]), {"stage": name}, no_input=True)
        return
    ctx.obligation("correspondence: %s on %d cases" % (what, len(terms)), not failing, failing[:5])
    for i in failing[:5]:
        c = dict(cases[i])
        c["message"] = "Coq model and implementation disagree (%s)" % what
        ctx.violation("model/implementation disagree: %s" % what, c)


# ---- scores


def id_prefixes(n, uniq, via):
    """Prefix of the ids of part i for the entry point `via` (flat list / score / one PartGroup holding
    all parts / the first two parts inside a PartGroup followed by the others)."""
    if not uniq:
        return [""] * n
    if via == "nested" and n >= 3:
        return ["P00_P00_", "P00_P01_"] + ["P%02d_" % (i - 1) for i in range(2, n)]
    return ["P%02d_" % i if n > 1 else "" for i in range(n)]


def expected_score_rows(specs, parts, opts, uniq, via="score"):
    """Union of the part tables rescaled to the lcm; returns (rows, L_nonempty, L_all, errors)."""
    per = []
    errs = {}
    o = dict(opts)
    o["include_divs_per_quarter"] = True   # Score.note_array always carries divs_pq
    for spec, part in zip(specs, parts):
        rows, maps = expected_rows(spec, part, o)
        errs.update(maps["errors"])
        per.append(rows)
    ds = [spec_divs(s) for s, r in zip(specs, per) if r]
    L = 1
    for d in ds:
        L = L * d // math.gcd(L, d)
    out = []
    pref = id_prefixes(len(specs), uniq, via)
    for i, (spec, rows) in enumerate(zip(specs, per)):
        d = spec_divs(spec)
        for r in rows:
            r = dict(r)
            r["onset_div"] = r["onset_div"] * L // d
            r["duration_div"] = r["duration_div"] * L // d
            r["divs_pq"] = L
            r["id"] = pref[i] + r["id"]
            r["_part"] = i
            out.append(r)
    return out, L, errs


def check_score(specs, opts, uniq, via="score"):
    import partitura.utils.music as M
    import partitura.score as S
    sc, parts = build_score(specs)
    exp, L, errs = expected_score_rows(specs, parts, opts, uniq, via)
    if errs:
        return "map_unavailable", str(errs), None, None
    try:
        if via == "score":
            arr = sc.note_array(unique_id_per_part=uniq, **opts)
        elif via == "ensure_score":
            arr = M.ensure_notearray(sc, unique_id_per_part=uniq, **opts)
        elif via == "partgroup":
            g = S.PartGroup(group_name="g")
            g.children = list(parts)
            arr = g.note_array(unique_id_per_part=uniq, **opts) if len(parts) % 2 else M.ensure_notearray(g, unique_id_per_part=uniq, **opts)
        elif via == "nested" and len(parts) >= 3:
            g = S.PartGroup(group_name="g")
            g.children = list(parts[:2])
            arr = M.note_array_from_part_list([g] + list(parts[2:]), unique_id_per_part=uniq, **opts)
        else:
            arr = M.ensure_notearray(parts, unique_id_per_part=uniq, **opts)
    except Exception as e:
        return "FAIL", "Score.note_array raised %s: %s" % (type(e).__name__, e), None, None
    rows = array_rows(arr)
    if len(set(r["id"] for r in exp)) != len(exp):
        # ids of different parts may coincide: make the matching key unique on both sides by position in part
        msg = compare_table_noid(rows, exp, arr.dtype.names)
    else:
        msg = compare_table(rows, exp, arr.dtype.names)
    if msg:
        return "FAIL", msg, rows, arr.dtype.names
    # quarter positions are preserved by the rescaling: onset_div / divs_pq == onset / d  (exact)
    return "ok", "", rows, arr.dtype.names


def compare_table_noid(got_rows, exp_rows, names):
    """Same as compare_table but rows are matched on the whole integer/string content
    (ids are not unique across parts when unique_id_per_part=False)."""
    if len(got_rows) != len(exp_rows):
        return "row count %d, expected %d" % (len(got_rows), len(exp_rows))
    for a, b in zip(got_rows, got_rows[1:]):
        if (a["onset_div"], a["pitch"]) > (b["onset_div"], b["pitch"]):
            return "rows not ordered by (onset, pitch)"
    cols = [c for c in INT_COLS + STR_COLS if exp_rows and c in exp_rows[0]]
    missing = [c for c in cols if c not in names]
    if missing:
        return "columns missing from the array: %s" % missing
    key = lambda r: tuple(r[c] for c in cols)
    pool = {}
    for e in exp_rows:
        pool.setdefault(key(e), []).append(e)
    for g in got_rows:
        c = pool.get(key(g))
        if not c:
            return "row %r is not the (rescaled) row of any sounding note" % (key(g),)
        e = c.pop()
        for fc in F_COLS:
            if not f4_close(g[fc], e[fc]):
                return "row %r: %s = %r, the part's map gives %r" % (g["id"], fc, g[fc], e[fc])
    return None


def stage_scores(ctx, n_scores, mp_ok, full_every):
    rng = ctx.rng
    names7 = OPT_NAMES
    terms, cases = [], []
    for si in range(n_scores):
        specs = gen_score_specs(rng)
        ds = [spec_divs(s) for s in specs]
        nonempty = [spec_divs(s) for s in specs if [n for n in s["notes"] if not n.get("rest")]]
        L = 1
        for d in nonempty:
            L = L * d // math.gcd(L, d)
        ctx.count("score:parts=%d" % len(specs))
        if nonempty and L > max(nonempty):
            ctx.count("score:lcm_exceeds_all")
        empties = [i for i, s in enumerate(specs) if not [n for n in s["notes"] if not n.get("rest")]]
        if empties and len(nonempty) >= 1:
            ctx.count("score:has_part_without_notes")
            if empties[0] < len(specs) - 1:
                ctx.count("score:part_without_notes_not_last")
        full = full_every and si % full_every == 0
        osets = option_sets(rng, names7, 2, full=full, mp_ok=mp_ok)
        if not full:
            osets = osets[:5]
        for oi, opts in enumerate(osets):
            uniq = rng.random() < 0.6 if not full else (oi % 2 == 0)
            via = rng.choice(["score", "score", "ensure_score", "ensure_list", "partgroup", "nested"])
            ctx.count("score:via=" + via)
            status, msg, rows, names = check_score(specs, opts, uniq, via)
            ctx.evaluations += 1
            ctx.count("score_note_array:" + status)
            if status == "FAIL":
                small = shrink_score(specs, lambda ss: check_score(ss, opts, uniq, via)[0] == "FAIL")
                m2 = check_score(small, opts, uniq, via)[1]
                ctx.violation("Score.note_array(unique_id_per_part=%s, %s) [%s]: %s" % (uniq, fmt_opts(opts), via, m2 or msg),
                              {"kind": "score", "specs": small, "opts": opts, "uniq": uniq, "via": via, "message": m2 or msg})
                continue
            if status != "ok":
                continue
            if len(set(ds)) > 1 or empties:
                ctx.nontrivial(("score", specs, opts, uniq))
            if oi < 2 and not (via == "nested" and len(specs) >= 3):
                sc, parts = build_score(specs)
                pterms = []
                bad = False
                for spec, part in zip(specs, parts):
                    am = all_maps(part, spec)
                    if am["errors"]:
                        bad = True
                    pterms.append(ctuple([c_notes(spec), c_maps(am), cz(spec_divs(spec))]))
                if bad:
                    continue
                o = dict(opts)
                o["include_divs_per_quarter"] = True
                obs = "(%s : list obs)" % clist([c_obs(r, names) for r in rows])
                terms.append("((%s : list (list note * maps * Z)), %s, %s, %s)" % (clist(pterms), cbool(uniq), c_opts(o), obs))
                cases.append({"kind": "score", "specs": specs, "opts": opts, "uniq": uniq, "via": via})
        if si < 1:
            ctx.sample({"score_specs": specs})
        # rest arrays of a part list: union of the part rest arrays (no crash, same rows in quarters)
        if si % 3 == 0:
            msg = check_rest_list(specs, rng.random() < 0.5)
            ctx.evaluations += 1
            ctx.count("rest_array_from_part_list:" + ("ok" if not msg else "FAIL"))
            if msg:
                ctx.violation("rest_array_from_part_list: " + msg, {"kind": "restlist", "specs": specs, "message": msg})
    run_coq(ctx, "score", terms, cases,
            "fun c => match c with (parts, uniq, o, impl) => score_case_ok parts uniq o impl end",
            "model score_array (lcm rescaling, multipliers per part, P{i:02d}_ prefix, two-pass sort) = Score.note_array / ensure_notearray")


def check_rest_list(specs, uniq):
    import partitura.utils.music as M
    sc, parts = build_score(specs)
    try:
        arr = M.rest_array_from_part_list(parts, unique_id_per_part=uniq, include_staff=True)
    except Exception as e:
        return "raised %s: %s" % (type(e).__name__, e)
    got = sorted((str(r["id"]), int(r["staff"]), int(r["voice"])) for r in arr)
    exp = []
    for i, (spec, part) in enumerate(zip(specs, parts)):
        rows, _ = expected_rows(spec, part, {"include_staff": True}, rests=True)
        for r in rows:
            exp.append((("P%02d_" % i if uniq else "") + r["id"], r["staff"], r["voice"]))
    if got != sorted(exp):
        return "rows %r, expected the union of the part rest arrays %r" % (got[:6], sorted(exp)[:6])
    return None


def shrink_score(specs, still_fails):
    specs = [dict(s) for s in specs]
    for i in range(len(specs)):
        def f(s, i=i):
            ss = list(specs)
            ss[i] = s
            return still_fails(ss)
        try:
            specs[i] = shrink_spec(specs[i], f)
        except Exception:
            pass
    return specs


# ---- inverse direction


DENS = [1, 1, 2, 2, 3, 4, 4, 6, 8, 12, 16, 5]


def gen_inverse_case(rng):
    kind = rng.choice(["beat", "beat", "div", "both"])
    n = rng.randint(1, 10)
    rows = []
    if kind == "beat":
        dens = [rng.choice(DENS) for _ in range(rng.choice([1, 2, 2, 3]))]
        t = Fraction(0)
        for i in range(n):
            if rng.random() < 0.7:
                t += Fraction(rng.randint(0, 8), rng.choice(dens))
            on = Fraction(rng.randint(0, 24), rng.choice(dens)) if rng.random() < 0.3 else t
            du = Fraction(rng.randint(1, 12), rng.choice(dens))
            rows.append([on, du, rng.randint(36, 90)])
        # the corner D10 names: an onset whose denominator no duration has
        if rng.random() < 0.4:
            d = rng.choice([3, 5, 6, 12, 16])
            rows.append([Fraction(rng.randint(1, 4 * d), d), Fraction(rng.randint(1, 4), rng.choice([1, 2])), rng.randint(36, 90)])
        divs = None
    else:
        divs = rng.choice([1, 2, 3, 4, 6, 8, 10, 12, 16, 24, 480])
        t = 0
        for i in range(n):
            if rng.random() < 0.7:
                t += rng.randint(0, 2 * divs)
            on = rng.randint(0, 8 * divs) if rng.random() < 0.3 else t
            du = rng.randint(1, 3 * divs)
            rows.append([Fraction(on, divs), Fraction(du, divs), rng.randint(36, 90)])
    with_voice = rng.random() < 0.6
    voices = [rng.randint(1, 3) for _ in rows] if with_voice else None
    if with_voice and rng.random() < 0.3:
        # a zero-duration (grace) row: at the onset and in the voice of a main note -- sanitize_part
        # deliberately removes grace notes without a main note; arrays without 'voice' carry none (C17)
        i = rng.randrange(len(rows))
        rows.append([rows[i][0], Fraction(0), rng.randint(36, 90)])
        voices.append(voices[i])
    case = {"kind": kind, "divs": divs, "rows": [[str(a), str(b), p] for a, b, p in rows],
            "voice": voices,
            "estimate_time": rng.random() < 0.4, "f8": rng.random() < 0.3,
            "with_id": rng.random() < 0.3}
    return case


def build_inverse_array(case):
    import numpy as np
    rows = [(Fraction(a), Fraction(b), p) for a, b, p in case["rows"]]
    ft = "f8" if case["f8"] else "f4"
    fields, cols = [], []
    if case["kind"] in ("beat", "both"):
        fields += [("onset_beat", ft), ("duration_beat", ft)]
        cols += [[float(a) for a, b, p in rows], [float(b) for a, b, p in rows]]
    if case["kind"] in ("div", "both"):
        d = case["divs"]
        fields += [("onset_div", "i4"), ("duration_div", "i4")]
        cols += [[int(a * d) for a, b, p in rows], [int(b * d) for a, b, p in rows]]
    fields += [("pitch", "i4")]
    cols += [[p for a, b, p in rows]]
    if case["voice"]:
        fields += [("voice", "i4")]
        cols += [case["voice"]]
    if case["with_id"]:
        fields += [("id", "U256")]
        cols += [["x%d" % i for i in range(len(rows))]]
    return np.array(list(zip(*cols)), dtype=fields)


def check_inverse(case):
    """note_array_to_score then note_array: same onsets, durations, pitches."""
    import numpy as np
    from partitura.musicanalysis.note_array_to_score import note_array_to_score
    arr = build_inverse_array(case)
    rows = [(Fraction(a), Fraction(b), p) for a, b, p in case["rows"]]
    kw = {}
    if case["kind"] == "div":
        kw["divs"] = case["divs"]
    if case["estimate_time"]:
        kw["estimate_time"] = True
    try:
        sc = note_array_to_score(arr.copy(), **kw)
        out = sc.note_array()
    except Exception as e:
        return "raised %s: %s" % (type(e).__name__, e), None
    if len(out) != len(rows):
        return "round trip returned %d rows for %d input rows" % (len(out), len(rows)), None
    got = sorted((Fraction(int(r["onset_div"]), int(r["divs_pq"])), int(r["pitch"]), Fraction(int(r["duration_div"]), int(r["divs_pq"]))) for r in out)
    exp = sorted((a, p, b) for a, b, p in rows)
    if got != exp:
        i = next(i for i in range(len(exp)) if got[i] != exp[i])
        return ("after note_array_to_score + note_array the %d-th row (onset, pitch, duration in quarters) is %s, the input array has %s"
                % (i, tuple(str(x) for x in got[i]), tuple(str(x) for x in exp[i]))), None
    if case["kind"] in ("div", "both"):
        d = case["divs"]
        if sorted((int(r["onset_div"]), int(r["pitch"]), int(r["duration_div"])) for r in out) != sorted((int(a * d), p, int(b * d)) for a, b, p in rows):
            return "division columns changed in the round trip (divs=%d)" % d, None
    # time columns: durations exactly, onsets up to the pickup shift of the inferred first measure
    o2 = sorted((int(r["onset_div"]), int(r["pitch"]), int(r["duration_div"]), float(r["onset_quarter"]), float(r["duration_quarter"])) for r in out)
    shift = o2[0][3] - float(Fraction(o2[0][0], int(out[0]["divs_pq"])))
    for on, p, du, oq, dq in o2:
        D = int(out[0]["divs_pq"])
        if not f4_close(dq, du / D) or abs((oq - shift) - on / D) > 1e-4:
            return "quarter columns of the rebuilt score do not match its division columns (onset %d)" % on, None
    return None, out


def stage_inverse(ctx, n_cases):
    import numpy as np
    from partitura.musicanalysis.note_array_to_score import create_divs_from_beats, create_beats_from_divs
    rng = ctx.rng
    terms, cases = [], []
    for ci in range(n_cases):
        case = gen_inverse_case(rng)
        msg, out = check_inverse(case)
        ctx.evaluations += 1
        ctx.count("inverse:%s%s" % (case["kind"], ":estimate_time" if case["estimate_time"] else ""))
        if msg:
            small = shrink_inverse(case)
            m2 = check_inverse(small)[0]
            ctx.violation("note_array_to_score -> note_array: %s" % (m2 or msg), {"kind": "inverse", "case": small, "message": m2 or msg})
            continue
        rows = [(Fraction(a), Fraction(b), p) for a, b, p in case["rows"]]
        onset_dens = {a.denominator for a, b, p in rows}
        dur_dens = {b.denominator for a, b, p in rows}
        if case["kind"] == "beat" and not all(any(dd % od == 0 for dd in dur_dens) for od in onset_dens):
            ctx.count("inverse:onset_denominator_not_among_durations")
        ctx.nontrivial(("inverse", case))
        if ci < 1:
            ctx.sample({"inverse_case": case})
        # the two helper functions directly
        arr = build_inverse_array(case)
        if case["kind"] == "beat":
            try:
                na, d = create_divs_from_beats(arr)
            except Exception as e:
                ctx.violation("create_divs_from_beats raised %s: %s" % (type(e).__name__, e), {"kind": "inverse", "case": case})
                continue
            ons = [Fraction(float(x)).limit_denominator(256) for x in arr["onset_beat"]]
            dus = [Fraction(float(x)).limit_denominator(256) for x in arr["duration_beat"]]
            bad = [i for i in range(len(ons)) if Fraction(int(na["onset_div"][i]), int(d)) != ons[i] - min(min(ons), 0) or Fraction(int(na["duration_div"][i]), int(d)) != dus[i]]
            if bad:
                i = bad[0]
                ctx.violation("create_divs_from_beats: divs=%d turns onset %s / duration %s into %d / %d divisions (not exact)"
                              % (int(d), ons[i], dus[i], int(na["onset_div"][i]), int(na["duration_div"][i])),
                              {"kind": "inverse", "case": case, "message": "create_divs_from_beats inexact"})
                continue
            terms.append("((%s : list Q), (%s : list Q), (%s, (%s : list Z), (%s : list Z)))"
                         % (clist([cq(x) for x in ons]), clist([cq(x) for x in dus]), cz(int(d)),
                            clist([cz(int(x)) for x in na["onset_div"]]), clist([cz(int(x)) for x in na["duration_div"]])))
            cases.append({"kind": "inverse", "case": case})
        elif case["kind"] == "div":
            d = case["divs"]
            nb = create_beats_from_divs(arr, d)
            ctx.evaluations += 1
            for r in nb:
                if abs(float(r["onset_beat"]) - int(r["onset_div"]) / d) > 1e-9 or abs(float(r["duration_beat"]) - int(r["duration_div"]) / d) > 1e-9:
                    ctx.violation("create_beats_from_divs(divs=%d): %r" % (d, r), {"kind": "inverse", "case": case, "message": "create_beats_from_divs"})
                    break
    run_coq(ctx, "inverse", terms, cases,
            "fun c => match c with (ons, dus, impl) => inverse_case_ok ons dus impl end",
            "model divs_columns (lcm of onset and duration denominators, truncation) = create_divs_from_beats")


def shrink_inverse(case):
    idx = list(range(len(case["rows"])))

    def sub(keep):
        c = dict(case)
        c["rows"] = [case["rows"][i] for i in keep]
        if case["voice"]:
            c["voice"] = [case["voice"][i] for i in keep]
        return c

    cls = failure_class(check_inverse(case)[0])

    def fails(keep):
        try:
            return failure_class(check_inverse(sub(keep))[0]) == cls
        except Exception:
            return False
    if len(idx) < 2:
        return case
    return sub(core.ddmin(idx, fails))


def failure_class(msg):
    """Coarse class of an oracle message (numbers and quoted names removed): shrinking keeps the class."""
    if msg is None:
        return None
    import re
    return re.sub(r"[0-9]+|'[^']*'", "#", msg)[:60]


# ---- corpus


def corpus_cases():
    """Hand-written edge cases (always run first): the inputs of D08, D09, D10 and friends."""
    n = lambda i, s, e, **k: dict(dict(id=i, s=s, e=e, step="C", alter=None, oct=4, voice=1, staff=1), **k)
    base = {"id": "A", "qd": [[0, 4]], "ts": [[0, 4, 4]], "ks": [[0, 2, "minor"]], "measures": [[0, 16], [16, 32]], "total": 32}
    p1 = dict(base, notes=[n("n0", 0, 4), n("n1", 4, 16, tie_next="n2", voice=None), n("n2", 16, 32, tie_next=None), n("g", 4, 4, grace="acciaccatura", voice=None, staff=None),
                           dict(id="r0", s=0, e=4, rest=True, voice=1, staff=None), dict(id="r1", s=4, e=8, rest=True, voice=None, staff=2)])
    p1["notes"][2].pop("tie_next")
    pe = {"id": "E", "qd": [[0, 2]], "ts": [[0, 4, 4]], "ks": [], "measures": [[0, 8], [8, 16]], "notes": [], "total": 16}
    p2 = {"id": "B", "qd": [[0, 2]], "ts": [[0, 4, 4]], "ks": [], "measures": [[0, 8], [8, 16]], "total": 16,
          "notes": [n("n0", 0, 2), n("n1", 2, 4, step="E")]}
    p3 = {"id": "C", "qd": [[0, 3]], "ts": [[0, 4, 4]], "ks": [], "measures": [[0, 12], [12, 24]], "total": 24,
          "notes": [n("n0", 3, 6), n("n1", 1, 2, step="G", alter=1)]}
    return {"parts": [p1, p2, p3, pe], "scores": [[pe, p2, p3], [p2, pe, p3], [p2, p3, pe], [p2, p3], [p3]],
            "inverse": [{"kind": "beat", "divs": None, "rows": [["0", "1/2", 60], ["1/3", "1/2", 62], ["1", "1/2", 64]], "voice": None,
                         "estimate_time": False, "f8": False, "with_id": False},
                        {"kind": "beat", "divs": None, "rows": [["0", "1", 60], ["5/16", "1", 62], ["7/12", "2", 64]], "voice": [1, 1, 2],
                         "estimate_time": False, "f8": True, "with_id": True}]}


def stage_corpus(ctx, mp_ok):
    c = corpus_cases()
    all_on = {k: True for k in OPT_NAMES}
    if not mp_ok:
        all_on["include_metrical_position"] = False
    for spec in c["parts"]:
        for rests in (False, True):
            for opts in ({}, ({k: v for k, v in all_on.items() if k in REST_OPT_NAMES} if rests else all_on)):
                status, msg, rows, _ = check_part(spec, opts, rests)
                ctx.evaluations += 1
                ctx.count("corpus:" + status)
                if status == "FAIL":
                    ctx.violation("corpus part %s, %s(%s): %s" % (spec["id"], "rest_array" if rests else "note_array", fmt_opts(opts), msg),
                                  {"kind": "part", "spec": spec, "opts": opts, "rests": rests, "message": msg})
    for specs in c["scores"]:
        for uniq in (True, False):
            for opts in ({}, all_on):
                status, msg, rows, _ = check_score(specs, opts, uniq)
                ctx.evaluations += 1
                ctx.count("corpus:" + status)
                if status == "FAIL":
                    ctx.violation("corpus score %s: %s" % ([s["id"] for s in specs], msg),
                                  {"kind": "score", "specs": specs, "opts": opts, "uniq": uniq, "via": "score", "message": msg})
        msg = check_rest_list(specs, True)
        if msg:
            ctx.violation("corpus rest_array_from_part_list: " + msg, {"kind": "restlist", "specs": specs, "message": msg})
    for case in c["inverse"]:
        msg, _ = check_inverse(case)
        ctx.evaluations += 1
        if msg:
            ctx.violation("corpus inverse: " + msg, {"kind": "inverse", "case": case, "message": msg})
    # ensure_notearray dispatch: a structured array is returned as it is; a part gives its note array
    import numpy as np
    import partitura.utils.music as M
    part, _ = build_part(c["parts"][0])
    a = part.note_array()
    ok = M.ensure_notearray(a) is a and np.array_equal(M.ensure_notearray(part), a)
    try:
        M.ensure_notearray(np.zeros(3))
        ok = False
    except ValueError:
        pass
    if not ok:
        ctx.violation("ensure_notearray dispatch (array / part)", {"kind": "ensure"})


# ----------------------------------------------------------------------------


def run(ctx):
    ctx.rule = ("Parts and scores are built through the public API from generated specifications (layout of measures, time/key "
                "signatures, pickups, division changes, tie chains over barlines, grace notes, missing voice/staff, equal "
                "(onset,pitch) duplicates, parts without notes, 2-4 parts whose divisions have an lcm above all of them); every "
                "call (part x option set, score x option set x unique_id_per_part x entry point, inverse round trip) is one "
                "evaluation.  Distinct non-trivial = distinct (specification, options) pairs whose specification has at least one "
                "of those features (parts), differing divisions or a part without notes (scores), or any inverse case.")
    ctx.trusted = ["Coq 8.16.1 kernel incl. vm_compute",
                   "harness/props/c05.py: generators, Coq printers, Python oracle (expected rows from the specification)",
                   "the part's own quarter/beat/key/time-signature/metrical maps as reference for those columns (C02/C10)",
                   "partitura's Part.add / set_quarter_duration put objects where the specification says (C01)"]
    ctx.assumptions = ["float32 columns compared with relative tolerance 2^-21 against the part's float64 maps",
                       "numpy dtype truncation (U256, i4 overflow) out of scope",
                       "cyclic tie chains excluded (Python recursion would not terminate)",
                       "parts of one generated score share the metrical layout, so beat order = division order",
                       "inverse direction: non-negative onsets, denominators <= 16, arrays without 'voice' carry no zero-duration notes (voice estimation is C17)"]
    ok, why = ctx.coq_props(expect_min=16)
    if not ok:
        ctx.log("coq_props failed: " + why[:2000])
    mp_ok = probe_metrical_position()
    ctx.extra["metrical_position_map_available"] = mp_ok
    ctx.count("probe:metrical_position_" + ("on" if mp_ok else "excluded(D13)"))
    quick = ctx.tier == "quick"
    nv0 = len(ctx.violations)
    stage_corpus(ctx, mp_ok)
    stage_parts(ctx, n_parts=(120 if quick else 1200), n_random_opts=(2 if quick else 4),
                full_every=(0 if quick else 12), mp_ok=mp_ok, coq_per_part=(2 if quick else 2))
    stage_scores(ctx, n_scores=(90 if quick else 900), mp_ok=mp_ok, full_every=(0 if quick else 30))
    stage_inverse(ctx, n_cases=(200 if quick else 3000))
    if not ok and len(ctx.violations) == nv0:
        ctx.violation("proof obligations of Props/C05.v no longer check: " + why, {"theorem_or_build": why}, no_input=True)


def replay(obj):
    r = obj.get("replay", obj)
    print(json.dumps({k: v for k, v in obj.items() if k != "replay"}, indent=1, default=str))
    kind = r.get("kind")
    if kind == "part":
        part, _ = build_part(r["spec"])
        exp, maps = expected_rows(r["spec"], part, r["opts"], r.get("rests", False))
        st, res = call_note_array(part, r["opts"], r.get("rests", False))
        print("specification:", json.dumps(r["spec"]))
        print("options:", r["opts"])
        print("implementation:", st, res if st == "exc" else "\n" + "\n".join(str(x) for x in array_rows(res)))
        print("expected rows (any order within equal onset,pitch):\n" + "\n".join(str(x) for x in sorted(exp, key=lambda x: (x["onset_div"], x["pitch"]))))
        print("oracle:", check_part(r["spec"], r["opts"], r.get("rests", False))[:2])
    elif kind == "score":
        print("specifications:", json.dumps(r["specs"]))
        print("oracle:", check_score(r["specs"], r["opts"], r["uniq"], r.get("via", "score"))[:3])
    elif kind == "restlist":
        print("oracle:", check_rest_list(r["specs"], True))
    elif kind == "inverse":
        print("array:\n", build_inverse_array(r["case"]))
        print("oracle:", check_inverse(r["case"]))
    else:
        print(json.dumps(r, indent=1, default=str))
    return 0
