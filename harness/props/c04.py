"""C04 -- score -> MIDI -> score preserves every note's timing and pitch exactly.

Pipeline per generated case (a score description made of integers only, plus a configuration):
  build partitura objects -> save_score_midi (MidiFile object or a file under .work) ->
  (a) direct oracle in exact rationals, computed from the description alone (never from the Coq
      model): ppq, every note tick, signatures/tempi positions, velocity, and the notes / grouping /
      signatures / tempi of load_score_midi and load_performance_midi of the same file;
  (b) correspondence: the same input (read from the Part objects) and the observed messages /
      imported notes are printed as Coq terms; Model.C04.check_export / check_import / alternating
      evaluate the Gallina model on them inside Coq.
"""
import json
import math
import os
from collections import Counter
from fractions import Fraction

import core
from core import cz, clist, ctuple

DIVS = [1, 2, 3, 4, 6, 8, 12, 16, 24, 48, 480]
TSIGS = [(4, 4), (3, 4), (2, 4), (6, 8), (3, 8), (2, 2), (5, 4), (9, 8), (4, 4), (3, 4)]
ANACRUSIS = ["shift", "time_sig_change", "pad_bar"]
AN_CODE = {"shift": 0, "time_sig_change": 1, "pad_bar": 2}
VELS = [1, 30, 64, 127, 100]
MINPPQ = [0, 24, 480, 960, 0, 1, 100, 481]
BPMS = [60, 80, 96, 100, 120, 125, 150, 70, 132, 48]
PCS = [("C", 0), ("C", 1), ("D", 0), ("D", 1), ("E", 0), ("F", 0), ("F", 1), ("G", 0), ("G", 1), ("A", 0), ("A", 1), ("B", 0)]
MAJ = ["Cb", "Gb", "Db", "Ab", "Eb", "Bb", "F", "C", "G", "D", "A", "E", "B", "F#", "C#"]
MIN = ["Ab", "Eb", "Bb", "F", "C", "G", "D", "A", "E", "B", "F#", "C#", "G#", "D#", "A#"]
# group structures over part indices (lists = PartGroup, ints = Part), per number of parts
STRUCTS = {
    1: [[0], [0], [[0]], [[[0]]]],
    2: [[0, 1], [0, 1], [[0, 1]], [[0], 1], [0, [1]], [[0], [1]], [[[0], 1]], [[0, [1]]]],
    3: [[0, 1, 2], [[0, 1], 2], [0, [1, 2]], [[0, 1, 2]], [[0], [1, 2]], [[[0, 1]], 2], [[0, [1, 2]]], [[0], [1], [2]],
        [[[0], 1, 2]], [[0, [1]], 2]],
}


def key_code(name):
    """mido key name -> integer code (fifths * 2 + minor)."""
    if name.endswith("m"):
        return (MIN.index(name[:-1]) - 7) * 2 + 1
    return (MAJ.index(name) - 7) * 2


def key_name(fifths, mode):
    return MIN[fifths + 7] + "m" if mode == "minor" else MAJ[fifths + 7]


# ----------------------------------------------------------------------------
# case generation (integers only; everything the oracle needs is in the description)


def qraw(qd, t):
    """quarters elapsed between time 0 and t under the quarter durations qd (exact)."""
    tot = Fraction(0)
    for i, (t0, q0) in enumerate(qd):
        t1 = qd[i + 1][0] if i + 1 < len(qd) else None
        if t1 is None or t <= t1:
            return tot + Fraction(t - t0, q0)
        tot += Fraction(t1 - t0, q0)
    return tot


def conflict_rule(mode):
    """same (track, channel) under the mode, as a predicate on (part index, voice) pairs; None = whole score."""
    if mode in (0, 5):
        return lambda a, b: a == b
    if mode in (1, 2, 3):
        return lambda a, b: a[0] == b[0]
    return lambda a, b: True


def respects_quantifier(case):
    """The property's condition, judged on the exact ticks of the description: no two notes of equal
    pitch overlap within one (track, channel) class of the mode (zero-length notes may touch)."""
    ppq, ftp, an, tk = expectation(case)
    tc, _ = mode_labels(case)
    seen = {}
    for pi, ps in enumerate(case["parts"]):
        for n in ps["notes"]:
            on, off = tk(pi, n["t"]), tk(pi, n["t"] + sum(n["durs"]))
            seen.setdefault((tc(pi, n["voice"]), n["pitch"]), []).append((on, off))
    for iv in seen.values():
        iv.sort()
        for (a, b), (c, d) in zip(iv, iv[1:]):
            if not (b <= c or d <= a):
                return False
        longs = [x for x in iv if x[0] != x[1]]
        if any(a < g < b for g, h in iv if g == h for a, b in longs):
            return False
    return True


def gen_case(rng, size, strict=None):
    for _ in range(20):
        case = gen_case1(rng, size, strict)
        if respects_quantifier(case):
            return case
    return case


def gen_case1(rng, size, strict=None):
    mode = rng.randint(0, 5)
    if strict is None:
        strict = rng.random() < 0.35
    same_tc = conflict_rule(4 if strict else mode)  # strict: no equal-pitch overlap anywhere in the score
    n_meas = rng.randint(2, 3 + size)
    ts0 = rng.choice(TSIGS)
    ts_change = None
    if rng.random() < 0.35:
        ts_change = (rng.randint(1, n_meas - 1), rng.choice([t for t in TSIGS if t != ts0]))
    pickup = 0
    if rng.random() < 0.6 and ts0[0] >= 2:
        pickup = rng.randint(1, ts0[0] - 1)
    irregular = {}  # measure index -> change of the number of beats
    if rng.random() < 0.3 and n_meas >= 3:
        k = rng.randint(0 if pickup else 1, n_meas - 1)
        irregular[k] = 1 if rng.random() < 0.25 else -1
        if rng.random() < 0.5 and k + 1 < n_meas:
            irregular[k + 1] = 1 if rng.random() < 0.25 else -1  # two irregular measures in a row
    # measures in quarters from the start of the piece: (start, end, ts, has_explicit_ts)
    meas = []
    pos = Fraction(0)
    cur = ts0
    if pickup:
        ln = Fraction(4 * pickup, ts0[1])
        meas.append([pos, pos + ln, cur, True])
        pos += ln
    for i in range(n_meas):
        new = False
        if ts_change and i == ts_change[0]:
            cur = ts_change[1]
            new = True
        ln = Fraction(4 * cur[0], cur[1])
        if i in irregular and cur[0] >= 2:
            nb = cur[0] + 1 if irregular[i] > 0 else rng.randint(1, cur[0] - 1)
            ln = Fraction(4 * nb, cur[1])
        meas.append([pos, pos + ln, cur, new or (i == 0 and not pickup)])
        pos += ln
    bts = sorted({m[2][1] for m in meas})
    need_even = 8 in bts
    ok_divs = [d for d in DIVS if not (need_even and d % 2)]
    n_parts = rng.choice([1, 1, 2, 2, 3])
    shared_ks = rng.random() < 0.7
    ks_shared = [(0, rng.randint(-7, 7), rng.choice(["major", "minor"]))] if rng.random() < 0.8 else []
    if rng.random() < 0.25:
        ks_shared.append((rng.randint(1, len(meas) - 1), rng.randint(-7, 7), rng.choice(["major", "minor"])))
    tempo_pos = {}
    if rng.random() < 0.6:
        tempo_pos[0] = rng.choice(BPMS)
    if rng.random() < 0.35:
        tempo_pos[rng.randint(1, len(meas) - 1)] = rng.choice(BPMS)
    parts = []
    taken = []  # (pitch, on_q, off_q, (part, voice)) in aligned musical time, for the no-overlap condition
    # (no such part when the measure after the pickup is irregular: it would be that part's first measure and count as its pickup)
    nopick = rng.randrange(n_parts) if (pickup and n_parts >= 2 and 0 not in irregular and rng.random() < 0.3) else None
    tacet = rng.randrange(n_parts) if (n_parts >= 2 and rng.random() < 0.12) else None  # a part without notes
    for pi in range(n_parts):
        pm = [list(m) for m in meas]
        if nopick == pi:
            # this part has no pickup measure: its timeline starts at the first barline
            off = pm[0][1]
            pm = [[m[0] - off, m[1] - off, m[2], m[3]] for m in pm[1:]]
            pm[0][3] = True
        align = pm[0][1] if (pickup and len(pm) == len(meas)) else Fraction(0)  # quarter_map(0) = -align
        d0 = rng.choice(ok_divs + [3, 6, 12, 480, 480] if not need_even else ok_divs + [6, 12, 480, 480])
        used = [q for p_ in parts for _, q in p_["qd"]]
        skew = [d for d in ok_divs if used and all(d % u and u % d for u in used)]
        if skew and rng.random() < 0.5:
            d0 = rng.choice(skew)  # neither a multiple nor a divisor of the divisions used so far: the lcm is a new number
        qd = [(0, d0)]
        qchange = None
        if rng.random() < 0.3 and len(pm) >= 2:
            j = rng.randint(1, len(pm) - 1)
            d1 = rng.choice([d for d in ok_divs if d != d0])
            skew = [d for d in ok_divs if d % d0 and d0 % d]
            if skew and rng.random() < 0.5:
                d1 = rng.choice(skew)
            qchange = (pm[j][0], d1)

        def tl(q, d0=d0, qchange=qchange):
            """timeline time of quarter position q (from the start of this part)."""
            if qchange is None or q <= qchange[0]:
                v = q * d0
            else:
                v = qchange[0] * d0 + (q - qchange[0]) * qchange[1]
            assert v.denominator == 1, (q, d0, qchange)
            return int(v)

        if qchange:
            qd.append((tl(qchange[0]), qchange[1]))
        measures = [(tl(m[0]), tl(m[1])) for m in pm]
        tsigs = [(tl(m[0]), m[2][0], m[2][1]) for m in pm if m[3]]
        bounds = [m[0] for m in pm] + [pm[-1][1]]
        end_q = pm[-1][1]
        n_voices = rng.choice([1, 1, 2, 2, 3])
        pool = [48 + 12 * pi + x for x in (0, 2, 4, 5, 7, 9, 11)]
        notes = []
        for v in range(1, n_voices + 1):
            vno = v if rng.random() < 0.85 else v + rng.randint(1, 3)  # voice numbers need not be 1..n
            if v == n_voices and rng.random() < 0.06:
                vno = None  # a voice without a number
            pos = Fraction(0)
            if rng.random() < 0.2:
                pos = Fraction(rng.randint(0, 3), 2)
            while pos < end_q:
                dcur = d0 if (qchange is None or pos < qchange[0]) else qchange[1]
                cands = [Fraction(a, b) for a, b in ((1, 4), (1, 2), (1, 1), (2, 1), (3, 2), (3, 4), (1, 3), (2, 3), (1, 6),
                                                     (1, 5), (2, 5), (1, 12), (4, 3), (3, 1), (1, 3), (1, 3))
                         if (Fraction(a, b) * dcur).denominator == 1]
                if not cands:
                    cands = [Fraction(1, dcur)]
                dur = rng.choice(cands)
                if (pos * dcur).denominator != 1:  # off-grid after a divisions change: step to the next barline
                    pos = min(b for b in bounds if b > pos)
                    continue
                end = pos + dur
                if qchange and pos < qchange[0] < end:
                    # the part after the change must be on the new grid
                    rest = end - qchange[0]
                    if (rest * qchange[1]).denominator != 1:
                        end = qchange[0]
                if end > end_q:
                    end = end_q
                if rng.random() < 0.2 or end <= pos:
                    pos = end if end > pos else pos + dur
                    continue
                r = rng.random()
                if r < 0.8:
                    pitches = [rng.choice(pool)]
                elif r < 0.9:
                    pitches = [48 + 12 * rng.randint(0, 2) + rng.choice((0, 2, 4, 5, 7, 9, 11))]
                elif r < 0.97:
                    pitches = [rng.randint(21, 108)]
                else:
                    pitches = [rng.choice([0, 127, 1, 126])]
                if rng.random() < 0.1:
                    pitches.append(min(127, pitches[0] + rng.choice([3, 4, 7])))
                grace = None
                if rng.random() < 0.1:
                    # now and then on the pitch of its main note (zero-length note on the very tick an equal-pitch note starts)
                    grace = pitches[0] if rng.random() < 0.25 else rng.choice(pool)
                for pitch in pitches:
                    on_q, off_q = pos - align, end - align
                    me = (pi, vno)
                    if any(p == pitch and on_q < b and a < off_q and same_tc(k, me) for p, a, b, k in taken if a != b) or \
                            any(p == pitch and a == b and on_q < a < off_q and same_tc(k, me) for p, a, b, k in taken):
                        continue
                    taken.append((pitch, on_q, off_q, me))
                    # split into tied pieces at the barlines
                    cuts = [pos] + [b for b in bounds if pos < b < end] + [end]
                    if rng.random() < 0.12:
                        # a tie inside a measure as well (the chain is not only cut at barlines)
                        mid = (pos + end) / 2
                        try:
                            tl(mid)
                            if mid not in cuts:
                                cuts = sorted(cuts + [mid])
                        except AssertionError:
                            pass
                    durs = [tl(cuts[i + 1]) - tl(cuts[i]) for i in range(len(cuts) - 1)]
                    notes.append({"t": tl(pos), "durs": durs, "pitch": pitch, "voice": vno})
                if grace is not None:
                    gq = pos - align
                    if not any(p == grace and a < gq < b and same_tc(k, (pi, vno)) for p, a, b, k in taken if a != b):
                        taken.append((grace, gq, gq, (pi, vno)))
                        notes.append({"t": tl(pos), "durs": [], "pitch": grace, "voice": vno})
                pos = end
        if tacet == pi:
            notes = []
            taken = [x for x in taken if x[3][0] != pi]
        elif not notes:
            p0 = 30 + pi
            taken.append((p0, -align, pm[0][1] - align, (pi, 1)))
            notes.append({"t": 0, "durs": [measures[0][1]], "pitch": p0, "voice": 1})
        rng.shuffle(notes)  # insertion order into the part is not musical order
        ks = ks_shared if (shared_ks or pi == 0) else ([(0, rng.randint(-7, 7), rng.choice(["major", "minor"]))] if rng.random() < 0.8 else [])
        ksigs = [(measures[min(i, len(measures) - 1)][0], f, m) for i, f, m in ks]
        tempi = []
        if pi == 0 or rng.random() < 0.2:
            for mi, bpm in sorted(tempo_pos.items()):
                if len(pm) == len(meas):
                    tempi.append((measures[mi][0], bpm))
        parts.append({"id": "P%d" % (pi + 1), "qd": [list(x) for x in qd], "measures": [list(x) for x in measures],
                      "tsigs": [list(x) for x in tsigs], "ksigs": [list(x) for x in ksigs], "tempi": [list(x) for x in tempi],
                      "notes": notes})
    structure = rng.choice(STRUCTS[n_parts])
    containers = ["score", "score", "list"]
    if structure == [0]:
        containers += ["part", "part"]          # a bare Part as score_data
    if len(structure) == 1 and isinstance(structure[0], list):
        containers += ["group", "group"]        # a bare PartGroup as score_data
    return {"parts": parts, "structure": structure,
            "mode": mode, "strict_overlap": strict, "velocity": rng.choice(VELS), "anacrusis": rng.choice(ANACRUSIS),
            "minimum_ppq": rng.choice(MINPPQ), "out": rng.choice(["none"] * 5 + ["path"] * 2 + ["fileobj"] * 2),
            "container": rng.choice(containers), "zero_velocity_offs": rng.random() < 0.35}


# ----------------------------------------------------------------------------
# building partitura objects


def kind_of(kinds, what, v):
    """The number v as the Python / numpy scalar kind the case asks for (None: plain Python int).
    Narrow kinds are widened when the value does not fit, as a caller holding such an array would."""
    k = (kinds or {}).get(what, "int")
    if k == "int" or v is None:
        return v
    import numpy as np
    if k == "int8" and not -128 <= v <= 127:
        k = "int16"
    if k == "uint8" and not 0 <= v <= 255:
        k = "int32"
    if k == "int16" and not -32768 <= v <= 32767:
        k = "int32"
    if k == "float":
        return float(v)
    if k == "0d":
        return np.array(v)
    return getattr(np, k)(v)


def add_note_objects(part, pid, ni, n, kinds=None, tag=""):
    """The Note objects of one described note (a chain of tied objects, or a grace note)."""
    import partitura.score as S

    T = lambda v: kind_of(kinds, "t", v)  # noqa: E731
    voice = kind_of(kinds, "voice", n["voice"])
    step, alter = PCS[n["pitch"] % 12]
    octave = n["pitch"] // 12 - 1
    if not n["durs"]:
        g = S.GraceNote(grace_type="acciaccatura", step=step, alter=alter, octave=octave, voice=voice, id="%s-g%d%s" % (pid, ni, tag))
        part.add(g, T(n["t"]), T(n["t"]))
        return [g]
    prev = None
    t = n["t"]
    chain = []
    for k, d in enumerate(n["durs"]):
        nt = S.Note(step=step, alter=alter, octave=octave, voice=voice, id="%s-n%d-%d%s" % (pid, ni, k, tag))
        part.add(nt, T(t), T(t + d))
        if prev is not None:
            prev.tie_next = nt
            nt.tie_prev = prev
        prev = nt
        chain.append(nt)
        t += d
    return chain


def build_part(ps, kinds=None, maps=None):
    import partitura.score as S

    T = lambda v: kind_of(kinds, "t", v)  # noqa: E731
    Q = lambda v: kind_of(kinds, "div", v)  # noqa: E731
    part = S.Part(ps["id"], quarter_duration=Q(ps["qd"][0][1]))
    for t, q in ps["qd"][1:]:
        part.set_quarter_duration(T(t), Q(q))
    for t, b, bt in ps["tsigs"]:
        part.add(S.TimeSignature(b, bt), T(t))
    kso, tpo = [], []
    for t, f, m in ps["ksigs"]:
        kso.append(S.KeySignature(f, m))
        part.add(kso[-1], T(t))
    for t, bpm in ps["tempi"]:
        tpo.append(S.Tempo(bpm, unit="q"))
        part.add(tpo[-1], T(t))
    for i, (s, e) in enumerate(ps["measures"]):
        part.add(S.Measure(number=i + 1), T(s), T(e))
    chains = [add_note_objects(part, ps["id"], ni, n, kinds) for ni, n in enumerate(ps["notes"])]
    if maps is not None:
        maps["notes"], maps["ksigs"], maps["tempi"] = chains, kso, tpo
    return part


def build(case, maps=None):
    """Part objects and the top-level structure of a description.  `maps` (a list, one dict per part)
    receives the objects made for every described note / key signature / tempo.  A part listed in
    case['detached'] (it was put into a Score by `score[i] = part`) is not a child of its former
    group: a stale stand-in holding one note sits there (see make_data)."""
    import partitura.score as S

    parts = []
    kinds = case.get("kinds")
    for ps in case["parts"]:
        m = {} if maps is not None else None
        parts.append(build_part(ps, kinds, m))
        if maps is not None:
            maps.append(m)
    detached = set(case.get("detached", []))

    def stale(i):
        ps = case["parts"][i]
        p = S.Part(ps["id"], quarter_duration=ps["qd"][0][1])
        p.add(S.TimeSignature(ps["tsigs"][0][1], ps["tsigs"][0][2]), 0)
        p.add(S.Measure(number=1), ps["measures"][0][0], ps["measures"][0][1])
        p.add(S.Note(step="C", octave=1, voice=1, id="stale"), ps["measures"][0][0], ps["measures"][0][1])
        return p

    def mk(node):
        if isinstance(node, int):
            return stale(node) if node in detached else parts[node]
        g = S.PartGroup(group_name="G")
        g.children = [mk(x) for x in node]
        for c in g.children:
            c.parent = g
        return g

    top = [mk(x) for x in case["structure"]]
    return parts, top


def group_ids(case):
    """top-level group index of every part (or 'p<i>' when the part is ungrouped)."""
    out = {}

    def walk(node, top):
        if isinstance(node, int):
            out[node] = top
        else:
            for x in node:
                walk(x, top)

    for gi, node in enumerate(case["structure"]):
        if isinstance(node, int):
            out[node] = 1000 + node
        else:
            walk(node, 2000 + gi)
    for i in case.get("detached", []):
        out[i] = 1000 + i  # put into the Score by `score[i] = part`: no parent
    return [out[i] for i in range(len(case["parts"]))]


# ----------------------------------------------------------------------------
# expectation from the description alone (exact rationals)


def expectation(case):
    parts = case["parts"]
    qds = [q for ps in parts for _, q in ps["qd"]]
    ppq = 1
    for q in qds:
        ppq = ppq * q // math.gcd(ppq, q)
    while ppq < case["minimum_ppq"]:
        ppq *= 2
    an = []
    for ps in parts:
        s, e = ps["measures"][0]
        ts = ps["tsigs"][0]
        actual = qraw(ps["qd"], e) - qraw(ps["qd"], s)
        normal = Fraction(4 * ts[1], ts[2])
        an.append(actual if actual < normal else Fraction(0))
    first = min(-a for a in an)
    ftp = Fraction(0)
    if first < 0:
        if case["anacrusis"] == "pad_bar":
            i = [-a for a in an].index(first)
            ts = parts[i]["tsigs"][0]
            ftp = -Fraction(4 * ts[1], ts[2])
        else:
            ftp = first

    def tk(pi, t):
        return ppq * (qraw(parts[pi]["qd"], t) - an[pi] - ftp)

    return ppq, ftp, an, tk


def grouping_relation(case, mode):
    """canonical block label of a note key (part index, voice) under mode's relation."""
    gids = group_ids(case)

    def label(pi, voice):
        if mode in (0, 5):
            return (pi, voice)
        if mode in (1, 2, 3):
            return (pi,)
        return ()

    return label, gids


# ----------------------------------------------------------------------------
# running the implementation


def read_messages(mf):
    """(delta, kind, a, b, c) tuples of every track of a mido file."""
    tracks = []
    for tr in mf.tracks:
        ms = []
        for m in tr:
            if m.type == "note_on":
                ms.append((int(m.time), 1, int(m.channel), int(m.note), int(m.velocity)))
            elif m.type == "note_off":
                ms.append((int(m.time), 0, int(m.channel), int(m.note), 0))
            elif m.type == "time_signature":
                ms.append((int(m.time), 2, int(m.numerator), int(m.denominator), 0))
            elif m.type == "key_signature":
                ms.append((int(m.time), 3, key_code(m.key), 0, 0))
            elif m.type == "set_tempo":
                ms.append((int(m.time), 4, int(m.tempo), 0, 0))
            elif m.type == "end_of_track":
                continue
            else:
                ms.append((int(m.time), 9, 0, 0, 0))
        tracks.append(ms)
    return tracks


def make_data(case, parts, top):
    """The score_data argument: Score / list / bare Part / bare PartGroup."""
    import partitura.score as S

    cont = case["container"]
    if cont == "score":
        data = S.Score(partlist=top, id="c04")
        for i in case.get("detached", []):
            data.parts[i] = parts[i]  # the state `score[i] = part` leaves: flat list updated, structure stale
        return data
    if cont in ("part", "group"):
        return top[0]  # a bare Part / PartGroup
    return top


def do_export(data, case, workdir, tag=""):
    """save_score_midi with the configuration of the case.  Returns (MidiFile, source for the importers, error)."""
    import io
    import mido
    from partitura.io.exportmidi import save_score_midi

    ck = case.get("kinds")
    kw = dict(part_voice_assign_mode=kind_of(ck, "mode", case["mode"]), velocity=kind_of(ck, "velocity", case["velocity"]),
              anacrusis_behavior=case["anacrusis"], minimum_ppq=kind_of(ck, "minimum_ppq", case["minimum_ppq"]))
    out = case.get("out", "path" if case.get("to_file") else "none")
    try:
        if out == "path":
            path = os.path.join(workdir, "c04_case_%d%s.mid" % (os.getpid(), tag))
            r = save_score_midi(data, path, **kw)
            mf = mido.MidiFile(path)
            src = path
        elif out == "fileobj":
            buf = io.BytesIO()
            r = save_score_midi(data, buf, **kw)
            mf = mido.MidiFile(file=io.BytesIO(buf.getvalue()))
            src = mf
        else:
            mf = save_score_midi(data, None, **kw)
            r = None
            src = mf
        if out != "none" and r is not None:
            return None, None, "save_score_midi returned %r although an output was given" % (r,)
        if not isinstance(mf, mido.MidiFile):
            return None, None, "save_score_midi(out=None) returned %r, not a MidiFile" % (mf,)
    except Exception as e:  # noqa
        return None, None, "save_score_midi raised %s: %s" % (type(e).__name__, e)
    return mf, src, None


def run_impl(case, workdir):
    """Returns dict with observed data or {'error': ...}."""
    import warnings

    warnings.filterwarnings("ignore")
    parts, top = build(case)
    data = make_data(case, parts, top)
    mf, src, err = do_export(data, case, workdir)
    if err:
        return {"error": err}, parts
    obs = {"ppq": int(mf.ticks_per_beat), "tracks": read_messages(mf)}
    observe_import(case, mf, src, obs)
    return obs, parts


def observe_import(case, mf, src, obs, order=("score", "zv", "perf")):
    """Reads the written file with load_score_midi / load_performance_midi (the calls in the given order)."""
    import mido
    import partitura.score as S
    from partitura.io.exportmidi import save_score_midi
    from partitura.io.importmidi import load_score_midi, load_performance_midi

    def imp_score():
        # import as a score
        try:
            sc = load_score_midi(src, part_voice_assign_mode=kind_of(case.get("kinds"), "mode", case["mode"]))
            inotes, igroups, its, iks, itempo = [], [], [], [], []
            top_of = {}
            for gi, node in enumerate(sc.part_structure):
                for p in S.iter_parts([node]):
                    top_of[p.id] = gi if isinstance(node, S.PartGroup) else -1
            again = []
            for p in sc.parts:
                pn = int(p.id[1:]) - 1
                igroups.append((pn, top_of[p.id]))
                qd = p.quarter_durations()
                divs = [int(x) for x in qd[:, 1]]
                na = p.note_array()
                for r in na:
                    inotes.append((pn, int(r["voice"]), int(r["onset_div"]), int(r["duration_div"]), int(r["pitch"])))
                obs.setdefault("idivs", []).append(divs)
                for ts in p.iter_all(S.TimeSignature):
                    its.append((pn, int(ts.start.t), int(ts.beats), int(ts.beat_type)))
                for ks in p.iter_all(S.KeySignature):
                    iks.append((pn, int(ks.start.t), int(ks.fifths), str(ks.mode)))
                for tp in p.iter_all(S.Tempo):
                    itempo.append((pn, int(tp.start.t), float(tp.bpm), str(tp.unit)))
                # the imported part is a score as well (one divisions value, ties over barlines made by
                # tie_notes): export it once more, on its own, and read the ticks of its notes
                try:
                    mf2 = save_score_midi(p, None, part_voice_assign_mode=0, velocity=case["velocity"], anacrusis_behavior="shift")
                    again.append((pn, int(mf2.ticks_per_beat), file_notes([absolute(tr) for tr in read_messages(mf2)])[0]))
                except Exception as e:  # noqa
                    again.append((pn, -1, "save_score_midi of the imported part raised %s: %s" % (type(e).__name__, e)))
            obs["inotes"], obs["igroups"], obs["its"], obs["iks"], obs["itempo"] = inotes, igroups, its, iks, itempo
            obs["again"] = again
        except Exception as e:  # noqa
            obs["import_error"] = "load_score_midi raised %s: %s" % (type(e).__name__, e)

    def imp_zv():
        # the same file with every note_off written as a note_on with velocity 0 (equivalent MIDI): both
        # importers must read the same notes
        if not case.get("zero_velocity_offs"):
            return
        try:
            mz = mido.MidiFile(type=mf.type, ticks_per_beat=mf.ticks_per_beat)
            for tr in mf.tracks:
                tz = mido.MidiTrack()
                for m in tr:
                    tz.append(mido.Message("note_on", note=m.note, velocity=0, channel=m.channel, time=m.time) if m.type == "note_off" else m.copy())
                mz.tracks.append(tz)
            scz = load_score_midi(mz, part_voice_assign_mode=case["mode"])
            zn = []
            for p in scz.parts:
                for r in p.note_array():
                    zn.append((int(p.id[1:]) - 1, int(r["voice"]), int(r["onset_div"]), int(r["duration_div"]), int(r["pitch"])))
            obs["inotes_zv"] = zn
            pz = load_performance_midi(mz)
            obs["pnotes_zv"] = [(int(n["track"]), int(n["channel"]), int(n["note_on_tick"]), int(n["note_off_tick"]), int(n["midi_pitch"]),
                                 int(n["velocity"])) for pp in pz.performedparts for n in pp.notes]
        except Exception as e:  # noqa
            obs["zv_error"] = "importing the file with zero-velocity note offs raised %s: %s" % (type(e).__name__, e)

    def imp_perf():
        # import as a performance
        try:
            pf = load_performance_midi(src)
            pnotes = []
            for pp in pf.performedparts:
                for n in pp.notes:
                    pnotes.append((int(n["track"]), int(n["channel"]), int(n["note_on_tick"]), int(n["note_off_tick"]),
                                   int(n["midi_pitch"]), int(n["velocity"])))
            obs["pnotes"] = pnotes
        except Exception as e:  # noqa
            obs["perf_error"] = "load_performance_midi raised %s: %s" % (type(e).__name__, e)

    todo = {"score": imp_score, "zv": imp_zv, "perf": imp_perf}
    for name in order:
        todo[name]()


def file_notes(abs_tracks):
    """The oracle's own reading of the written tracks (absolute ticks): every note_on must find its
    (channel, pitch) silent, every note_off must find it sounding.  Returns (notes, complaints);
    notes = (track, channel, on, off, pitch)."""
    notes, bad = [], []
    for ti, tr in enumerate(abs_tracks):
        sounding = {}
        for m in tr:
            if m[1] == 1 and m[4] > 0:
                k = (m[2], m[3])
                if k in sounding:
                    bad.append("track %d tick %d: note_on for channel %d pitch %d which sounds since tick %d" % (ti, m[0], m[2], m[3], sounding[k]))
                sounding[k] = m[0]
            elif m[1] == 0 or (m[1] == 1 and m[4] == 0):
                k = (m[2], m[3])
                if k not in sounding:
                    bad.append("track %d tick %d: note_off for channel %d pitch %d which does not sound" % (ti, m[0], m[2], m[3]))
                else:
                    notes.append((ti, m[2], sounding.pop(k), m[0], m[3]))
        for k, t in sorted(sounding.items()):
            bad.append("track %d: channel %d pitch %d sounding since tick %d is never ended" % (ti, k[0], k[1], t))
    return notes, bad


def model_input(case, parts):
    """What the Coq model gets: read from the Part objects through the attributes the exporter uses."""
    import partitura.score as S

    gids = group_ids(case)
    out = []
    for pi, part in enumerate(parts):
        qd = [(int(t), int(q)) for t, q in part.quarter_durations()]
        m1 = next(part.first_point.iter_starting(S.Measure), None)
        m1t = None
        if m1 is not None and m1.start is not None and m1.end is not None:
            ts = next(m1.start.iter_starting(S.TimeSignature), None)
            if ts is not None:
                m1t = (int(m1.end.t), int(ts.beats), int(ts.beat_type))
        tsm = part.time_signature_map(0)
        vz = lambda v: -1 if v is None else int(v)  # noqa: E731
        notes = [(int(n.start.t), int(n.duration_tied), int(n.midi_pitch), vz(n.voice)) for n in part.notes_tied]
        # the raw Note objects, for the model of notes_tied / duration_tied
        objs = list(part.iter_all(S.Note, include_subclasses=True))
        idx = {id(o): i for i, o in enumerate(objs)}
        pieces = [(int(o.start.t), int(o.end.t) - int(o.start.t), int(o.midi_pitch), vz(o.voice), o.tie_prev is not None,
                   None if o.tie_next is None else idx.get(id(o.tie_next), -1)) for o in objs]
        tsigs = [(int(ts.start.t), int(ts.beats), int(ts.beat_type)) for ts in part.iter_all(S.TimeSignature)]
        ksigs = [(int(ks.start.t), key_code(ks.name)) for ks in part.iter_all(S.KeySignature)]
        tempi = [(int(tp.start.t), int(tp.microseconds_per_quarter)) for tp in part.iter_all(S.Tempo)]
        meas = [(int(m.start.t), int(m.end.t)) for m in part.iter_all(S.Measure)]
        out.append((gids[pi], pi, qd, m1t, (int(tsm[0]), int(tsm[1])), notes, tsigs, ksigs, tempi, pieces, meas))
    return out


def cmsg(m):
    return ctuple([cz(x) for x in m])


def coq_part(p):
    g, pid, qd, m1t, ts0, notes, tsigs, ksigs, tempi = p[:9]
    return "(mkPart %s %s %s %s %s %s %s %s %s)" % (
        cz(g), cz(pid), clist([ctuple([cz(a), cz(b)]) for a, b in qd]),
        "None" if m1t is None else "(Some %s)" % ctuple([cz(x) for x in m1t]),
        ctuple([cz(ts0[0]), cz(ts0[1])]),
        clist([ctuple([cz(x) for x in n]) for n in notes]),
        clist([ctuple([cz(x) for x in n]) for n in tsigs]),
        clist([ctuple([cz(x) for x in n]) for n in ksigs]),
        clist([ctuple([cz(x) for x in n]) for n in tempi]))


def coq_case(case, minput, obs):
    cfg = ctuple([cz(case["mode"]), cz(case["velocity"]), cz(AN_CODE[case["anacrusis"]]), cz(case["minimum_ppq"])])
    parts = clist([coq_part(p) for p in minput])
    tracks = clist([clist([cmsg(m) for m in tr]) for tr in obs["tracks"]])
    inotes = clist([cmsg(n) for n in obs.get("inotes", [])])
    igroups = clist([ctuple([cz(a), cz(b)]) for a, b in obs.get("igroups", [])])
    tied = clist([ctuple([clist([coq_piece(pc) for pc in p[9]]), clist([ctuple([cz(x) for x in n]) for n in p[5]])]) for p in minput])
    its = clist(["(%s, (%s, %s, %s))" % (cz(pn), cz(t), cz(b), cz(bt)) for pn, t, b, bt in obs.get("its", [])])
    iks = clist(["(%s, (%s, %s, 0))" % (cz(pn), cz(t), cz(key_code(key_name(f, m)))) for pn, t, f, m in obs.get("iks", [])])
    perf = clist([ctuple([cz(n[0]), cz(n[1]), cz(n[2]), cz(n[4]), cz(n[3] - n[2])]) for n in obs.get("pnotes", [])])
    return "(%s, %s, %s, %s, %s, %s, %s, %s, %s, %s)" % (cfg, parts, cz(obs["ppq"]), tracks, inotes, igroups, tied, its, iks, perf)


def coq_piece(pc):
    s, d, p, v, hp, nx = pc
    return "(%s, %s, %s, %s, %s, %s)" % (cz(s), cz(d), cz(p), cz(v), "true" if hp else "false",
                                         "None" if nx is None else "(Some %s)" % cz(nx))


SHARD = 70
PAT = "fun c => match c with (cfg, ps, ppq, trs, ino, igr, tied, its, iks, perf) => match cfg with (mode, vel, an, mn) => %s end end"
CHECKERS = {
    "export": "check_export mode vel an mn ps ppq trs",
    "import": "check_import mode trs ino igr",
    "alternating": "forallb (fun tr => alternating (fun _ => false) tr) trs",
    "sequence": "check_stream mode vel an mn ps trs",
    "tied": "forallb (fun x => check_tied (fst x) (snd x)) tied",
    "import_signatures": "check_import_sigs mode trs its iks",
    "performance": "check_perf trs perf",
}
ORDER = ["export", "import", "alternating", "sequence", "tied", "import_signatures", "performance"]
WHAT = {"export": "model ppq / ticks / track+channel numbering / delta times = messages written by save_score_midi",
        "import": "model pairing + assign_group_part_voice = notes, parts, voices, groups of load_score_midi",
        "alternating": "every (channel, pitch) stream of every written track alternates note on / note off (test of the order_ok hypothesis of pairing_inverts)",
        "sequence": "model message sequence of every track (ticks ascending; per tick signatures/tempi, note offs, zero-length notes, note ons) = the written "
                    "track: same messages, same tick sequence, same sub-stream for every (channel, pitch) key",
        "tied": "model notes_tied / duration_tied on the raw Note objects (tie_prev, tie_next) = the notes and durations the exporter reads",
        "performance": "model message loop (import_tracks: running tick + sounding-note table per track) = (track, channel, on tick, pitch, length) of "
                       "the notes of load_performance_midi",
        "import_signatures": "model track -> part mapping of time / key signatures (tracks without notes global, sanitize rule, default 4/4) = "
                             "signatures of every part of load_score_midi"}
IMPORTS = "From PV Require Import Model.C04 Model.C04_stream."


# ----------------------------------------------------------------------------
# round j: the time_sig_change stream (Model/C04_tsc.v)

TSC_IMPORTS = "From PV Require Import Model.C04 Model.C04_stream Model.C04_tsc."
TSC_CHECK = "fun c => match c with (mode, ppq, ps, meas, trs) => check_tsc mode 1 ppq ps meas trs end"
TSC_WHAT = ("model of the time_sig_change branch (Model/C04_tsc.v: insertion-ordered dict per part, measure loop with ts_changing_time / "
            "fitted_measure_time, two-entries clean-up, own signatures, key signatures, merge of the parts of a track) = the time / key "
            "signature messages of every written track, in written order with their ticks")


def coq_tsc_case(case, minput, ppq, tracks):
    parts = clist([coq_part(p) for p in minput])
    meas = clist([clist([ctuple([cz(a), cz(b)]) for a, b in p[10]]) for p in minput])
    trs = clist([clist([cmsg(m) for m in tr]) for tr in tracks])
    return "(%s, %s, %s, %s, %s)" % (cz(case["mode"]), cz(ppq), parts, meas, trs)


def tsc_features(case, minput, tracks):
    """Feature names of one time_sig_change case (measured input distribution of the stream)."""
    f = set()
    sounding = [p for p in minput if p[5]]
    if len(sounding) > len(tracks):
        f.add("a track shared by two or more parts")
    if len(sounding) > 1:
        f.add("two or more sounding parts")
    for p in sounding:
        qd, tsigs, ksigs, meas = p[2], p[6], p[7], p[10]
        fitted = []
        for i, (s_, e_) in enumerate(meas):
            cur = [x for x in tsigs if x[0] <= s_]
            cur = cur[-1] if cur else (tsigs[0] if tsigs else (0, 4, 4))
            if (qraw(qd, e_) - qraw(qd, s_)) * cur[2] / 4 != cur[1]:
                fitted.append(i)
        if fitted:
            f.add("a fitted measure")
        if 0 in fitted:
            f.add("fitted first measure (pickup)")
        if any(i > 0 for i in fitted):
            f.add("fitted inner measure")
        if any(i + 1 in fitted for i in fitted):
            f.add("two fitted measures in a row")
        if any(meas[i][1] in [x[0] for x in tsigs] for i in fitted):
            f.add("time signature object right after a fitted measure (no restore)")
        if any(meas[i][0] in [x[0] for x in tsigs[1:]] for i in fitted):
            f.add("time signature object at the start of a fitted inner measure (skipped)")
        if any(meas[i][0] in [x[0] for x in ksigs] for i in fitted):
            f.add("key signature at the start of a fitted measure")
        if any(meas[i][1] in [x[0] for x in ksigs] for i in fitted):
            f.add("key signature at the end of a fitted measure")
        if len(tsigs) > 1:
            f.add("time signature change inside the part")
        if len(ksigs) > 1:
            f.add("two or more key signatures")
    if not f:
        f.add("no fitted measure, one part per track")
    return sorted(f)


def stage_tsc(ctx, direct, others, workdir):
    """direct: (case, minput, ppq, tracks) of the generated time_sig_change cases that passed the oracle;
    others: generated cases with another anacrusis behaviour -- exported once more under time_sig_change
    (same score, same mode; no random numbers are drawn, so the other streams are unchanged)."""
    import warnings
    warnings.filterwarnings("ignore")
    items = list(direct)
    limit = {"quick": 110, "thorough": 1500}.get(ctx.tier, 110)
    for case in others[:limit]:
        c = json.loads(json.dumps(case))
        c["anacrusis"], c["out"] = "time_sig_change", "none"
        c.pop("to_file", None)
        try:
            parts, top = build(c)
            mf, _, err = do_export(make_data(c, parts, top), c, workdir, tag="_tsc")
            if err:
                ctx.violation("C04 fails: export: %s" % err, {"case": c, "kinds": ["export"], "failures": [["export", err]]})
                continue
            items.append((c, model_input(c, parts), int(mf.ticks_per_beat), read_messages(mf)))
            ctx.evaluations += 1
            ctx.count("tsc stream: score of another case exported again under time_sig_change")
        except Exception as e:  # noqa
            ctx.violation("harness raised %s in the time_sig_change stream" % e, {"case": c, "kinds": ["harness"]})
    terms = []
    for case, minput, ppq, tracks in items:
        terms.append(coq_tsc_case(case, minput, ppq, tracks))
        ctx.count("tsc stream: cases")
        ctx.count("tsc stream: mode %d" % case["mode"])
        for f in tsc_features(case, minput, tracks):
            ctx.count("tsc stream: " + f)
    what = "%s, on %d cases" % (TSC_WHAT, len(terms))
    if not terms:
        ctx.obligation("correspondence: " + what, True, "no case")
        return
    try:
        failing = ctx.coq_failing("tsc", TSC_IMPORTS, "", terms, TSC_CHECK, shard=SHARD)
    except RuntimeError as e:
        ctx.obligation("correspondence: " + what, False, str(e)[-1500:])
        ctx.violation("Coq rejected the time_sig_change terms: %s" % str(e)[-600:], {"kinds": ["harness"]}, no_input=True)
        return
    ctx.obligation("correspondence: " + what, not failing, failing[:5])
    for i in failing[:3]:
        ctx.violation("model and implementation disagree (tsc: time / key signature messages of a track under time_sig_change)",
                      {"case": items[i][0], "kinds": ["correspondence:tsc"]})


# ----------------------------------------------------------------------------
# direct oracle


def absolute(tr):
    t, out = 0, []
    for m in tr:
        t += m[0]
        out.append((t,) + tuple(m[1:]))
    return out


def oracle(case, obs):
    """Returns a list of (kind, message) failures of the property's statement."""
    bad = []
    if "error" in obs:
        return [("export_raises", obs["error"])]
    parts = case["parts"]
    mode = case["mode"]
    ppq, ftp, an, tk = expectation(case)
    if obs["ppq"] != ppq:
        bad.append(("ppq", "ticks per quarter %d, expected lcm of divisions doubled to the minimum = %d" % (obs["ppq"], ppq)))
        return bad
    # sounding notes: (part index, voice, on tick, off tick, pitch)
    exp_notes = []
    for pi, ps in enumerate(parts):
        for n in ps["notes"]:
            on = tk(pi, n["t"])
            off = tk(pi, n["t"] + sum(n["durs"]))
            if on.denominator != 1 or off.denominator != 1 or on < 0:
                bad.append(("harness", "expected tick not a non-negative integer: %s %s" % (on, off)))
                return bad
            exp_notes.append((pi, n["voice"], int(on), int(off), n["pitch"]))
    tracks = [absolute(tr) for tr in obs["tracks"]]
    # O2 + velocity, on the written messages
    ons = Counter((m[0], m[3]) for tr in tracks for m in tr if m[1] == 1)
    offs = Counter((m[0], m[3]) for tr in tracks for m in tr if m[1] == 0)
    e_ons = Counter((n[2], n[4]) for n in exp_notes)
    e_offs = Counter((n[3], n[4]) for n in exp_notes)
    if ons != e_ons or offs != e_offs:
        d = sorted((ons - e_ons).items())[:3], sorted((e_ons - ons).items())[:3], sorted((offs - e_offs).items())[:3], sorted((e_offs - offs).items())[:3]
        bad.append(("ticks", "note on/off (tick, pitch) differ from ppq*(quarter - ftp): extra on %s missing on %s extra off %s missing off %s" % d))
    vels = sorted({m[4] for tr in tracks for m in tr if m[1] == 1})
    if vels != [case["velocity"]]:
        bad.append(("velocity", "note_on velocities %s, requested %d" % (vels, case["velocity"])))
    if any(m[1] == 9 for tr in tracks for m in tr):
        bad.append(("messages", "unexpected message types in the file"))
    # the written sequence, read by the oracle itself: every (channel, pitch) alternates on / off and the
    # notes so delimited are the score's sounding notes
    fnotes, fbad = file_notes(tracks)
    if fbad:
        bad.append(("stream", "; ".join(fbad[:3])))
    f_ms = Counter((n[2], n[3], n[4]) for n in fnotes)
    e_full = Counter((n[2], n[3], n[4]) for n in exp_notes)
    if f_ms != e_full and not fbad:
        bad.append(("file_notes", "notes delimited by the written note on/off messages (on, off, pitch): extra %s missing %s"
                    % (sorted((f_ms - e_full).items())[:4], sorted((e_full - f_ms).items())[:4])))
    uniq, f_by, e_by = match_notes(exp_notes, fnotes)
    if not fbad and f_ms == e_full:
        bad += oracle_track_channel(case, uniq, len(tracks))
    has_notes = [bool(ps["notes"]) for ps in parts]
    # O4 on the file: signatures / tempi at the same musical positions
    exp_ks = Counter()
    exp_ts = Counter()
    exp_tempo = {}
    all_meta_ts = Counter((m[0], m[2], m[3]) for tr in tracks for m in tr if m[1] == 2)
    all_meta_ks = Counter((m[0], m[2]) for tr in tracks for m in tr if m[1] == 3)
    part_ts, part_ks = [], []  # per part: the signatures a track holding its notes must carry
    for pi, ps in enumerate(parts):
        pts, pks = set(), set()
        for i, (t, b, bt) in enumerate(ps["tsigs"]):
            pos = 0 if (case["anacrusis"] == "pad_bar" and i == 0) else int(tk(pi, t))
            pts.add((pos, b, bt))
        for t, f, m in ps["ksigs"]:
            pks.add((int(tk(pi, t)), key_code(key_name(f, m))))
        part_ts.append(pts)
        part_ks.append(pks)
        if has_notes[pi]:  # a part without notes has no track to carry its signatures
            for x in pts:
                exp_ts[x] += 1
            for x in pks:
                exp_ks[x] += 1
        for t, bpm in ps["tempi"]:
            exp_tempo[int(tk(pi, t))] = bpm
    if not fbad and f_ms == e_full:
        bad += oracle_track_sigs(case, tracks, uniq, f_by, e_by, part_ts, part_ks)
    if not exp_tempo:
        exp_tempo[0] = 120
    elif 0 not in exp_tempo and not parts[0]["tempi"]:
        exp_tempo[0] = 120
    if set(all_meta_ks) != set(exp_ks):
        bad.append(("key_signature", "key signatures (tick, key) %s, expected %s" % (sorted(all_meta_ks), sorted(exp_ks))))
    if case["anacrusis"] != "time_sig_change":
        if set(all_meta_ts) != set(exp_ts):
            bad.append(("time_signature", "time signatures (tick, beats, type) %s, expected %s" % (sorted(all_meta_ts), sorted(exp_ts))))
    else:
        bad += oracle_tsc(case, tracks, tk, uniq)
    tempi = [(m[0], m[2]) for tr in tracks for m in tr if m[1] == 4]
    if any(m[1] == 4 for tr in tracks[1:] for m in tr):
        bad.append(("tempo", "tempo events outside the first track"))
    if sorted(t for t, _ in tempi) != sorted(exp_tempo) or any(
            abs(Fraction(60 * 10 ** 6, mpq) - exp_tempo[t]) > Fraction(exp_tempo[t], 10 ** 5) for t, mpq in tempi if t in exp_tempo):
        bad.append(("tempo", "tempo events (tick, mpq) %s, expected (tick, bpm) %s" % (sorted(tempi), sorted(exp_tempo.items()))))
    # O3: read the file back
    e_ms = Counter((n[2], n[3] - n[2], n[4]) for n in exp_notes)
    if "import_error" in obs:
        bad.append(("import_raises", obs["import_error"]))
    else:
        if any(d != [ppq] for d in obs.get("idivs", [])):
            bad.append(("import_divs", "imported parts have divisions %s, file ppq %d" % (obs.get("idivs"), ppq)))
        got = Counter((n[2], n[3], n[4]) for n in obs["inotes"])
        if got != e_ms:
            bad.append(("roundtrip_score", "load_score_midi notes (onset, duration, pitch in ticks of 1/%d quarter): extra %s missing %s"
                        % (ppq, sorted((got - e_ms).items())[:4], sorted((e_ms - got).items())[:4])))
        else:
            bad += oracle_grouping(case, exp_notes, obs)
        # signatures / tempo in the imported score
        its = {(t, b, bt) for _, t, b, bt in obs["its"]}
        if case["anacrusis"] != "time_sig_change" and its != set(exp_ts):
            bad.append(("import_time_signature", "imported time signatures %s, expected %s" % (sorted(its), sorted(exp_ts))))
        if case["anacrusis"] == "time_sig_change" and its != set(all_meta_ts):
            bad.append(("import_time_signature", "imported time signatures %s, file has %s" % (sorted(its), sorted(all_meta_ts))))
        iks = {(t, key_code(key_name(f, m))) for _, t, f, m in obs["iks"]}
        if iks != set(exp_ks):
            bad.append(("import_key_signature", "imported key signatures %s, expected %s" % (sorted(iks), sorted(exp_ks))))
        if not fbad and got == e_ms:
            bad += oracle_import_sigs(case, tracks, fnotes, obs)
            bad += oracle_again(case, obs, ppq, sum(has_notes))
        itp = sorted((t, bpm) for _, t, bpm, _ in obs["itempo"])
        if [t for t, _ in itp] != sorted(exp_tempo) or any(abs(bpm - exp_tempo[t]) > exp_tempo[t] * 1e-5 for t, bpm in itp):
            bad.append(("import_tempo", "imported tempi %s, expected %s" % (itp, sorted(exp_tempo.items()))))
    if "zv_error" in obs:
        bad.append(("import_raises", obs["zv_error"]))
    if "inotes_zv" in obs and "inotes" in obs and Counter(obs["inotes_zv"]) != Counter(obs["inotes"]):
        d1, d2 = Counter(obs["inotes_zv"]), Counter(obs["inotes"])
        bad.append(("zero_velocity", "load_score_midi reads other notes (part, voice, onset, duration, pitch) when the note offs are written as note_on with "
                    "velocity 0: extra %s missing %s" % (sorted((d1 - d2).items())[:4], sorted((d2 - d1).items())[:4])))
    if "pnotes_zv" in obs and "pnotes" in obs and Counter(obs["pnotes_zv"]) != Counter(obs["pnotes"]):
        d1, d2 = Counter(obs["pnotes_zv"]), Counter(obs["pnotes"])
        bad.append(("zero_velocity", "load_performance_midi reads other notes (track, channel, on, off, pitch, velocity) when the note offs are written as "
                    "note_on with velocity 0: extra %s missing %s" % (sorted((d1 - d2).items())[:4], sorted((d2 - d1).items())[:4])))
    if "perf_error" in obs:
        bad.append(("import_raises", obs["perf_error"]))
    else:
        got = Counter((n[2], n[3] - n[2], n[4]) for n in obs["pnotes"])
        if got != e_ms:
            bad.append(("roundtrip_performance", "load_performance_midi notes (on tick, duration, pitch): extra %s missing %s"
                        % (sorted((got - e_ms).items())[:4], sorted((e_ms - got).items())[:4])))
        pv = sorted({n[5] for n in obs["pnotes"]})
        if pv != [case["velocity"]]:
            bad.append(("velocity", "velocities read back %s, requested %d" % (pv, case["velocity"])))
    return bad


def match_notes(exp_notes, fnotes):
    """Expected notes (part, voice, on, off, pitch) matched to the notes read from the file
    (track, channel, on, off, pitch) through (on, off, pitch); only unambiguous matches."""
    f_by, e_by = {}, {}
    for n in fnotes:
        f_by.setdefault((n[2], n[3], n[4]), []).append((n[0], n[1]))
    for n in exp_notes:
        e_by.setdefault((n[2], n[3], n[4]), []).append(n)
    uniq = [(e_by[k][0], f_by[k][0]) for k in sorted(e_by) if len(e_by[k]) == 1 and len(f_by.get(k, [])) == 1]
    return uniq, f_by, e_by


def mode_labels(case):
    """(channel label, track label) of a note key (part index, voice) under the documented mode."""
    mode = case["mode"]
    gids = group_ids(case)

    def tc(pi, voice):
        return {0: (pi, voice), 1: (gids[pi], pi), 2: (pi,), 3: (pi,), 4: (), 5: (pi, voice)}[mode]

    def tr(pi, voice):
        return {0: (pi,), 1: (gids[pi],), 2: (), 3: (pi,), 4: (), 5: (pi, voice)}[mode]

    return tc, tr


def oracle_track_channel(case, uniq, n_tracks):
    """The written file itself: two notes share (track, channel) iff the mode relates their
    (group, part, voice) keys, share a track iff the mode puts them in one track; no empty track."""
    tc, tr = mode_labels(case)
    fwd, bwd, tf, tb = {}, {}, {}, {}
    for (pi, voice, on, off, pitch), (t, ch) in uniq:
        a, b = tc(pi, voice), tr(pi, voice)
        if fwd.setdefault(a, (t, ch)) != (t, ch) or bwd.setdefault((t, ch), a) != a:
            return [("track_channel", "mode %d: note (part %d, voice %s, tick %d, pitch %d) is in track %d channel %d; key class %s <-> %s, "
                     "(track, channel) %s <-> %s" % (case["mode"], pi, voice, on, pitch, t, ch, a, fwd.get(a), (t, ch), bwd.get((t, ch))))]
        if tf.setdefault(b, t) != t or tb.setdefault(t, b) != b:
            return [("track_channel", "mode %d: note (part %d, voice %s, tick %d, pitch %d) is in track %d; track class %s <-> %s, track %d <-> %s"
                     % (case["mode"], pi, voice, on, pitch, t, b, tf.get(b), t, tb.get(t)))]
    want = len({tr(pi, n["voice"]) for pi, ps in enumerate(case["parts"]) for n in ps["notes"]})
    if n_tracks != want:
        return [("track_channel", "mode %d: %d tracks written, the score has %d track classes" % (case["mode"], n_tracks, want))]
    return []


def candidates(uniq, f_by, e_by, n_tracks):
    """per track: parts surely having notes in it, parts possibly having notes in it"""
    pmin = [set() for _ in range(n_tracks)]
    pmax = [set() for _ in range(n_tracks)]
    for (pi, _, _, _, _), (t, _) in uniq:
        pmin[t].add(pi)
    for k, ns in e_by.items():
        for (t, _) in f_by.get(k, []):
            for n in ns:
                pmax[t].add(n[0])
    return pmin, pmax


def oracle_track_sigs(case, tracks, uniq, f_by, e_by, part_ts, part_ks):
    """Every track carries the key (and, except under time_sig_change, time) signatures of exactly the
    parts that have notes in it, at their ticks."""
    pmin, pmax = candidates(uniq, f_by, e_by, len(tracks))
    for ti, tr in enumerate(tracks):
        for kind, name, per_part in ((3, "key_signature", part_ks), (2, "time_signature", part_ts)):
            if kind == 2 and case["anacrusis"] == "time_sig_change":
                continue
            got = {(m[0], m[2]) if kind == 3 else (m[0], m[2], m[3]) for m in tr if m[1] == kind}
            lo = set().union(*[per_part[pi] for pi in pmin[ti]]) if pmin[ti] else set()
            hi = set().union(*[per_part[pi] for pi in pmax[ti]]) if pmax[ti] else set()
            if not (lo <= got <= hi):
                return [(name, "track %d holds notes of parts %s and carries the %ss %s; the signatures of these parts are %s"
                         % (ti, sorted(pmax[ti]), name, sorted(got), sorted(hi)))]
    return []


def oracle_import_sigs(case, tracks, fnotes, obs):
    """Every imported part has the signatures of exactly the tracks its notes were read from."""
    f_by = {}
    for n in fnotes:
        f_by.setdefault((n[2], n[3] - n[2], n[4]), set()).add(n[0])
    i_cnt = Counter((n[2], n[3], n[4]) for n in obs["inotes"])
    tmin, tmax = {}, {}
    for pn, voice, on, dur, pitch in obs["inotes"]:
        c = f_by.get((on, dur, pitch), set())
        tmax.setdefault(pn, set()).update(c)
        tmin.setdefault(pn, set())
        if len(c) == 1 and i_cnt[(on, dur, pitch)] == 1:
            tmin[pn].update(c)
    for kind, name, lst in ((3, "import_key_signature", [(pn, (t, key_code(key_name(f, m)))) for pn, t, f, m in obs["iks"]]),
                            (2, "import_time_signature", [(pn, (t, b, bt)) for pn, t, b, bt in obs["its"]])):
        per_track = [{(m[0], m[2]) if kind == 3 else (m[0], m[2], m[3]) for m in tr if m[1] == kind} for tr in tracks]
        for pn in sorted(tmax):
            got = {x for q, x in lst if q == pn}
            lo = set().union(*[per_track[t] for t in tmin[pn]]) if tmin[pn] else set()
            hi = set().union(*[per_track[t] for t in tmax[pn]]) if tmax[pn] else set()
            if kind == 2 and not hi:
                lo = hi = {(0, 4, 4)}
            if not (lo <= got <= hi):
                return [(name, "imported part P%d read its notes from tracks %s and has the %ss %s; these tracks carry %s"
                         % (pn + 1, sorted(tmax[pn]), name[7:], sorted(got), sorted(hi)))]
    return []


def oracle_again(case, obs, ppq, n_sounding_parts):
    """The imported parts are scores as well: exporting each of them again gives the notes it holds."""
    if case["mode"] == 2 and n_sounding_parts >= 2:
        return []  # C04-K1: the notes of several parts sit in one voice of one part, equal pitches may overlap there
    for pn, ppq2, notes2 in obs.get("again", []):
        if isinstance(notes2, str):
            return [("reexport", "P%d: %s" % (pn + 1, notes2))]
        mine = Counter((n[2], n[2] + n[3], n[4]) for n in obs["inotes"] if n[0] == pn)
        got = Counter((n[2], n[3], n[4]) for n in notes2)
        if ppq2 != ppq or mine != got:
            return [("reexport", "exporting the imported part P%d (divisions %d) again: ticks per quarter %d, notes (on, off, pitch) extra %s missing %s"
                     % (pn + 1, ppq, ppq2, sorted((got - mine).items())[:4], sorted((mine - got).items())[:4]))]
    return []


def oracle_tsc(case, tracks, tk, uniq):
    """time_sig_change: the signature in force at the start of every measure is the score's when the
    measure has its nominal length and fits the measure (same beat type) when it does not; the
    score's own signatures at regular measures are written at their positions."""
    bad = []
    for pi, ps in enumerate(case["parts"]):
        # tracks carrying this part's signatures: those that contain a time signature at all (every
        # track of the part gets them); in-force lookup over the union of all tracks is ambiguous
        # only when parts disagree, which the generator does not produce
        mine = sorted({t for (n, (t, _)) in uniq if n[0] == pi})
        if not mine:
            continue  # no note of this part could be located in the file
        evs = sorted({(m[0], m[2], m[3]) for t in mine for m in tracks[t] if m[1] == 2})
        if len({e[0] for e in evs}) != len(evs):
            bad.append(("time_signature", "two different time signatures at one tick: %s" % evs))
            continue
        cur = None
        tsl = sorted(ps["tsigs"])
        for (s, e) in ps["measures"]:
            inforce = [x for x in tsl if x[0] <= s][-1]
            lenq = qraw(ps["qd"], e) - qraw(ps["qd"], s)
            nominal = Fraction(4 * inforce[1], inforce[2])
            tick = int(tk(pi, s))
            got = [x for x in evs if x[0] <= tick]
            got = got[-1] if got else None
            if got is None:
                bad.append(("time_signature", "no time signature in force at tick %d (measure at %d of %s)" % (tick, s, ps["id"])))
                break
            gl = Fraction(4 * got[1], got[2])
            if lenq == nominal:
                if (got[1], got[2]) != (inforce[1], inforce[2]):
                    bad.append(("time_signature", "measure at tick %d is a regular %d/%d measure but %d/%d is in force in the file"
                                % (tick, inforce[1], inforce[2], got[1], got[2])))
                    break
            elif gl != lenq or got[2] != inforce[2]:
                bad.append(("time_signature", "irregular measure at tick %d lasts %s quarters but %d/%d is in force in the file"
                            % (tick, lenq, got[1], got[2])))
                break
    return bad


def oracle_grouping(case, exp_notes, obs):
    """O5: the partition of the notes into (part, voice) after import equals the partition by the
    mode's relation before export (and parts share a group iff they did)."""
    mode = case["mode"]
    label, gids = grouping_relation(case, mode)
    e = {}
    for pi, voice, on, off, pitch in exp_notes:
        e.setdefault((on, off - on, pitch), []).append((label(pi, voice), gids[pi] if mode == 1 else None))
    g = {}
    grp = dict(obs["igroups"])
    for pn, voice, on, dur, pitch in obs["inotes"]:
        g.setdefault((on, dur, pitch), []).append(((pn, voice), grp.get(pn) if mode == 1 else None))
    # notes with identical (onset, duration, pitch) are indistinguishable: skip those
    pairs = [(e[k][0], g[k][0]) for k in e if len(e[k]) == 1 and len(g.get(k, [])) == 1]
    fwd, bwd, gf, gb = {}, {}, {}, {}
    for (el, eg), (gl, gg) in pairs:
        if fwd.setdefault(el, gl) != gl or bwd.setdefault(gl, el) != el:
            return [("grouping", "mode %d: notes related by the mode's relation are not grouped alike after import "
                     "(original block %s -> imported (part, voice) %s, but also %s <-> %s)" % (mode, el, gl, fwd.get(el), bwd.get(gl)))]
        if mode == 1 and (gf.setdefault(eg, gg) != gg or gb.setdefault(gg, eg) != eg):
            return [("grouping", "mode 1: part groups not recovered (%s -> %s)" % (eg, gg))]
    return []


# ----------------------------------------------------------------------------
# history stream: state carried between calls
#
# A world is a description (as above) plus the live objects built from it once.  Edit ops change the
# live objects through the public API or in place AND the description (a pure function, edit_desc);
# observation ops call save_score_midi on the live objects (and the importers on the files written so
# far) and are judged against the CURRENT description only: by the oracle above, and by the same
# export on objects freshly built from the current description.

HQ = [5, 7, 9, 10, 3, 6, 12, 24, 48, 16, 20]
K_DIV = ["int", "int8", "int8", "int16", "int32", "int64", "uint8"]
K_T = ["int", "int16", "int32", "int64"]
K_CFG = ["int", "int", "int64", "int32", "uint8", "int16"]
K_MIN = ["int", "int64", "int32", "float", "0d", "int16"]


def _chain_of(ps, k):
    return ps["notes"][k % len(ps["notes"])] if ps["notes"] else None


def edit_desc(case, op):
    """The description after an edit op; None when the op does not apply or would leave the
    property's quantifier (equal-pitch overlap) / the harness's assumptions."""
    c = json.loads(json.dumps(case))
    kind = op["op"]
    if op["p"] >= len(c["parts"]):
        return None
    ps = c["parts"][op["p"]]
    if kind in ("voice", "pitch", "remove", "untie"):
        if not ps["notes"]:
            return None
        k = op["n"] % len(ps["notes"])
        n = ps["notes"][k]
        if kind == "voice":
            if n["voice"] == op["v"]:
                return None
            n["voice"] = op["v"]
        elif kind == "pitch":
            if n["pitch"] == op["pitch"]:
                return None
            n["pitch"] = op["pitch"]
        elif kind == "remove":
            ps["notes"].pop(k)
        else:
            if len(n["durs"]) < 2:
                return None
            j = 1 + op["j"] % (len(n["durs"]) - 1)
            first = {"t": n["t"], "durs": n["durs"][:j], "pitch": n["pitch"], "voice": n["voice"]}
            second = {"t": n["t"] + sum(n["durs"][:j]), "durs": n["durs"][j:], "pitch": n["pitch"], "voice": n["voice"]}
            ps["notes"][k] = first
            ps["notes"].insert(k + 1, second)  # next to the first: the objects keep their insertion order
    elif kind == "add":
        if not ps["notes"]:
            return None
        src = ps["notes"][op["src"] % len(ps["notes"])]
        ps["notes"].append({"t": src["t"], "durs": list(src["durs"]), "pitch": op["pitch"], "voice": op["v"]})
    elif kind == "ksig":
        if not ps["ksigs"]:
            return None
        ks = ps["ksigs"][op["i"] % len(ps["ksigs"])]
        if (ks[1], ks[2]) == (op["f"], op["m"]):
            return None
        ks[1], ks[2] = op["f"], op["m"]
    elif kind == "tempo":
        if not ps["tempi"]:
            return None
        tp = ps["tempi"][op["i"] % len(ps["tempi"])]
        if tp[1] == op["bpm"]:
            return None
        tp[1] = op["bpm"]
    elif kind == "qd_end":
        t_end = ps["measures"][-1][1]
        if ps["qd"][-1][0] >= t_end or ps["qd"][-1][1] == op["q"]:
            return None
        ps["qd"].append([t_end, op["q"]])
    elif kind == "qd_scale":
        if ps["qd"][0][1] == op["q"] or (len(ps["qd"]) > 1 and ps["qd"][1][1] == op["q"]):
            return None
        ps["qd"][0][1] = op["q"]
        c["no_tsc"] = True  # measures of this part are no longer whole beats: time_sig_change is outside the oracle
    elif kind == "replace":
        if c["container"] == "part":
            return None
        for sub in op["edits"]:
            c2 = edit_desc(c, dict(sub, p=op["p"]))
            if c2 is not None:
                c = c2
        if c["container"] == "score" and op["p"] not in c["structure"]:
            c["detached"] = sorted(set(c.get("detached", [])) | {op["p"]})
    else:
        return None
    if not any(q["notes"] for q in c["parts"]):
        return None
    if not respects_quantifier(dict(c, mode=4)):
        return None
    return c


class World:
    def __init__(self, case):
        self.case = json.loads(json.dumps(case))
        self.maps = []
        self.parts, self.top = build(self.case, self.maps)
        self.data = make_data(self.case, self.parts, self.top)
        self.files = []
        self.fresh_ids = 0
        # for the Coq history machine (Model/C04_hist.v): initial quarter durations, the edits that touch
        # them, and what every export saw
        self.log0 = live_qds(self.data)
        self.log = []


def live_qds(data):
    """quarter_durations() of the parts save_score_midi iterates over, in its order."""
    import partitura.score as S

    parts = data.parts if isinstance(data, S.Score) else (data if isinstance(data, list) else [data])
    return [[(int(t), int(q)) for t, q in p.quarter_durations()] for p in S.iter_parts(parts)]


def edit_live(w, op, new_case):
    """The same edit on the live objects: public API (add / remove / set_quarter_duration /
    score[i] = part) or attributes in place."""
    kind = op["op"]
    pi = op["p"]
    part = w.parts[pi]
    m = w.maps[pi]
    kinds = w.case.get("kinds")
    ps_old = w.case["parts"][pi]
    if kind in ("voice", "pitch", "remove", "untie"):
        k = op["n"] % len(m["notes"])
        chain = m["notes"][k]
        if kind == "voice":
            for o in chain:
                o.voice = kind_of(kinds, "voice", op["v"])
        elif kind == "pitch":
            step, alter = PCS[op["pitch"] % 12]
            for o in chain:
                o.step, o.alter, o.octave = step, alter, op["pitch"] // 12 - 1
        elif kind == "remove":
            for o in chain:
                part.remove(o)
            m["notes"].pop(k)
        else:
            j = 1 + op["j"] % (len(chain) - 1)
            chain[j - 1].tie_next = None
            chain[j].tie_prev = None
            m["notes"][k] = chain[:j]
            m["notes"].insert(k + 1, chain[j:])
    elif kind == "add":
        w.fresh_ids += 1
        n = new_case["parts"][pi]["notes"][-1]
        m["notes"].append(add_note_objects(part, ps_old["id"], len(m["notes"]), n, kinds, tag="-h%d" % w.fresh_ids))
    elif kind == "ksig":
        o = m["ksigs"][op["i"] % len(m["ksigs"])]
        o.fifths, o.mode = op["f"], op["m"]
    elif kind == "tempo":
        m["tempi"][op["i"] % len(m["tempi"])].bpm = op["bpm"]
    elif kind == "qd_end":
        part.set_quarter_duration(kind_of(kinds, "t", ps_old["measures"][-1][1]), kind_of(kinds, "div", op["q"]))
        w.log.append("(HSetQD %s %s %s)" % (cz(pi), cz(ps_old["measures"][-1][1]), cz(op["q"])))
    elif kind == "qd_scale":
        part.set_quarter_duration(kind_of(kinds, "t", 0), kind_of(kinds, "div", op["q"]))
        w.log.append("(HSetQD %s 0 %s)" % (cz(pi), cz(op["q"])))
    elif kind == "replace":
        import partitura.score as S

        m2 = {}
        new = build_part(new_case["parts"][pi], kinds, m2)
        old = w.parts[pi]
        cont = w.case["container"]
        if cont == "score":
            w.data[pi] = new                      # Score.__setitem__: the flat list only
            if pi in w.case["structure"]:
                w.top[w.top.index(old)] = new     # w.top is the list the Score was made from, not its part_structure
        else:
            g = old.parent
            if g is None:
                w.top[w.top.index(old)] = new     # w.top IS score_data for a list: the caller edits its list
            else:
                g.children[[id(x) for x in g.children].index(id(old))] = new
                new.parent = g
        w.parts[pi] = new
        w.maps[pi] = m2
        w.log.append("(HSetItem %s %s)" % (cz(pi), cqd(new_case["parts"][pi]["qd"])))
    w.case = new_case


def cqd(qd):
    return clist([ctuple([cz(int(t)), cz(int(q))]) for t, q in qd])


def coq_history(w):
    """(initial state, ops, observations) of one world as a Coq term for check_hist."""
    obs = [x for x in w.log if isinstance(x, tuple)]
    ops = [x if isinstance(x, str) else "(HExport %s)" % cz(x[0]) for x in w.log]
    return "(%s, %s, %s)" % (clist([cqd(q) for q in w.log0]), clist(ops),
                             clist(["(%s, %s)" % (cz(o[1]), clist([cqd(q) for q in o[2]])) for o in obs]))


def scribble(mf):
    """Write into everything a returned MidiFile gives access to."""
    import mido

    for tr in mf.tracks:
        for msg in tr:
            msg.time += 5
            if msg.type in ("note_on", "note_off"):
                msg.note = (msg.note + 1) % 128
                msg.channel = (msg.channel + 1) % 16
            elif msg.type == "set_tempo":
                msg.tempo += 1000
            elif msg.type == "time_signature":
                msg.numerator += 1
            elif msg.type == "key_signature":
                msg.key = "F#" if msg.key != "F#" else "C"
        tr.insert(0, mido.MetaMessage("marker", text="x", time=3))
    mf.tracks.append(mido.MidiTrack())
    mf.ticks_per_beat += 1


CFG_KEYS = ("mode", "velocity", "anacrusis", "minimum_ppq", "out", "zero_velocity_offs")


class CpuTimeout(Exception):
    pass


class cpu_limit:
    """Raise CpuTimeout when the block uses more than `secs` of this process's CPU time (not wall time)."""

    def __init__(self, secs):
        self.secs = secs

    def _fire(self, *a):
        raise CpuTimeout("no result after %d s of CPU time" % self.secs)

    def __enter__(self):
        import signal
        self.old = signal.signal(signal.SIGVTALRM, self._fire)
        signal.setitimer(signal.ITIMER_VIRTUAL, self.secs)

    def __exit__(self, *a):
        import signal
        signal.setitimer(signal.ITIMER_VIRTUAL, 0)
        signal.signal(signal.SIGVTALRM, self.old)
        return False


def drop_known(case, bad):
    if case["mode"] == 2 and len(case["parts"]) >= 2:
        return [b for b in bad if b[0] != "grouping"]  # C04-K1
    return bad


def observe_export(w, wi, op, workdir):
    """save_score_midi on the live objects of world w, judged against the current description."""
    case = json.loads(json.dumps(w.case))
    for k in CFG_KEYS:
        case[k] = op[k]
    ck = dict(case.get("kinds") or {})
    ck.update(op.get("ckinds") or {})
    if ck:
        case["kinds"] = ck
    with cpu_limit(6):
        mf, src, err = do_export(w.data, case, workdir, tag="_h%d_%d" % (wi, len(w.files)))
    if err:
        return [("export_raises", err)]
    obs = {"ppq": int(mf.ticks_per_beat), "tracks": read_messages(mf)}
    w.log.append((int(case["minimum_ppq"]), obs["ppq"], live_qds(w.data)))
    observe_import(case, mf, src, obs, order=op.get("order", ("score", "zv", "perf")))
    bad = drop_known(case, oracle(case, obs))
    # the same call on objects freshly built from the current description
    parts2, top2 = build(case)
    mf2, _, err2 = do_export(make_data(case, parts2, top2), dict(case, out="none"), workdir)
    if err2:
        bad.append(("harness", "export of the freshly built current state: " + err2))
    elif (int(mf2.ticks_per_beat), [sorted(absolute(tr)) for tr in read_messages(mf2)]) != (obs["ppq"], [sorted(absolute(tr)) for tr in obs["tracks"]]):
        # (per track the same messages at the same ticks; the order inside a tick is judged by the oracle's reading)
        t2 = read_messages(mf2)
        where = next((i for i, (a, b) in enumerate(zip(obs["tracks"], t2)) if a != b), None)
        bad.append(("fresh", "the file written for the edited objects differs from the file written for objects freshly built from the "
                    "current state: ticks per quarter %d / %d, tracks %d / %d, first differing track %s"
                    % (obs["ppq"], int(mf2.ticks_per_beat), len(obs["tracks"]), len(t2), where)))
    w.files.append({"mf": mf, "src": src, "case": case, "dead": False})
    return bad


def observe_reimport(w, op):
    """An earlier file read again (it must still hold what was written: nobody but the caller owns it)."""
    import mido

    live = [r for r in w.files if not r["dead"]]
    if not live:
        return None
    rec = live[op["f"] % len(live)]
    mf = rec["mf"] if not isinstance(rec["src"], str) else mido.MidiFile(rec["src"])
    obs = {"ppq": int(mf.ticks_per_beat), "tracks": read_messages(mf)}
    observe_import(rec["case"], mf, rec["src"], obs, order=op.get("order", ("perf", "score", "zv")))
    return drop_known(rec["case"], oracle(rec["case"], obs))


def run_history(h, workdir, trace=None, keep=None):
    """Replays a history {'worlds': [descriptions], 'ops': [...]}.  Returns the failures of the first
    failing observation as (op index, [(kind, message)]) or None."""
    worlds = [World(c) for c in h["worlds"]]
    if keep is not None:
        keep.extend(worlds)
    for i, op in enumerate(h["ops"]):
        wi = op.get("w", 0)
        if wi >= len(worlds):
            continue
        w = worlds[wi]
        kind = op["op"]
        bad = None
        if kind == "export":
            if op["anacrusis"] == "time_sig_change" and w.case.get("no_tsc"):
                continue
            bad = observe_export(w, wi, op, workdir)
        elif kind == "reimport":
            bad = observe_reimport(w, op)
        elif kind == "scribble":
            live = [r for r in w.files if not r["dead"] and r["case"]["out"] == "none"]
            if live:
                rec = live[op["f"] % len(live)]
                scribble(rec["mf"])
                rec["dead"] = True
        else:
            new = edit_desc(w.case, op)
            if new is None:
                continue
            edit_live(w, op, new)
        if trace is not None:
            trace.append((i, op, bad))
        if bad:
            return i, bad
    return None


def gen_edit(rng, case):
    """One edit op that applies to the description (or None)."""
    for _ in range(8):
        pi = rng.randrange(len(case["parts"]))
        ps = case["parts"][pi]
        kind = rng.choice(["voice", "voice", "pitch", "pitch", "remove", "add", "add", "untie", "untie", "ksig", "tempo",
                           "qd_end", "qd_end", "qd_scale", "replace", "replace"])
        op = {"op": kind, "p": pi}
        pool = [48 + 12 * pi + x for x in (0, 2, 4, 5, 7, 9, 11, 1, 3)]
        if kind == "voice":
            op.update(n=rng.randrange(64), v=rng.choice([1, 2, 3, 4, 5]))
        elif kind == "pitch":
            op.update(n=rng.randrange(64), pitch=rng.choice(pool + [rng.randint(21, 108)]))
        elif kind == "remove":
            op.update(n=rng.randrange(64))
        elif kind == "add":
            op.update(src=rng.randrange(64), pitch=rng.choice(pool + [rng.randint(21, 108)]), v=rng.choice([1, 2, 3, 6]))
        elif kind == "untie":
            ties = [k for k, n in enumerate(ps["notes"]) if len(n["durs"]) > 1]
            if not ties:
                continue
            op.update(n=rng.choice(ties), j=rng.randrange(4))
        elif kind == "ksig":
            op.update(i=rng.randrange(4), f=rng.randint(-7, 7), m=rng.choice(["major", "minor"]))
        elif kind == "tempo":
            op.update(i=rng.randrange(4), bpm=rng.choice(BPMS))
        elif kind == "qd_end":
            op.update(q=rng.choice(HQ))
        elif kind == "qd_scale":
            d0 = ps["qd"][0][1]
            op.update(q=rng.choice([2 * d0, 3 * d0, 2 * d0] + ([d0 // 2] if d0 % 2 == 0 else [])))
        else:
            subs = []
            for _ in range(rng.randint(1, 3)):
                sk = rng.choice(["pitch", "pitch", "remove", "voice", "add"])
                sub = {"op": sk, "n": rng.randrange(64)}
                if sk == "pitch":
                    sub["pitch"] = rng.choice(pool)
                elif sk == "voice":
                    sub["v"] = rng.choice([1, 2, 3])
                elif sk == "add":
                    sub.update(src=rng.randrange(64), pitch=rng.choice(pool), v=rng.choice([1, 2]))
                subs.append(sub)
            op["edits"] = subs
        new = edit_desc(case, op)
        if new is not None and json.dumps(new, sort_keys=True) != json.dumps(case, sort_keys=True):
            return op, new
    return None, case


def gen_cfg(rng, case):
    an = rng.choice(ANACRUSIS)
    if case.get("no_tsc") and an == "time_sig_change":
        an = rng.choice(["shift", "pad_bar"])
    cfg = {"mode": rng.randint(0, 5), "velocity": rng.choice(VELS), "anacrusis": an, "minimum_ppq": rng.choice(MINPPQ),
           "out": rng.choice(["none"] * 5 + ["path"] * 2 + ["fileobj"]), "zero_velocity_offs": rng.random() < 0.2}
    if rng.random() < 0.4:
        cfg["ckinds"] = {"mode": rng.choice(K_CFG), "velocity": rng.choice(K_CFG), "minimum_ppq": rng.choice(K_MIN)}
    order = ["score", "zv", "perf"]
    rng.shuffle(order)
    cfg["order"] = order
    return cfg


def gen_history(rng):
    base = gen_case(rng, 1, strict=True)
    if rng.random() < 0.5:
        base["kinds"] = {"div": rng.choice(K_DIV), "t": rng.choice(K_T), "voice": rng.choice(["int", "int64", "int8"])}
    sims = [base]
    if rng.random() < 0.55:
        if rng.random() < 0.6:
            # a sibling: the same score (same ids, same sizes) after a few edits
            sib = json.loads(json.dumps(base))
            for _ in range(rng.randint(1, 3)):
                _, sib = gen_edit(rng, sib)
            sib.pop("detached", None)
            if rng.random() < 0.5:
                sib.pop("kinds", None)
            sims.append(sib)
        else:
            sims.append(gen_case(rng, 1, strict=True))
    worlds = [json.loads(json.dumps(c)) for c in sims]
    ops = []
    last_cfg = [None] * len(sims)

    def export(wi, same=False):
        cfg = last_cfg[wi] if (same and last_cfg[wi]) else gen_cfg(rng, sims[wi])
        if cfg["anacrusis"] == "time_sig_change" and sims[wi].get("no_tsc"):
            cfg = dict(cfg, anacrusis="shift")
        last_cfg[wi] = cfg
        ops.append(dict(cfg, op="export", w=wi))

    order = list(range(len(sims)))
    rng.shuffle(order)
    for wi in order:
        export(wi)
    for _ in range(rng.randint(3, 5)):
        wi = rng.randrange(len(sims))
        r = rng.random()
        if r < 0.12:
            ops.append({"op": "scribble", "w": wi, "f": rng.randrange(8)})
            export(wi, same=True)
            continue
        if r < 0.22:
            o = ["score", "zv", "perf"]
            rng.shuffle(o)
            ops.append({"op": "reimport", "w": wi, "f": rng.randrange(8), "order": o})
            continue
        for _ in range(rng.choice([1, 1, 2])):
            op, new = gen_edit(rng, sims[wi])
            if op is not None:
                ops.append(dict(op, w=wi))
                sims[wi] = new
        export(wi, same=rng.random() < 0.5)
        if len(sims) > 1 and rng.random() < 0.5:
            export(1 - wi, same=rng.random() < 0.7)   # the other world, untouched, right after
    return {"worlds": worlds, "ops": ops}


def shrink_history(h, kinds, workdir):
    def fails(ops):
        try:
            r = run_history({"worlds": h["worlds"], "ops": ops}, workdir)
        except Exception:  # noqa
            return False
        return r is not None and sorted({k for k, _ in r[1]}) == kinds

    ops = core.ddmin(h["ops"], fails)
    worlds = h["worlds"]
    if len(worlds) > 1 and not any(o.get("w", 0) == 1 for o in ops):
        worlds = worlds[:1]
    return {"worlds": worlds, "ops": ops}


def reproduces_fresh(h, kinds, workdir):
    """Does the history fail the same way in a NEW process (no module-level state of this run)?"""
    import subprocess
    import sys

    path = os.path.join(workdir, "hist_verify_%d.json" % os.getpid())
    with open(path, "w") as f:
        json.dump(h, f)
    here = os.path.dirname(os.path.abspath(__file__))
    code = ("import sys, json, warnings; sys.path.insert(0, %r); sys.path.insert(0, %r); import core; core.setup_import_path(); "
            "warnings.filterwarnings('ignore'); import c04; r = c04.run_history(json.load(open(%r)), %r); "
            "print('KINDS=' + json.dumps(sorted({k for k, _ in r[1]}) if r else None))" % (os.path.dirname(here), here, path, workdir))
    try:
        out = subprocess.run([sys.executable, "-c", code], capture_output=True, text=True, env=dict(os.environ, PYTHONPATH=core.REPO)).stdout
    except Exception:  # noqa
        return False
    return ("KINDS=" + json.dumps(kinds)) in out


def stage_history(ctx, n, workdir, terms, term_hist):
    found = 0
    for _ in range(n):
        if found >= 4:
            break  # (a change that makes calls hang costs CPU seconds per observation)
        h = gen_history(ctx.rng)
        trace = []
        worlds = []
        try:
            r = run_history(h, workdir, trace, worlds)
        except Exception as e:  # noqa
            import traceback
            r = (-1, [("harness", "harness raised %s\n%s" % (e, traceback.format_exc()[-800:]))])
        ctx.evaluations += 1
        ctx.count("history")
        ctx.count("history:worlds=%d" % len(h["worlds"]))
        for _, op, _ in trace:
            ctx.count("history op:" + op["op"])
            if op["op"] == "export" and op.get("ckinds"):
                ctx.count("history op:export with numpy / float configuration scalars")
        if any(c.get("kinds") for c in h["worlds"]):
            ctx.count("history:numpy scalar kinds in the score")
        if sum(1 for _, op, _ in trace if op["op"] == "export") >= 2 and any(op["op"] not in ("export", "reimport") for _, op, _ in trace):
            ctx.nontrivial("history:" + json.dumps(h, sort_keys=True))
        if r is None:
            for w in worlds:
                if any(isinstance(x, tuple) for x in w.log):
                    terms.append(coq_history(w))
                    term_hist.append(h)
                    if any(isinstance(x, str) for x in w.log):
                        ctx.count("history: quarter durations edited between exports (Coq machine)")
        if r is not None:
            i, bad = r
            kinds = sorted({k for k, _ in bad})
            if found < 4:
                small = h
                note = None
                if found < 2 and not kinds[0].startswith("harness"):
                    prefix = {"worlds": h["worlds"], "ops": h["ops"][:i + 1]}
                    small = shrink_history(prefix, kinds, workdir)
                    # state kept at module level by earlier calls of this run makes shorter histories fail here
                    # that pass in a new process: store a history that fails on its own
                    if not reproduces_fresh(small, kinds, workdir):
                        small = prefix
                        if not reproduces_fresh(small, kinds, workdir):
                            note = ("fails only after the earlier histories of this run (state kept at module level between calls); "
                                    "replay with the same VERIF_SEED to reproduce")
                ctx.violation("C04 history (call, edit, call again) fails at op %d %s: " % (i, json.dumps(h["ops"][i])[:200] if i >= 0 else "")
                              + "; ".join("%s: %s" % b for b in bad[:3])[:1300],
                              dict({"kind": "history", "worlds": small["worlds"], "ops": small["ops"], "kinds": kinds,
                                    "failures": [list(b) for b in bad[:5]]}, **({"note": note} if note else {})))
                found += 1
    return found


def is_nontrivial(case):
    ppq, ftp, an, tk = expectation(case)
    for pi, ps in enumerate(case["parts"]):
        for n in ps["notes"]:
            q = qraw(ps["qd"], n["t"]) - an[pi]
            d = q.denominator
            while d % 2 == 0:
                d //= 2
            if d != 1:
                return True
    return False


# ----------------------------------------------------------------------------


def register_known(ctx):
    # K1: the two "mode 2" are documented differently (export: channels by part in one track;
    # import: one part, voices by track, channels ignored), so >= 2 parts are merged on import.
    ctx.matchers["C04-K1"] = lambda r: (r.get("case", {}).get("mode") == 2 and len(r.get("case", {}).get("parts", [])) >= 2
                                        and r.get("kinds") == ["grouping"])


def shrink(case, fails):
    """ddmin over the notes of each part, then drop whole parts."""
    cur = json.loads(json.dumps(case))
    for pi in range(len(cur["parts"])):
        notes = cur["parts"][pi]["notes"]

        def f(sub, pi=pi):
            c = json.loads(json.dumps(cur))
            c["parts"][pi]["notes"] = sub
            return bool(sub) and fails(c)

        if len(notes) > 1:
            cur["parts"][pi]["notes"] = core.ddmin(notes, f)
    return cur


def fail_kinds(case, workdir):
    try:
        obs, _ = run_impl(case, workdir)
        return sorted({k for k, _ in oracle(case, obs)})
    except Exception as e:  # noqa
        return ["harness:" + type(e).__name__]


def run(ctx):
    ctx.rule = ("generated scores (plus the hand-written ones of corpus/C04): 1-3 parts in 0-2 levels of part groups (parts of one group at "
                "different depths included), one of them possibly without notes, divisions from {1,2,3,4,6,8,12,16,24,48,480} mixed across and "
                "inside parts (half of the time neither multiple nor divisor of those used so far), 1-3 voices (numbers need not be 1..n, one may "
                "be None), tuplet durations 1/3 2/3 1/6 1/5 2/5 1/12, pickups (also differing between parts), up to two irregular inner measures "
                "(shorter or longer, in a row, next to the pickup), grace notes (also on the pitch of the note starting or ending at their tick), "
                "chains of tied Note objects over barlines and inside measures, equal pitches abutting across voices/parts, no two equal-pitch "
                "notes overlapping within one (track, channel) of the chosen mode (35 %: anywhere); configuration drawn from 6 modes x 3 anacrusis "
                "behaviours x 5 velocities x 7 minimum_ppq x {MidiFile returned, path, file object} x {Score, list, bare Part, bare PartGroup} x "
                "{file re-read with zero-velocity note offs}.  Non-trivial = the score has a note whose onset in quarters has a denominator that "
                "is not a power of two (its tick is not exact in binary floating point).")
    ctx.trusted = ["Coq 8.16.1 kernel incl. vm_compute", "mido (byte encoding of MIDI files, exercised by the file round trip)",
                   "harness/props/c04.py: generator, object builder, printers, the Python oracle",
                   "float64: |ppq*(quarter-ftp) computed in floating point - exact value| < 1/2 for the tick sizes generated"]
    ctx.assumptions = ["every part starts at time 0 with a time signature and a measure; at least one part has a note",
                       "pickup and irregular measures last a whole number of beats (upstream TODO for time_sig_change)",
                       "parts of one score share the measure grid and time signatures; under time_sig_change the time signatures are "
                       "judged by the oracle (signature in force at each measure start, per part in the tracks holding its notes) and, since round j, by the "
                       "Coq model of that branch (Model/C04_tsc.v, stream tsc: the signature messages of every written track)",
                       "a grace note never has the pitch of a note sounding across its onset in the same track and channel (it may sit on either end of one)",
                       "MIDI channel numbers stay below 16 (at most 3 voices / parts per track)"]
    register_known(ctx)
    ok, why = ctx.coq_props(expect_min=50)
    ctx.log("proofs checked: %s" % ("ok" if ok else why[:200]))
    n = {"quick": 260, "thorough": 4500}.get(ctx.tier, 260)
    cases = corpus_cases()
    for i in range(n):
        cases.append(gen_case(ctx.rng, 1 if i % 3 else 3))
    if ctx.tier == "thorough":
        # every configuration on a fixed set of scores (all 6 x 3 configurations x to_file)
        base = [gen_case(ctx.rng, 2, strict=True) for _ in range(40)]
        for b in base:
            for mode in range(6):
                for an in ANACRUSIS:
                    c = json.loads(json.dumps(b))
                    c["mode"], c["anacrusis"] = mode, an
                    cases.append(c)
    terms, kept = [], []
    tsc_direct, tsc_others = [], []
    found = 0
    # private work directory: the default .work/C04 is wiped whenever another run of C04 starts or
    # ends, which would remove the MIDI files / cases_*.v of this run (finish() removes ctx.work)
    import shutil
    shutil.rmtree(ctx.work, ignore_errors=True)
    ctx.work = os.path.join(core.WORKROOT, "C04_%d" % os.getpid())
    shutil.rmtree(ctx.work, ignore_errors=True)
    os.makedirs(ctx.work, exist_ok=True)
    fdir = ctx.work
    for case in cases:
        try:
            obs, parts = run_impl(case, fdir)
            bad = oracle(case, obs)
        except Exception as e:  # noqa
            import traceback
            bad = [("harness", "harness raised %s\n%s" % (e, traceback.format_exc()[-800:]))]
            obs, parts = {"error": "harness"}, None
        ctx.evaluations += 1
        ctx.count("mode:%d" % case["mode"])
        ctx.count("anacrusis:" + case["anacrusis"])
        ctx.count("parts:%d" % len(case["parts"]))
        ctx.count("container:" + case["container"])
        ctx.count("out:" + case.get("out", "path" if case.get("to_file") else "none"))
        ctx.count("velocity:%d" % case["velocity"])
        ctx.count("minimum_ppq:%d" % case["minimum_ppq"])
        if any(not p["notes"] for p in case["parts"]):
            ctx.count("has a part without notes")
        if any(n_["voice"] is None for p in case["parts"] for n_ in p["notes"]):
            ctx.count("has a voice None")
        try:
            e_ppq, e_ftp, e_an, _ = expectation(case)
            l_ = 1
            for p in case["parts"]:
                for _, q in p["qd"]:
                    l_ = l_ * q // math.gcd(l_, q)
            if e_ppq != l_:
                ctx.count("ppq doubled")
            if l_ != max(q for p in case["parts"] for _, q in p["qd"]):
                ctx.count("lcm of divisions > largest divisions")
            if e_ftp < 0:
                ctx.count("pickup")
            if len(set(e_an)) > 1:
                ctx.count("pickups differ between parts")
            irr = 0
            for (s_, e_) in case["parts"][0]["measures"][1:]:
                ps0 = case["parts"][0]
                inforce = [x for x in sorted(ps0["tsigs"]) if x[0] <= s_][-1]
                if qraw(ps0["qd"], e_) - qraw(ps0["qd"], s_) != Fraction(4 * inforce[1], inforce[2]):
                    irr += 1
            if irr:
                ctx.count("irregular inner measure")
            if irr > 1:
                ctx.count("two or more irregular inner measures")
        except Exception:  # noqa
            pass
        if any(len(p["qd"]) > 1 for p in case["parts"]):
            ctx.count("divisions change inside a part")
        if any(not n_["durs"] for p in case["parts"] for n_ in p["notes"]):
            ctx.count("has grace notes")
        if any(not g_["durs"] and any(n_["durs"] and n_["t"] == g_["t"] and n_["pitch"] == g_["pitch"] for n_ in p["notes"])
               for p in case["parts"] for g_ in p["notes"]):
            ctx.count("grace note on the pitch of a note starting at its onset")
        if any(len(n_["durs"]) > 1 for p in case["parts"] for n_ in p["notes"]):
            ctx.count("has ties over barlines")
        if is_nontrivial(case):
            ctx.nontrivial(json.dumps(case, sort_keys=True))
            ctx.count("non-dyadic onset")
        if bad:
            kinds = sorted({k for k, _ in bad})
            if found < 6 or kinds == ["grouping"]:
                small = case
                if found < 3 and not kinds[0].startswith("harness") and kinds != ["grouping"]:
                    small = shrink(case, lambda c: fail_kinds(c, fdir) == kinds)
                r = ctx.violation("C04 fails: " + "; ".join("%s: %s" % b for b in bad[:3])[:1500],
                                  {"case": small, "kinds": kinds, "failures": [list(b) for b in bad[:5]]})
                if r != "known":
                    found += 1
            if kinds != ["grouping"]:
                continue
        if "error" in obs or "import_error" in obs or "perf_error" in obs:
            continue
        try:
            minput = model_input(case, parts)
            terms.append(coq_case(case, minput, obs))
            kept.append(case)
            if case["anacrusis"] == "time_sig_change":
                tsc_direct.append((case, minput, obs["ppq"], obs["tracks"]))
            elif not case.get("no_tsc"):
                tsc_others.append(case)
        except Exception as e:  # noqa
            ctx.violation("cannot read the model input from the score objects: %s" % e, {"case": case, "kinds": ["harness"]})
        if len(ctx.samples) < 2:
            ctx.sample({"case": case, "observed_ppq": obs["ppq"], "tracks": len(obs["tracks"])})
    ctx.log("implementation and oracle ran on %d cases" % len(cases))
    hterms, hhist = [], []
    found += stage_history(ctx, {"quick": 60, "thorough": 500}.get(ctx.tier, 60), fdir, hterms, hhist)
    ctx.log("history stream done (%d worlds for the Coq history machine)" % len(hterms))
    if not ok:
        if not found:
            ctx.violation("proof obligations of Props/C04.v no longer check: " + why, {"theorem_or_build": why}, no_input=True)
        return
    # one pass with the conjunction of all checkers (the case terms are parsed once); the checkers are
    # evaluated one by one only on the cases the conjunction rejects, to name the disagreeing part
    allchk = PAT % " && ".join("(%s)" % CHECKERS[n_] for n_ in ORDER)
    try:
        failing = ctx.coq_failing("all", IMPORTS, "", terms, allchk, shard=SHARD)
    except RuntimeError as e:
        for name in ORDER:
            ctx.obligation("correspondence: %s" % WHAT[name], False, str(e)[-1500:])
        ctx.violation("Coq rejected the generated cases for the correspondence: %s" % str(e)[-600:], {"kinds": ["harness"]}, no_input=True)
        return
    ctx.log("correspondence evaluated on %d cases, %d rejected" % (len(terms), len(failing)))
    per = {name: [] for name in ORDER}
    if failing:
        sub = failing[:40]
        for name in ORDER:
            try:
                f2 = ctx.coq_failing(name, IMPORTS, "", [terms[i] for i in sub], PAT % CHECKERS[name], shard=SHARD)
                per[name] = [sub[j] for j in f2]
            except RuntimeError as e:
                per[name] = list(sub)
        unnamed = [i for i in failing if not any(i in per[n_] for n_ in ORDER)]
        per[ORDER[0]] += unnamed
    reported = 0
    for name in ORDER:
        ctx.obligation("correspondence: %s on %d cases" % (WHAT[name], len(terms)), not per[name], per[name][:5])
        for i in per[name][:3]:
            if reported < 6:
                ctx.violation("model and implementation disagree (%s)" % name, {"case": kept[i], "kinds": ["correspondence:" + name]})
                reported += 1
    history_correspondence(ctx, hterms, hhist)
    stage_tsc(ctx, tsc_direct, tsc_others, fdir)


def history_correspondence(ctx, hterms, hhist):
    what = ("history machine (Model/C04_hist.v: set_qd = Part.set_quarter_duration on the lists, score[i] = part, model_ppq of the CURRENT "
            "lists at every export) = ticks_per_beat of every file and quarter_durations() of every part at every export, on %d worlds"
            % len(hterms))
    try:
        failing = ctx.coq_failing("history", "From PV Require Import Model.C04 Model.C04_hist.", "", hterms,
                                  "fun c => match c with (st, ops, obs) => check_hist st ops obs end", shard=SHARD)
    except RuntimeError as e:
        ctx.obligation("correspondence: " + what, False, str(e)[-1500:])
        ctx.violation("Coq rejected the history terms: %s" % str(e)[-600:], {"kinds": ["harness"]}, no_input=True)
        return
    ctx.obligation("correspondence: " + what, not failing, failing[:5])
    for i in failing[:2]:
        ctx.violation("history machine and implementation disagree (quarter durations / ticks per quarter after a history)",
                      {"kind": "history", "worlds": hhist[i]["worlds"], "ops": hhist[i]["ops"], "kinds": ["correspondence:history"],
                       "coq_term": hterms[i][:3000]})


def corpus_cases():
    out = []
    d = os.path.join(core.VERIF, "corpus", "C04")
    if os.path.isdir(d):
        for fn in sorted(os.listdir(d)):
            if fn.endswith(".json"):
                with open(os.path.join(d, fn)) as f:
                    out.append(json.load(f))
    return out


def replay(obj):
    r = obj.get("replay", obj)
    if r.get("kind") == "history":
        wd = os.path.join(core.WORKROOT, "C04_replay")
        os.makedirs(wd, exist_ok=True)
        trace = []
        res = run_history(r, wd, trace)
        for i, c in enumerate(r["worlds"]):
            print("world %d:" % i, json.dumps(c))
        for i, op, bad in trace:
            print("op %d: %s" % (i, json.dumps(op)))
            for k, m in bad or []:
                print("   FAIL", k, m)
        print("result:", "all observations agree with the current state" if res is None else "op %d fails" % res[0])
        import shutil
        shutil.rmtree(wd, ignore_errors=True)
        return 0
    case = r.get("case")
    if not case:
        print(json.dumps(obj, indent=1))
        return 0
    wd = os.path.join(core.WORKROOT, "C04_replay")
    os.makedirs(wd, exist_ok=True)
    obs, parts = run_impl(case, wd)
    print("case:", json.dumps(case))
    print("expected ppq / ftp:", expectation(case)[:2])
    print("observed:", json.dumps(obs)[:4000])
    for k, m in oracle(case, obs):
        print("FAIL", k, m)
    import shutil
    shutil.rmtree(wd, ignore_errors=True)
    return 0
