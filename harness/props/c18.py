"""C18 -- decoding an encoded performance reproduces the performance.

Implementation under test: partitura/musicanalysis/performance_codec.py
(encode_performance, decode_performance, to_matched_score, get_matched_notes,
get_time_maps_from_alignment and the helpers they call).

Per generated case (a single-part score with chords / voices / unisons / grace notes / pickup, a
performance aligned note for note, an alignment with matches, insertions, deletions,
ornaments and dangling ids, one of 5 normalisations x 2 tempo-curve methods; inputs as
Part/PerformedPart, single-part Score/Performance or note arrays):

 (a) direct oracle, in Python, independent of the Coq model:
     decode(encode(perf)) -- with the encoding normalisation, with the beat_period column alone, with and
     without snote_ids -- gives every matched note its performed onset up to ONE common shift, its
     performed duration and its velocity (single precision, tolerance propagated from the magnitudes
     stored as float32); the matched-note table / matched score contain exactly the matches with both
     ids present (table: in any order; score: ordered by score onset then pitch); the time maps pass
     through the matched onsets (chord means) and stay between neighbouring knots;
 (b) correspondence, two levels, evaluated inside Coq (coq/Model/C18_Check.v):
     PROPERTY bits (c18_check; a failure is a violation): the implementation's outputs satisfy the model's
     SPECIFICATIONS -- table = matched_idx as a multiset, snote_ids = any sorted permutation (sids_ok),
     the parameter array is consistent with the performance as Model/C18.v's decoder reads it (cons_off
     constant, articulation, velocity, beat_period column = rescaled normalisation columns), every decoded
     performance = the model decoder on the same parameters, time maps at the knots;
     TIE bits (c18_tie; a failure is a failed 'model tie' obligation, not a violation): the outputs are
     still computed by the formulas of Model/C18.v (tempo curves, timing origin, v/127, constants, ...).
 (d) decode_time called directly on arrays (run_loop_case): direct oracle (onsets up to one shift, durations) and the array-level
     model coq/Model/C18_Loop.v (np.cumsum, zero array, scatter loop over the groups, one shift after the loop: loop_check).
 (c) histories (run_history): the SAME objects go through all the functions, are edited through the public API / in
     place, and go through them again; every round is judged by (a) against the CURRENT state only (the JSON state
     after the edits + the note arrays of a freshly built copy); some of them also go through the state machine of
     coq/Model/C18_Hist.v (hist_check), which carries out the edits on its own tables.
"""
import copy
import json
import math
from fractions import Fraction

import core
from core import cz, cq, clist, ctuple

NORMS = ["beat_period", "beat_period_log", "beat_period_ratio", "beat_period_ratio_log", "beat_period_standardized"]
METHODS = ["average", "derivative"]
STEPS = ["C", "D", "E", "F", "G", "A", "B"]
MIN_PDUR = 60 / 200 * 0.25  # to_matched_score's floor on performed durations
F32 = 2.0 ** -23


# ----------------------------------------------------------------------------
# reflection of the normalisation table and of the defaults the model hard-codes (Gen/C18_norm.v)


def live_defaults():
    """Defaults of the live signatures: (beat_normalization of encode, of decode, tempo_smooth, remove_ornaments, eps)."""
    import inspect
    core.setup_import_path()
    from partitura.musicanalysis import performance_codec as PC

    def default(f, arg):
        return inspect.signature(f).parameters[arg].default

    return (default(PC.encode_performance, "beat_normalization"), default(PC.decode_performance, "beat_normalization"),
            default(PC.encode_performance, "tempo_smooth"), default(PC.get_time_maps_from_alignment, "remove_ornaments"),
            default(PC.get_unique_onset_idxs, "eps"))


def gen():
    """Write coq/Gen/C18_norm.v from the live module: for each of the five normalisations the property names, its
    entry of TEMPO_NORMALIZATION (index in the model, the role of each column -- 0 value / ratio / standard score,
    1 mean, 2 standard deviation -- and whether the first column is logarithmic).  Props/C18.v proves the table
    equal to the model's and rescale_n to be the rescale function these roles describe.  Further entries of the
    table (a normalisation added later) are none of C18's business and are left out."""
    core.setup_import_path()
    from partitura.musicanalysis import performance_codec as PC

    rows = []
    for name in NORMS:
        entry = PC.TEMPO_NORMALIZATION.get(name)
        if entry is None:
            continue
        roles = [1 if c.endswith("_mean") else 2 if c.endswith("_std") else 0 for c in entry["param_names"]]
        first_log = bool(entry["param_names"]) and entry["param_names"][0].endswith("_log")
        rows.append(ctuple([cz(NORMS.index(name)), clist([cz(r) for r in roles]), "true" if first_log else "false"]))
    text = "\n".join([
        "(* GENERATED by harness/props/c18.py from the working tree -- do not edit *)",
        "From Coq Require Import ZArith QArith List Bool.", "Import ListNotations.", "Open Scope Z_scope.", "",
        "Definition c18_norm_table : list (Z * list Z * bool) := %s." % clist(rows), ""])
    core.write_gen("C18_norm", text)


# ----------------------------------------------------------------------------
# case generation


def gen_case(rng, size, flavour=None):
    """A self-contained JSON-able case."""
    qd = rng.choice([1, 2, 4, 4, 6, 8, 12, 24, 480])
    ts = rng.choice([(4, 4), (3, 4), (6, 8), (2, 2), (2, 4), (5, 8)])
    div_per_beat = Fraction(qd * 4, ts[1])
    measure_len = int(div_per_beat * ts[0]) if (div_per_beat * ts[0]).denominator == 1 else None
    if measure_len is None:
        qd *= 2
        div_per_beat = Fraction(qd * 4, ts[1])
        measure_len = int(div_per_beat * ts[0])
    units = sorted({max(1, qd // k) for k in (1, 2, 3, 4)} | {qd, 2 * qd})
    if qd >= 100 and rng.random() < 0.5:
        # distinct score onsets only 1/480 beat apart (still far above the 1e-6 grouping tolerance)
        units = sorted(set(units) | {1, 2, 3})
    pickup = 0
    if rng.random() < 0.35 and measure_len > 1:
        pickup = rng.choice([u for u in units if u < measure_len] or [0])
    flavour = flavour or rng.choices(
        ["musical", "random", "deadpan", "wild", "single", "lonely"], weights=[46, 20, 10, 12, 7, 5])[0]
    n_onsets = 1 if flavour == "single" else rng.randint(2, max(2, size))
    notes = []
    # the first note need not stand at the beginning of the score (a measure of rest first: 20%)
    t = measure_len if (rng.random() < 0.2 and not pickup) else 0
    nid = 0
    for k in range(n_onsets):
        # what sounds at this onset
        kind = rng.choices(["single", "chord", "voices", "unison"], weights=[45, 30, 20, 5])[0]
        dur = rng.choice(units)
        here = []
        base = rng.randint(40, 80)
        if kind == "single":
            here.append((base, dur, 1))
        elif kind == "chord":
            for j in range(rng.randint(2, 4)):
                here.append((base + 3 * j + rng.randint(0, 2), dur, 1))
        elif kind == "voices":
            for v in range(1, rng.randint(2, 3) + 1):
                here.append((base - 12 * (v - 1) + rng.randint(0, 5), rng.choice(units), v))
        else:  # the same pitch in two voices, different lengths
            here.append((base, dur, 1))
            here.append((base, dur * 2 if rng.random() < 0.7 else dur, 2))
        if rng.random() < 0.2:  # grace note(s) before the main note, same score onset
            for g in range(rng.randint(1, 2)):
                notes.append({"id": "n%d" % nid, "pitch": base + 1 + g, "start": t, "end": t, "voice": 1, "grace": True})
                nid += 1
        for p, d, v in here:
            notes.append({"id": "n%d" % nid, "pitch": p, "start": t, "end": t + d, "voice": v, "grace": False})
            nid += 1
        t += rng.choice(units) if k > 0 or not pickup else pickup
    if rng.random() < 0.12:  # a trailing grace note after everything else has ended
        tend = max(n["end"] for n in notes)
        if qd % 3 == 0 and rng.random() < 0.6:
            # ... whose predecessor has a triplet length: its end (onset + duration, both single precision) is not
            # exactly the grace note's onset (5/6 vs 0.5 + 1/3), the last score interval must not collapse to ~1e-8 beat
            st = tend + rng.choice([0, qd // 2, qd // 3])
            d = rng.choice([qd // 3, 2 * qd // 3])
            notes.append({"id": "n%d" % nid, "pitch": 72, "start": st, "end": st + d, "voice": 1, "grace": False})
            nid += 1
            tend = st + d
        notes.append({"id": "n%d" % nid, "pitch": 70, "start": tend, "end": tend, "voice": 1, "grace": True})
        nid += 1
    rng.shuffle(notes)  # insertion order into the part must not matter

    # performance: one performed note per score note, in (onset, pitch) order
    order = sorted(range(len(notes)), key=lambda i: (notes[i]["start"], notes[i]["pitch"], i))
    perf = [None] * len(notes)
    bp = rng.choice([0.25, 0.5, 0.75, 1.0]) if flavour == "deadpan" else rng.uniform(0.2, 1.5)
    start = rng.choice([0.0, 0.5, 1.0, 3.25]) if flavour == "deadpan" else rng.uniform(0.0, 5.0)
    tcur = start
    prev_on = None
    tlast = start
    for i in order:
        n = notes[i]
        beats = Fraction(n["start"], 1) / div_per_beat
        if flavour == "deadpan":
            on = start + float(beats) * bp
            d = max(float(Fraction(n["end"] - n["start"]) / div_per_beat) * bp, 0.125)
        elif flavour in ("musical", "single", "lonely"):
            if prev_on is None or n["start"] != prev_on[0]:
                if prev_on is not None:
                    bp = min(3.0, max(0.1, bp * math.exp(rng.gauss(0, 0.15))))
                    tcur = tcur + float(Fraction(n["start"] - prev_on[0]) / div_per_beat) * bp
                prev_on = (n["start"],)
            on = max(0.0, tcur + rng.uniform(-0.03, 0.03))
            d = rng.choice([rng.uniform(0.08, 1.5), rng.uniform(0.08, 0.3), rng.uniform(0.01, 0.07)]) \
                if rng.random() < 0.15 else rng.uniform(0.08, 1.5)
        elif flavour == "random":
            tlast = tlast + rng.choice([rng.uniform(0.001, 0.05), rng.uniform(0.05, 1.5)])
            on = tlast
            d = rng.uniform(0.02, 2.0)
        else:  # wild: any positive times at all
            on = rng.uniform(0.0, 10.0)
            d = rng.uniform(0.02, 2.0)
        vel = rng.choice([1, 127, rng.randint(1, 127), rng.randint(1, 127)])
        # a matched note is not always the written pitch (wrong notes are matched too): the table is ordered by the SCORE pitch
        ppitch = n["pitch"] if rng.random() < 0.9 else max(1, min(127, n["pitch"] + rng.choice([-12, -7, -2, -1, 1, 2, 5, 12])))
        perf[i] = {"id": "p%d" % i, "pitch": ppitch, "on": on, "off": on + d, "vel": vel}
    # alignment
    align = []
    extra_perf = []
    deleted = set()
    force = set()
    if flavour == "lonely":  # everything deleted but the notes of one score onset
        keep_t = rng.choice(sorted({n["start"] for n in notes}))
        force = {i for i, n in enumerate(notes) if n["start"] != keep_t}
    for t_g in sorted({n["start"] for n in notes if n["grace"]}):
        # a score onset at which only grace notes are matched (their main notes were not played)
        if rng.random() < 0.3 and any(n["start"] != t_g for n in notes):
            force |= {i for i, n in enumerate(notes) if n["start"] == t_g and not n["grace"]}
    if len(force) >= len(notes):
        force = set()
    for i, n in enumerate(notes):
        r = rng.random()
        if i in force or (r < 0.08 and len(notes) - len(deleted) - len(force - deleted) > 1):
            align.append({"label": "deletion", "score_id": n["id"]})
            deleted.add(i)
        else:
            align.append({"label": "match", "score_id": n["id"], "performance_id": perf[i]["id"]})
    perf_out = [p for i, p in enumerate(perf) if i not in deleted]
    n_extra = rng.choice([0, 0, 1, 2])
    for k in range(n_extra):
        on = rng.uniform(0.0, 6.0)
        pid = "x%d" % k
        extra_perf.append({"id": pid, "pitch": rng.randint(30, 90), "on": on, "off": on + rng.uniform(0.05, 0.5),
                           "vel": rng.randint(1, 127), "extra": True})
        if rng.random() < 0.5:
            align.append({"label": "insertion", "performance_id": pid})
        else:
            align.append({"label": "ornament", "score_id": rng.choice(notes)["id"], "performance_id": pid})
    if rng.random() < 0.12:  # a match whose score note is not in the score
        on = rng.uniform(0.0, 6.0)
        extra_perf.append({"id": "y0", "pitch": 60, "on": on, "off": on + 0.3, "vel": 64, "extra": True})
        align.append({"label": "match", "score_id": "ghost-s", "performance_id": "y0"})
    if rng.random() < 0.12:  # a match whose performed note is not in the performance
        cand = [i for i in deleted]
        if cand:
            i = cand[0]
            align = [a for a in align if not (a["label"] == "deletion" and a["score_id"] == notes[i]["id"])]
            align.append({"label": "match", "score_id": notes[i]["id"], "performance_id": "ghost-p"})
    perf_out += extra_perf
    rng.shuffle(perf_out)
    if rng.random() < 0.7:
        rng.shuffle(align)
    if rng.random() < 0.1:
        # score notes the alignment does not mention at all (neither matched nor marked as deleted)
        dels = [a for a in align if a["label"] == "deletion"]
        for a in dels[:rng.randint(1, 2)]:
            align.remove(a)
    restyle_ids(rng, notes, perf_out, align)
    # how the functions are called: the same inputs in every container the signatures admit, the options of the
    # decoder, a second generation (the decoded performance encoded again with the alignment the decoder returned)
    # shared_al: ONE alignment object goes through all calls (what a caller does), codec_first: the matched score /
    # encoding is computed before the matched-note table and the time maps are asked for
    opts = {"ret_align": rng.random() < 0.4, "history": rng.random() < 0.3, "markings": rng.random() < 0.12,
            "omit_defaults": rng.random() < 0.5, "enc_pair": rng.random() < 0.25,
            "shared_al": rng.random() < 0.5, "codec_first": rng.random() < 0.6}
    return {"qd": qd, "ts": list(ts), "pickup": pickup, "measure_len": measure_len, "notes": notes, "perf": perf_out,
            "align": align, "flavour": flavour,
            "norm": rng.choice(NORMS), "method": rng.choice(METHODS), "remove_ornaments": rng.random() < 0.6,
            "wrap": rng.choices(["objects", "containers", "arrays", "list", "group"], weights=[50, 15, 15, 10, 10])[0],
            "opts": opts}


SCORE_ID_STYLES = ["plain", "unfold", "mixed", "prefixed", "mei", "dotted", "under"]
PERF_ID_STYLES = ["plain", "unfold", "mixed", "prefixed", "mei", "same"]


def restyle_ids(rng, notes, perf, align):
    """Rename the note ids (in place, consistently in notes / performed notes / alignment) after one of the id styles
    met in practice: plain (n3), as update_note_ids_after_unfolding writes them (n3-1, n3-2), mixed (n3 next to
    n3-2, n3-3: ids that are prefixes of each other up to a hyphen), part prefix (P01_n3), MEI/xml:id like
    (note-0003), dotted (m1.n3), underscore (note_3); performed notes: the same families or the id of the score
    note they were matched to (match files, decoded performances).  An id is an opaque string: a match refers to
    exactly the note carrying exactly that id."""
    sstyle = rng.choices(SCORE_ID_STYLES, weights=[28, 15, 22, 10, 10, 8, 7])[0]
    pstyle = rng.choices(PERF_ID_STYLES, weights=[38, 12, 15, 10, 13, 12])[0]

    def family(style, letter, k, plain_pool, counters):
        if style == "plain":
            return "%s%d" % (letter, k)
        if style == "unfold":
            return "%s%d-%d" % (letter, k, 1 + (k * 7 + len(plain_pool)) % 2)
        if style == "prefixed":
            return "P0%d_%s%d" % (1 if letter == "n" else 0, letter, k)
        if style == "mei":
            return ("note-%04d" if letter == "n" else "pn-%03d") % k
        if style == "dotted":
            return "m%d.%s%d" % (k // 4 + 1, letter, k)
        if style == "under":
            return "note_%d" % k
        # mixed: a plain id, or the plain id of ANOTHER note followed by -2, -3, ...
        if k in plain_pool or not plain_pool:
            return "%s%d" % (letter, k)
        j = sorted(plain_pool)[(k * 5) % len(plain_pool)]
        counters[j] = counters.get(j, 1) + 1
        return "%s%d-%d" % (letter, j, counters[j])

    n = len(notes)
    pool = {k for k in range(n) if rng.random() < 0.5}
    smap, cnt = {}, {}
    for k, note in enumerate(notes):
        smap[note["id"]] = family(sstyle, "n", k, pool, cnt)
    score_of_perf = {a["performance_id"]: a["score_id"] for a in align if a["label"] == "match" and a["score_id"] in smap}
    pool = {k for k in range(len(perf)) if rng.random() < 0.5}
    pmap, cnt = {}, {}
    for k, p in enumerate(perf):
        if pstyle == "same" and p["id"] in score_of_perf:
            pmap[p["id"]] = smap[score_of_perf[p["id"]]]
        elif pstyle == "same":
            pmap[p["id"]] = "x-%d" % k
        else:
            pmap[p["id"]] = family(pstyle, "p", k, pool, cnt)
    real_s = set(smap.values())
    for a in align:
        if "score_id" in a:
            if a["score_id"] in smap:
                a["score_id"] = smap[a["score_id"]]
            elif a["score_id"] == "ghost-s":
                # an id the score does not have: unrelated, or a real id with a suffix added / cut off at the hyphen
                base = rng.choice(sorted(real_s))
                cand = [g for g in ("ghost-s", base + "-2", base.split("-")[0], base + "0", base[:-1]) if g and g not in real_s]
                a["score_id"] = rng.choice(cand)
        if "performance_id" in a and a["performance_id"] in pmap:
            a["performance_id"] = pmap[a["performance_id"]]
    for note in notes:
        note["id"] = smap[note["id"]]
    for p in perf:
        p["id"] = pmap[p["id"]]
    return sstyle, pstyle


# ----------------------------------------------------------------------------
# building partitura objects


def build(case):
    import partitura.score as S
    from partitura.performance import PerformedPart
    from partitura.utils.music import midi_pitch_to_pitch_spelling

    part = S.Part("P0", quarter_duration=case["qd"])
    part.add(S.TimeSignature(case["ts"][0], case["ts"][1]), 0)
    end = max([n["end"] for n in case["notes"]] + [1, case.get("span_end", 0)])
    t, num = 0, 1
    if case["pickup"]:
        part.add(S.Measure(number=0), 0, case["pickup"])
        t = case["pickup"]
    while t < end or num == 1:
        part.add(S.Measure(number=num), t, t + case["measure_len"])
        t += case["measure_len"]
        num += 1
    for n in case["notes"]:
        step, alter, octave = midi_pitch_to_pitch_spelling(n["pitch"])
        if n["grace"]:
            part.add(S.GraceNote("acciaccatura", step, octave, alter, voice=n["voice"], id=n["id"]), n["start"], n["start"])
        else:
            part.add(S.Note(step, octave, alter, voice=n["voice"], id=n["id"]), n["start"], n["end"])
    pnotes = [dict(id=p["id"], midi_pitch=p["pitch"], note_on=p["on"], note_off=p["off"], velocity=p["vel"])
              for p in case["perf"]]
    ppart = PerformedPart(pnotes, id="PP0")
    return part, ppart


def fr(x):
    return Fraction(float(x))


def copy_al(al):
    return [dict(a) for a in al]


class ImplError(Exception):
    pass


class CpuBudgetExceeded(BaseException):
    """Raised from the SIGVTALRM handler: the implementation used more CPU time on one case than any run of the
    unchanged code needs by three orders of magnitude (not a wall-clock limit: a loaded machine cannot trigger it;
    not an Exception: the implementation's own except clauses cannot swallow it)."""


CPU_BUDGET_S = 30.0


def with_cpu_budget(f, seconds=CPU_BUDGET_S):
    import signal

    def on_alarm(signum, frame):
        raise CpuBudgetExceeded()

    old = signal.signal(signal.SIGVTALRM, on_alarm)
    signal.setitimer(signal.ITIMER_VIRTUAL, seconds)
    try:
        return f()
    finally:
        signal.setitimer(signal.ITIMER_VIRTUAL, 0)
        signal.signal(signal.SIGVTALRM, old)


def make_live(case):
    """The objects a caller holds: the part / performed part built from the case, wrapped in the container the case
    names, and ONE alignment list.  They live across all the calls of a case (and, in a history case, across the
    edits made to them between the calls)."""
    part, ppart = build(case)
    live = {"part0": part, "ppart0": ppart, "wrap": case.get("wrap", "objects"), "shared": copy_al(case["align"])}
    wrap = live["wrap"]
    if wrap == "containers":  # a single-part Score and a Performance instead of the bare Part / PerformedPart
        import partitura.score as S
        from partitura.performance import Performance
        part, ppart = S.Score([part], id="S0"), Performance(ppart, id="PF0")
    elif wrap == "list":  # ScoreLike also admits a list of parts
        part = [part]
    elif wrap == "group":  # ... and a PartGroup
        import partitura.score as S
        grp = S.PartGroup(group_name="G0")
        grp.children = [part]
        part.parent = grp
        part = grp
    live["part"], live["ppart"] = part, ppart
    return live


def run_impl(case):
    """Run every function under test on freshly built objects; returns a dict of observations (plain Python / numpy)."""
    return run_calls(case, make_live(case))


def run_calls(case, live, ref=None):
    """Every function under test, called on the objects in `live` as they are NOW.  ref = (score note array, performance
    note array) of a freshly built copy of the current state (history cases): the oracle judges against those; the
    note arrays handed to the functions are always taken from the live objects."""
    import numpy as np
    from partitura.musicanalysis import performance_codec as PC

    part, ppart = live["part"], live["ppart"]
    sna = live["part0"].note_array()
    pna = live["ppart0"].note_array()
    obs = {"sna": sna, "pna": pna, "part": live["part0"], "ppart": live["ppart0"], "sna_live": sna, "pna_live": pna}
    if ref is not None:
        obs["sna"], obs["pna"] = ref
    al = case["align"]
    wrap = live["wrap"]
    opts = case.get("opts", {})
    # note arrays go wherever the signature admits them (decode_performance needs the score itself)
    s_in, p_in = (sna, pna) if wrap == "arrays" else (part, ppart)

    def attempt(name, f):
        try:
            obs[name] = f()
        except Exception as e:  # classified by the oracle
            obs[name] = None
            obs[name + "_exc"] = "%s: %s" % (type(e).__name__, str(e)[:200])

    kw_enc = {"beat_normalization": case["norm"], "tempo_smooth": case["method"]}
    kw_dec = {"beat_normalization": case["norm"]}
    kw_tm = {"remove_ornaments": case["remove_ornaments"]}
    if opts.get("omit_defaults"):  # an argument that has the value of the signature's default is not spelled out
        d_enc, d_dec, d_smooth, d_rmo, _ = live_defaults()
        if case["norm"] == d_enc:
            del kw_enc["beat_normalization"]
        if case["norm"] == d_dec:
            del kw_dec["beat_normalization"]
        if case["method"] == d_smooth:
            del kw_enc["tempo_smooth"]
        if case["remove_ornaments"] is d_rmo:
            del kw_tm["remove_ornaments"]

    # the alignment handed to the functions: a fresh copy per call, or (shared_al) ONE list of dicts for the whole
    # sequence of calls, the way a caller holds it -- what a function under test does to it must not change what the
    # later ones return (the oracle's expectations are always computed from the pristine case["align"])
    shared = live["shared"]

    def al_arg():
        return shared if opts.get("shared_al") else copy_al(al)

    def table_and_maps():
        attempt("matched_idx", lambda: PC.get_matched_notes(sna, pna, al_arg()))
        if ref is not None and obs["matched_idx"] is not None:
            obs["matched_idx"] = translate_idx(obs["matched_idx"], sna, pna, ref[0], ref[1])
        attempt("tmaps", lambda: PC.get_time_maps_from_alignment(p_in, s_in, al_arg(), **kw_tm))

    if not opts.get("codec_first"):
        table_and_maps()
    attempt("mscore", lambda: PC.to_matched_score(s_in, p_in, al_arg()))
    if opts.get("markings") and wrap != "arrays":
        attempt("mscore_mk", lambda: PC.to_matched_score(s_in, p_in, al_arg(), include_score_markings=True))
    attempt("enc", lambda: PC.encode_performance(s_in, p_in, al_arg(), return_u_onset_idx=True, **kw_enc))
    if opts.get("enc_pair"):
        attempt("enc_pair", lambda: PC.encode_performance(s_in, p_in, al_arg(), **kw_enc))
    if obs["enc"] is not None:
        params, sids, uidx = obs["enc"]
        same = bool(opts.get("same_params"))
        if same:
            # the caller decodes the very objects encode_performance returned, more than once: the oracle reads a
            # snapshot taken now, the functions get the originals
            obs["enc_live"] = obs["enc"]
            obs["enc"] = (params.copy(), list(sids), [np.array(u) for u in uidx])

        def prm():
            return params if same else params.copy()

        def ids():
            return sids if same else list(sids)

        if opts.get("ret_align"):
            attempt("dec_ret", lambda: PC.decode_performance(part, prm(), snote_ids=ids(), part_id="DEC0",
                                                             part_name="decoded", return_alignment=True, **kw_dec))
            r = obs.pop("dec_ret")
            if r is None:
                obs["dec"], obs["dec_exc"] = None, obs.pop("dec_ret_exc")
            else:
                obs["dec"], obs["dec_al"] = r if isinstance(r, tuple) and len(r) == 2 else (r, None)
        else:
            attempt("dec", lambda: PC.decode_performance(part, prm(), snote_ids=ids(), **kw_dec))
        if len(sids) == len(obs["sna"]):
            attempt("dec_all", lambda: PC.decode_performance(part, prm(), **kw_dec))
        if case["norm"] != "beat_period":
            # the beat_period column alone must decode as well ("in practice, always reconstruct the time by beat_period")
            attempt("dec_bp", lambda: PC.decode_performance(part, prm(), snote_ids=ids(),
                                                            beat_normalization="beat_period"))
        if same:  # ... and once more from the same objects, after the other decodings have seen them
            attempt("dec_again", lambda: PC.decode_performance(part, params, snote_ids=sids, **kw_dec))
        sids = obs["enc"][1]
        if opts.get("history") and obs.get("dec") is not None and len(sids):
            # second generation: what the decoder returned (a PerformedPart built by the library, numpy ids and
            # times, and -- when asked for -- its own alignment) is a performance aligned with the same score
            al2 = obs.get("dec_al")
            if al2 is None:
                al2 = [{"label": "match", "score_id": str(i), "performance_id": str(i)} for i in sids]
            obs["al2"] = al2
            attempt("enc2", lambda: PC.encode_performance(part, obs["dec"], [dict(a) for a in al2], **kw_enc))
            if obs["enc2"] is not None:
                attempt("dec2", lambda: PC.decode_performance(part, obs["enc2"][0].copy(), snote_ids=list(obs["enc2"][1]), **kw_dec))
    if opts.get("codec_first"):
        table_and_maps()
    return obs


def translate_idx(mi, sna, pna, sna_ref, pna_ref):
    """Index pairs into (sna, pna) rewritten as index pairs into the reference arrays, through the note ids."""
    import numpy as np
    if not len(mi):
        return mi
    spos, ppos = {}, {}
    for i, x in enumerate(sna_ref["id"]):
        spos.setdefault(str(x), i)
    for i, x in enumerate(pna_ref["id"]):
        ppos.setdefault(str(x), i)
    out = []
    for s, p in np.asarray(mi).reshape(-1, 2):
        out.append((spos.get(str(sna["id"][int(s)]), -1 - int(s)), ppos.get(str(pna["id"][int(p)]), -1 - int(p))))
    return np.array(out)


# ----------------------------------------------------------------------------
# direct oracle (property statement on the implementation's output)


def expected_matches(case, sna, pna):
    """Alignment matches whose ids exist on both sides, in alignment order: [(sidx, pidx)]."""
    sidx = {}
    for i, x in enumerate(sna["id"]):
        sidx.setdefault(str(x), i)
    pidx = {}
    for i, x in enumerate(pna["id"]):
        pidx.setdefault(str(x), i)
    out = []
    for a in case["align"]:
        if a["label"] == "match" and str(a["score_id"]) in sidx and str(a["performance_id"]) in pidx:
            out.append((sidx[str(a["score_id"])], pidx[str(a["performance_id"])]))
    return out


def oracle(case, obs):
    """Returns a list of (code, message) failures of the property statement."""
    import numpy as np

    bad = []
    sna, pna = obs["sna"], obs["pna"]
    exp = expected_matches(case, sna, pna)
    # --- O2: matched-note index table
    mi = obs["matched_idx"]
    if mi is None:
        bad.append(("matched_idx_exc", "get_matched_notes raised " + obs["matched_idx_exc"]))
    else:
        got = [tuple(int(v) for v in row) for row in np.asarray(mi).reshape(-1, 2)] if len(mi) else []
        # the property fixes WHICH pairs the table holds, not the order get_matched_notes lists them in
        if sorted(got) != sorted(exp):
            bad.append(("matched_idx", "get_matched_notes = %r, expected the alignment's matches present on both sides %r" % (got, exp)))
    # --- O2: matched score (also with the score-marking columns appended)
    bad += oracle_mscore(obs, exp, "mscore")
    if "mscore_mk" in obs:
        bad += oracle_mscore(obs, exp, "mscore_mk")
    # --- O1: decode(encode)
    if obs["enc"] is None:
        if exp:
            bad.append(("enc_exc", "encode_performance raised " + obs["enc_exc"]))
    else:
        params, sids, uidx = obs["enc"]
        sids = [str(s) for s in sids]
        # the parameter array: beat period, velocity, timing, log articulation + the columns of the normalisation
        from partitura.musicanalysis.performance_codec import TEMPO_NORMALIZATION
        names = list(params.dtype.names or [])
        extra = [] if case["norm"] == "beat_period" else list(TEMPO_NORMALIZATION[case["norm"]]["param_names"])
        if sorted(names) != sorted(["beat_period", "velocity", "timing", "articulation_log"] + extra) or len(params) != len(sids):
            bad.append(("enc_fields", "encode_performance(%s) returned %d rows with fields %r for %d note ids" % (case["norm"], len(params), names, len(sids))))
            return bad + oracle_timemaps(case, obs, exp)
        if "enc_pair" in obs:
            ep = obs["enc_pair"]
            if ep is None:
                bad.append(("enc_pair_exc", "encode_performance without return_u_onset_idx raised " + obs["enc_pair_exc"]))
            elif not (isinstance(ep, tuple) and len(ep) == 2 and [str(i) for i in ep[1]] == sids and ep[0].dtype == params.dtype
                      and all(np.array_equal(ep[0][n], params[n], equal_nan=True) for n in names)):
                bad.append(("enc_pair", "encode_performance without return_u_onset_idx does not return the same (parameters, snote_ids)"))
        for key in ("dec", "dec_all", "dec_bp", "dec_again"):
            if key not in obs:
                continue
            if obs[key] is None:
                bad.append((key + "_exc", "decode_performance raised " + obs[key + "_exc"]))
                continue
            bad += oracle_roundtrip(case, obs, exp, sids, obs[key], key, "beat_period" if key == "dec_bp" else case["norm"])
        if obs.get("dec") is not None and case.get("opts", {}).get("ret_align"):
            # the alignment returned with the decoded performance pairs every matched score note with the decoded
            # note that carries ITS performed onset, duration and velocity
            al2 = obs.get("dec_al")
            ok_shape = isinstance(al2, list) and all(isinstance(a, dict) and a.get("label") == "match" and "score_id" in a
                                                     and "performance_id" in a for a in al2)
            if not ok_shape or sorted(str(a["score_id"]) for a in al2) != sorted(sids):
                bad.append(("deca_shape", "decode_performance(return_alignment=True) returned %r, expected one match per matched score note %r"
                            % (al2 if not ok_shape else sorted(str(a["score_id"]) for a in al2), sorted(sids))))
            else:
                bad += oracle_roundtrip(case, obs, exp, sids, obs["dec"], "deca", case["norm"],
                                        pair_by={str(a["score_id"]): str(a["performance_id"]) for a in al2})
        if "enc2" in obs:
            bad += oracle_history(case, obs, sids)
    # --- O3: time maps
    bad += oracle_timemaps(case, obs, exp)
    return bad


def oracle_mscore(obs, exp, key):
    """O2 on a result of to_matched_score: exactly the matches present on both sides, ordered by score onset then
    pitch, every row pairing the columns of its score note with those of the performed note matched to it."""
    bad = []
    sna, pna = obs["sna"], obs["pna"]
    ms = obs[key]
    if ms is None:
        return [(key + "_exc", "to_matched_score raised " + obs[key + "_exc"])]
    try:
        arr, sids = ms
        sids = [str(s) for s in sids]
        names = list(arr.dtype.names)
    except Exception as e:
        return [(key + "_shape", "to_matched_score returned %r (%s)" % (type(ms).__name__, e))]
    want_names = ["onset", "duration", "pitch", "p_onset", "p_duration", "velocity"]
    if names[:6] != want_names or len(arr) != len(sids):
        return [(key + "_shape", "to_matched_score returned %d rows with fields %r for %d ids, expected one row per id with fields %r first"
                 % (len(arr), names[:8], len(sids), want_names))]
    exp_ids = sorted(str(sna["id"][s]) for s, _ in exp)
    if sorted(sids) != exp_ids:
        return [(key + "_ids", "to_matched_score ids %r, expected exactly %r" % (sorted(sids), exp_ids))]
    s_of = {str(sna["id"][s]): (s, p) for s, p in exp}
    keys = [(int(sna["onset_div"][s_of[i][0]]), int(sna["pitch"][s_of[i][0]])) for i in sids]
    if keys != sorted(keys):
        bad.append((key + "_order", "to_matched_score rows not ordered by score onset then pitch: %r" % keys))
    for row, i in zip(arr, sids):
        s, p = s_of[i]
        want = (float(sna["onset_beat"][s]), float(sna["duration_beat"][s]), int(sna["pitch"][s]),
                float(pna["onset_sec"][p]), float(pna["duration_sec"][p]), int(pna["velocity"][p]))
        gotr = (float(row["onset"]), float(row["duration"]), int(row["pitch"]), float(row["p_onset"]),
                float(row["p_duration"]), int(row["velocity"]))
        if want[4] < MIN_PDUR and abs(gotr[4] - MIN_PDUR) <= 4 * F32:
            # the deliberate floor on performed durations (known finding C18-K2, reported through the
            # decoded duration); the pairing itself is right
            want = want[:4] + (gotr[4],) + want[5:]
        if any(not abs(a - b) <= 4 * F32 * max(1.0, abs(b)) for a, b in zip(gotr, want)):
            bad.append((key + "_row", "to_matched_score row for %s = %r, expected %r" % (i, gotr, want)))
            break
    return bad


def decoded_notes(dppart):
    dec = {}
    for n in dppart.notes:
        dec.setdefault(str(n["id"]), []).append(
            {"onset_sec": float(n["note_on"]), "duration_sec": float(n["note_off"]) - float(n["note_on"]), "velocity": int(n["velocity"]),
             # the duration a note array of the decoded performance reports (sound_off, what the encoder read on the way in)
             "sounding_sec": float(n.get("sound_off", n["note_off"])) - float(n["note_on"])})
    return dec


def oracle_history(case, obs, sids):
    """Second generation: the decoded performance (as decode_performance built it) with the alignment the decoder
    returned (or the identity on the ids) is again a performance aligned with the score; encoding and decoding it
    returns ITS onsets up to one shift, its velocities and the durations the codec preserves."""
    bad = []
    if obs["enc2"] is None:
        return [("hist_enc_exc", "encode_performance on the decoded performance raised " + obs["enc2_exc"])]
    if [str(i) for i in obs["enc2"][1]] != sids:
        return [("hist_ids", "encoding the decoded performance gives note ids %r, the first encoding %r" % ([str(i) for i in obs["enc2"][1]], sids))]
    if obs.get("dec2") is None:
        return [("hist_dec_exc", "decode_performance of the re-encoded decoded performance raised " + obs.get("dec2_exc", "?"))]
    d1, d2 = decoded_notes(obs["dec"]), decoded_notes(obs["dec2"])
    if sorted(d1) != sorted(d2) or any(len(v) != 1 for v in d2.values()):
        return [("hist_ids", "second decoding has notes %r, the first %r" % (sorted(d2), sorted(d1)))]
    sna = obs["sna"]
    sdur = {str(r["id"]): float(r["duration_beat"]) for r in sna}
    p1, p2 = obs["enc"][0], obs["enc2"][0]
    mags = [1.0] + [abs(float(t)) for t in p1["timing"]] + [abs(float(t)) for t in p2["timing"]]
    mags += [abs(float(t)) + abs(d1[i][0]["onset_sec"]) for i, t in zip(sids, p2["timing"])]
    mags += [max(v[0]["onset_sec"] for v in d1.values())]
    tol_on = 4e-6 * max(m for m in mags if math.isfinite(m))
    if case["norm"] == "beat_period_standardized":
        sons = [float(r["onset_beat"]) for r in sna if str(r["id"]) in d1]
        for pp in (p1, p2):
            mu = float(pp["beat_period_mean"][0])
            tol_on += 8 * F32 * (abs(mu) + max(abs(float(b) - mu) for b in pp["beat_period"])) * (max(sons) - min(sons) + 1.0)
    shifts = []
    for i in sorted(d1):
        a, b = d1[i][0], d2[i][0]
        if not (math.isfinite(b["onset_sec"]) and math.isfinite(b["duration_sec"])):
            return [("hist_nan", "second decoding of note %s has onset %r duration %r" % (i, b["onset_sec"], b["duration_sec"]))]
        shifts.append((b["onset_sec"] - a["onset_sec"], i))
        if a["velocity"] != b["velocity"]:
            bad.append(("hist_vel", "note %s: velocity %d of the decoded performance decoded again as %d" % (i, a["velocity"], b["velocity"])))
        # durations below the floor / of grace notes are not preserved (known findings K2 / K1)
        if sdur.get(i, 0.0) > 0 and a["duration_sec"] >= MIN_PDUR + 1e-5 and \
                abs(a["duration_sec"] - b["duration_sec"]) > 3e-5 * a["duration_sec"] + 2e-6 + (tol_on if case["norm"] == "beat_period_standardized" else 0.0):
            bad.append(("hist_dur", "note %s: duration %.7g of the decoded performance decoded again as %.7g" % (i, a["duration_sec"], b["duration_sec"])))
    lo, hi = min(shifts), max(shifts)
    if hi[0] - lo[0] > 2 * tol_on:
        bad.append(("hist_onset", "decoding the encoded decoded performance: onsets not reproduced up to one shift: shift %.7g for %s but %.7g for %s"
                    % (lo[0], lo[1], hi[0], hi[1])))
    return bad


def oracle_roundtrip(case, obs, exp, sids, dppart, key, normd, pair_by=None):
    import numpy as np

    bad = []
    sna, pna = obs["sna"], obs["pna"]
    dec = decoded_notes(dppart)
    if pair_by is not None:  # score note -> decoded note as the returned alignment pairs them
        if any(len(dec.get(pid, [])) != 1 for pid in pair_by.values()) or len(set(pair_by.values())) != len(pair_by):
            return [(key + "_ids", "returned alignment %r does not pair the score notes one to one with the decoded notes %r" % (pair_by, sorted(dec)))]
        dec = {sid: dec[pid] for sid, pid in pair_by.items()}
    pairs = {str(sna["id"][s]): (s, p) for s, p in exp}
    if sorted(dec) != sorted(pairs) or any(len(v) != 1 for v in dec.values()):
        return [(key + "_ids", "decoded performance has notes %r, expected one per matched score note %r" % (sorted(dec), sorted(pairs)))]
    span = max(float(pna["onset_sec"][p]) for _, p in exp) - min(float(pna["onset_sec"][p]) for _, p in exp)
    # "within single-precision rounding": the parameters are stored as float32, so a decoded onset
    # (cumulated beat period x score interval, minus timing) carries a rounding error proportional to the
    # MAGNITUDE of the stored timing and of the equivalent onsets it is subtracted from (= timing + performed
    # onset), not to the performed times themselves: a long performed interval over a tiny score interval
    # (1/480 beat) gives beat periods of ~1e3 s/beat and equivalent onsets of ~1e3 s, i.e. ~1e-4 s of rounding.
    # 2e-6 ~ 16 ulp of float32, per unit of the largest magnitude involved.
    tim = {str(i): float(t) for i, t in zip(sids, obs["enc"][0]["timing"])}
    mags = [1.0, span] + [abs(t) for t in tim.values()]
    mags += [abs(tim[str(sna["id"][s])] + float(pna["onset_sec"][p])) for s, p in exp if str(sna["id"][s]) in tim]
    tol_on = 2e-6 * max(m for m in mags if math.isfinite(m))
    # standardized beat periods are rebuilt as z * std + mean from single-precision parameters: the
    # rounding is absolute (relative to |mean| + |z * std|), not relative to the beat period itself
    bp_abs_err = 0.0
    params = obs["enc"][0]
    if normd == "beat_period_standardized":
        mu = float(params["beat_period_mean"][0])
        bp_abs_err = 8 * F32 * (abs(mu) + max(abs(float(b) - mu) for b in params["beat_period"]))
        sons = [float(sna["onset_beat"][s]) for s, _ in exp]
        tol_on += bp_abs_err * (max(sons) - min(sons) + 1.0)
    bp_of = {str(i): float(b) for i, b in zip(sids, params["beat_period"])}
    shifts = []
    for sid, (s, p) in sorted(pairs.items()):
        d = dec[sid][0]
        on, du, ve = float(d["onset_sec"]), float(d["duration_sec"]), int(d["velocity"])
        if not (math.isfinite(on) and math.isfinite(du)):
            bad.append((key + "_nan", "decoded note %s has onset %r duration %r (encoded with %s, method %s; decoded with %s)" % (sid, on, du, case["norm"], case["method"], normd)))
            return bad
        shifts.append((on - float(pna["onset_sec"][p]), sid))
        pd = float(pna["duration_sec"][p])
        sd = float(sna["duration_beat"][s])
        def tol_d(ref):  # relative single precision + what the rebuilt (standardized) beat period carries
            return 1e-5 * ref + 1e-6 + ref * bp_abs_err / max(bp_of.get(sid, 1.0), 1e-12)

        if abs(du - pd) <= tol_d(pd) and abs(float(d["sounding_sec"]) - du) > tol_d(pd):
            bad.append((key + "_dur", "note %s: decoded note_off gives the performed duration %.7g, but its sound_off (the duration its note "
                        "array reports) gives %.7g" % (sid, du, float(d["sounding_sec"]))))
        if abs(du - pd) > tol_d(pd):
            code = "_dur"
            if sd <= 0 and du == 0.0:
                code = "_dur_grace"
            elif pd < MIN_PDUR and abs(du - MIN_PDUR) <= tol_d(MIN_PDUR) + 1e-5:
                code = "_dur_floor"
            bad.append((key + code, "note %s (score duration %g): performed duration %.7g, decoded %.7g" % (sid, sd, pd, du)))
        if ve != int(pna["velocity"][p]):
            bad.append((key + "_vel", "note %s: velocity %d decoded as %d" % (sid, int(pna["velocity"][p]), ve)))
    lo, hi = min(shifts), max(shifts)
    if hi[0] - lo[0] > 2 * tol_on:
        bad.append((key + "_onset", "decoded onsets are not the performed onsets up to one shift: shift %.7g for %s but %.7g for %s"
                    % (lo[0], lo[1], hi[0], hi[1])))
    return bad


def timemap_knots(case, obs, exp):
    """Expected knots [(score onset, mean performed onset)] as exact Fractions, sorted by score onset;
    None for an onset without (non-ornament) matched notes."""
    sna, pna = obs["sna"], obs["pna"]
    groups = {}
    for s, p in exp:
        u = fr(sna["onset_beat"][s])
        groups.setdefault(u, [])
        if not case["remove_ornaments"] or float(sna["duration_beat"][s]) > 0:
            groups[u].append(fr(pna["onset_sec"][p]))
    return [(u, (sum(v) / len(v)) if v else None) for u, v in sorted(groups.items())]


def oracle_timemaps(case, obs, exp):
    import numpy as np

    bad = []
    if not exp:
        return bad
    knots = timemap_knots(case, obs, exp)
    if obs["tmaps"] is None:
        return [("tmaps_exc", "get_time_maps_from_alignment raised " + obs["tmaps_exc"])]
    p2s, s2p = obs["tmaps"]
    # an onset carrying only matched grace notes with remove_ornaments=True has no performed time of its
    # own: it is no knot; the maps still pass through all the others
    knots = [(u, m) for u, m in knots if m is not None]
    if not knots:
        return bad
    for u, m in knots:
        v = float(np.asarray(s2p(float(u))))
        if not abs(v - float(m)) <= 8 * F32 * max(1.0, abs(float(m))):
            bad.append(("tmaps_s2p", "stime_to_ptime(%g) = %.9g, expected the mean performed onset %.9g" % (float(u), v, float(m))))
            break
    # the maps take arrays / lists of times as well as single times: all knots at once
    us = [float(u) for u, _ in knots]
    for q in (np.array(us), list(us)):
        try:
            vec = np.asarray(s2p(q), dtype=float)
        except Exception as e:
            bad.append(("tmaps_vec", "stime_to_ptime(%s of %d score onsets) raised %s: %s" % (type(q).__name__, len(us), type(e).__name__, str(e)[:120])))
            break
        if vec.shape != (len(us),) or any(not abs(float(v) - float(m)) <= 8 * F32 * max(1.0, abs(float(m))) for v, (_, m) in zip(vec, knots)):
            bad.append(("tmaps_vec", "stime_to_ptime(%s %r) = %r, expected the mean performed onsets %r" % (type(q).__name__, us, vec.tolist(), [float(m) for _, m in knots])))
            break
    # ... and Python / numpy scalars (int and float), 0-d and one-element arrays (one value each), an empty array (none)
    u0q, m0q = knots[0] if float(knots[0][0]) == int(knots[0][0]) or len(knots) == 1 else knots[-1]
    kinds = [("numpy float64", np.float64(float(u0q)), ()), ("numpy float32", np.float32(float(u0q)), ()),
             ("0-d array", np.array(float(u0q)), ()), ("one-element array", np.array([float(u0q)]), (1,)),
             ("one-element list", [float(u0q)], (1,)), ("empty array", np.array([], dtype=float), (0,))]
    if float(u0q) == int(u0q):
        kinds += [("Python int", int(u0q), ()), ("numpy int64", np.int64(int(u0q)), ()), ("integer array", np.array([int(u0q)]), (1,))]
    for what, q, shape in kinds:
        try:
            vec = np.asarray(s2p(q), dtype=float)
        except Exception as e:
            bad.append(("tmaps_query", "stime_to_ptime(%s %r) raised %s: %s" % (what, q, type(e).__name__, str(e)[:120])))
            break
        ok_shape = (vec.size == 1) if shape == () else (vec.shape == shape)
        tolq = 8 * F32 * max(1.0, abs(float(m0q))) * (4.0 if "32" in what else 1.0)
        if not ok_shape or any(not abs(float(v) - float(m0q)) <= tolq + (abs(float(u0q)) * F32 * 4 * abs(float(m0q)) if "32" in what else 0.0)
                               for v in vec.ravel()):
            bad.append(("tmaps_query", "stime_to_ptime(%s %r) = %r, expected %s the mean performed onset %.9g"
                        % (what, q, vec.tolist(), "no value" if shape == (0,) else "one value,", float(m0q))))
            break
    # between two neighbouring matched onsets the map stays between their performed times
    for (u0, m0), (u1, m1) in zip(knots, knots[1:]):
        x = float((u0 + u1) / 2)
        v = float(np.asarray(s2p(x)))
        lo, hi = float(min(m0, m1)), float(max(m0, m1))
        if not (lo - 8 * F32 * max(1.0, abs(lo)) <= v <= hi + 8 * F32 * max(1.0, abs(hi))):
            bad.append(("tmaps_between", "stime_to_ptime(%g) = %.9g is not between the performed times %.9g and %.9g of the "
                        "neighbouring matched onsets" % (x, v, float(m0), float(m1))))
            break
    ms = [m for _, m in knots]
    if all(b - a > Fraction(1, 10 ** 5) for a, b in zip(ms, ms[1:])):
        # the other direction, evaluated at the implementation's own (single precision) knot;
        # scipy evaluates in single precision, amplified by the steepest segment
        slope = max([0.0] + [float((u1 - u0) / (m1 - m0)) for (u0, m0), (u1, m1) in zip(knots, knots[1:])])
        for u, m in knots:
            v = float(np.asarray(p2s(float(np.asarray(s2p(float(u)))))))
            if not abs(v - float(u)) <= 16 * F32 * max(1.0, float(abs(ms[-1])), float(abs(ms[0]))) * max(1.0, slope) + 1e-6 * max(1.0, abs(float(u))):
                bad.append(("tmaps_p2s", "ptime_to_stime(stime_to_ptime(%g)) = %.9g, expected the score onset back" % (float(u), v)))
                break
    return bad


# ----------------------------------------------------------------------------
# correspondence: case -> Coq term (input AND the implementation's observed output)


def case_term(case, obs):
    """Coq term of type c18_case, or None when an output needed for it is missing."""
    import numpy as np

    sna, pna = obs["sna"], obs["pna"]
    if obs["matched_idx"] is None or obs["enc"] is None or obs["tmaps"] is None or obs["mscore"] is None:
        return None
    codes = {}

    def code(x):
        return codes.setdefault(str(x), len(codes))

    srows = [ctuple([cz(code(r["id"])), cq(fr(r["onset_beat"])), cq(fr(r["duration_beat"])), cz(int(r["onset_div"])), cz(int(r["pitch"]))])
             for r in sna]
    prows = [ctuple([cz(code("P:" + str(r["id"]))), cq(fr(r["onset_sec"])), cq(fr(r["duration_sec"])), cz(int(r["velocity"]))]) for r in pna]
    al = []
    for a in case["align"]:
        s = code(a["score_id"]) if "score_id" in a else -2
        p = code("P:" + str(a["performance_id"])) if "performance_id" in a else -3
        al.append(ctuple([cz(0 if a["label"] == "match" else 1), cz(s), cz(p)]))
    mi = obs["matched_idx"]
    midx = [ctuple([cz(int(r[0])), cz(int(r[1]))]) for r in np.asarray(mi).reshape(-1, 2)] if len(mi) else []
    params, sids, uidx = obs["enc"]
    sidc = [cz(code(s)) for s in sids]
    uterm = clist([clist([cz(int(j)) for j in u]) for u in uidx])
    norm_i = NORMS.index(case["norm"])
    names = list(params.dtype.names)[4:]
    prm, ncols = [], []
    for r in params:
        vals = [float(r["beat_period"]), float(r["velocity"]), float(r["timing"]), 2.0 ** float(r["articulation_log"])]
        cols = []
        for nm in names:
            v = float(r[nm])
            if nm.endswith("_log"):
                v = 2.0 ** v
            cols.append(v)
        if not all(math.isfinite(v) for v in vals + cols):
            return None
        prm.append(ctuple([cq(Fraction(v)) for v in vals]))
        ncols.append(clist([cq(Fraction(v)) for v in cols]))
    marr, msids = obs["mscore"]
    if [str(x) for x in msids] != [str(x) for x in sids]:
        return None  # encode_performance is to_matched_score's ids (the direct oracle compares both with the alignment)
    mrows = []
    for r in marr:
        fl = [float(r["onset"]), float(r["duration"]), float(r["p_onset"]), float(r["p_duration"])]
        if not all(math.isfinite(v) for v in fl):
            return None
        mrows.append(ctuple([cq(Fraction(fl[0])), cq(Fraction(fl[1])), cz(int(r["pitch"])), cq(Fraction(fl[2])), cq(Fraction(fl[3])),
                             cz(int(r["velocity"]))]))
    exp = expected_matches(case, sna, pna)
    pon = [float(pna["onset_sec"][p]) for _, p in exp] or [0.0]
    span = max(pon) - min(pon)
    # tolerances: the decoder accumulates single-precision beat periods times score intervals
    bps = [float(b) for b in params["beat_period"]]
    sons = sorted(float(sna["onset_beat"][s]) for s, _ in exp) or [0.0]
    sspan = sons[-1] - sons[0]
    bperr = 0.0
    if norm_i == 4 and len(params):
        mu = float(params["beat_period_mean"][0])
        bperr = 8 * F32 * (abs(mu) + max(abs(b - mu) for b in bps))
    tims = [float(t) for t in params["timing"]]
    sid_pos = {str(x): k for k, x in enumerate(sids)}
    eqs = [tims[sid_pos[str(sna["id"][s])]] + float(pna["onset_sec"][p]) for s, p in exp if str(sna["id"][s]) in sid_pos]
    total = max([1.0, span, max(bps or [0.0]) * sspan] + [abs(t) for t in tims] + [abs(e) for e in eqs])
    dtol = Fraction(4e-6 * total + bperr * (sspan + 1.0))
    decs = []
    for key, normd in (("dec", norm_i), ("dec_all", norm_i), ("dec_bp", 0)):
        if obs.get(key) is None:
            continue
        rows = []
        for n in obs[key].notes:
            on, off = float(n["note_on"]), float(n["note_off"])
            if not (math.isfinite(on) and math.isfinite(off)):
                return None
            rows.append(ctuple([cz(code(n["id"])), cq(Fraction(on)), cq(Fraction(off) - Fraction(on)), cz(int(n["velocity"]))]))
        if key == "dec_all" and [str(n["id"]) for n in obs[key].notes] != [str(x) for x in sna["id"]]:
            return None
        decs.append("(%s, %s)" % (cz(normd), clist(rows)))
    # time-map probes: kind 0 / 1 at the knots (property), 2 / 3 elsewhere (linear interpolation, extrapolation)
    knots = [(u, m) for u, m in timemap_knots(case, obs, exp) if m is not None]
    p2s, s2p = obs["tmaps"]
    tests = []
    us = [u for u, _ in knots]
    ms = [m for _, m in knots]
    slopes = [abs((m1 - m0) / (u1 - u0)) for (u0, m0), (u1, m1) in zip(knots, knots[1:])]
    # extrapolation probes one / one and a half END-SEGMENT lengths outside (a fixed distance would amplify the single
    # precision of the knots by distance / segment length: 1.5 beat beyond two knots 1/240 beat apart is a factor 360)
    d0 = (us[1] - us[0]) if len(us) > 1 else Fraction(1)
    d1 = (us[-1] - us[-2]) if len(us) > 1 else Fraction(1)
    xs = [(0, u) for u in us] + [(2, (a + b) / 2) for a, b in zip(us, us[1:])] + ([(2, us[0] - d0), (2, us[-1] + d1 * Fraction(3, 2))] if us else [])
    vals = []
    for kind, x in xs:
        y = float(np.asarray(s2p(float(x))))
        if math.isfinite(y):
            tests.append((kind, x, y))
            vals.append(abs(y))
    amp = max([1] + [float(s) for s in slopes])
    monotone = len(ms) >= 2 and all(b - a > Fraction(1, 1000) for a, b in zip(ms, ms[1:]))
    if monotone:
        inv = [abs((u1 - u0) / (m1 - m0)) for (u0, m0), (u1, m1) in zip(knots, knots[1:])]
        amp = max([amp] + [float(s) for s in inv])
        for kind, x in [(1, Fraction(float(m))) for m in ms] + [(3, (a + b) / 2) for a, b in zip(ms, ms[1:])] + \
                [(3, ms[0] - (ms[1] - ms[0])), (3, ms[-1] + (ms[-1] - ms[-2]))]:
            y = float(np.asarray(p2s(float(x))))
            if math.isfinite(y):
                tests.append((kind, Fraction(float(x)), y))
                vals.append(abs(y))
    ttol = Fraction(1, 10 ** 5) * Fraction(max([1.0] + vals)) * Fraction(amp)
    tterm = clist([ctuple([cz(k), cq(x), cq(Fraction(y))]) for k, x, y in tests])
    # annotated: a shard in which every case has an empty list in the same place must still type-check
    return ("((%s, %s, %s, %s, (%s, %s, %s, %s, %s, %s), (%s, %s, %s), (%s, %s, %s)) : c18_case)" % (
        ctuple([cz(METHODS.index(case["method"])), cz(norm_i)]), clist(srows), clist(prows), clist(al),
        clist(midx), clist(sidc), uterm, clist(prm), clist(ncols), clist(mrows), cq(dtol), cq(Fraction(bperr)), clist(decs),
        "true" if case["remove_ornaments"] else "false", cq(ttol), tterm))


IMPORTS = "From PV Require Import Model.C18 Model.C18_Check."
PROP_BITS = ["get_matched_notes holds exactly the alignment's matches with both ids present",
             "snote_ids = the matched score notes ordered by score onset then pitch",
             "beat_period column = what the normalisation columns rescale to",
             "timing consistent with the performed onsets up to one shift",
             "articulation consistent with the performed durations",
             "velocity parameter decodes to the performed velocity",
             "decode_performance output = the model decoder on the same parameters (onsets up to one shift)",
             "time maps through the knots (both directions)",
             "matched score rows = the columns of the paired score and performed notes"]
TIE_BITS = ["get_matched_notes in alignment order", "snote_ids ties in note-array order",
            "onset groups (encoder = decoder = returned unique_onset_idxs)", "modelled tempo curve positive",
            "beat_period = modelled tempo curve / timing origin / v/127 / articulation", "normalisation constants (mean, population variance)",
            "decoded onsets start at 0", "time maps linear between knots and extrapolating",
            "score note array sorted by (onset_div, pitch), unique ids, each score note matched once, distinct onsets >= 2e-4 beat apart "
            "(hypotheses of decode_glue_refines / groups_agree)",
            "decode_performance glue (isin filter, lexsort of score columns and parameters, labels = snote_ids) = dp_decode"]


def sub_case(case, keep_ids):
    """The case restricted to the score notes in keep_ids (and what refers to them)."""
    keep = set(keep_ids)
    notes = [n for n in case["notes"] if n["id"] in keep]
    dropped = {n["id"] for n in case["notes"]} - keep
    al = [a for a in case["align"] if a.get("score_id") not in dropped]
    used = {a.get("performance_id") for a in al}
    perf = [p for p in case["perf"] if p["id"] in used or p.get("extra")]
    c = dict(case)
    c.update(notes=notes, align=al, perf=perf)
    return c


def case_features(case):
    """Corner cases the property singles out, for the evidence's input distribution."""
    out = []
    by_on = {}
    for n in case["notes"]:
        by_on.setdefault(n["start"], []).append(n)
    matched = {a["score_id"] for a in case["align"] if a["label"] == "match"}
    if any(len([n for n in v if not n["grace"]]) >= 2 and len({n["voice"] for n in v}) == 1 for v in by_on.values()):
        out.append("has_chord")
    if any(len({n["voice"] for n in v}) >= 2 for v in by_on.values()):
        out.append("has_several_voices")
    if any(len({n["pitch"] for n in v if not n["grace"]}) < len([n for n in v if not n["grace"]]) for v in by_on.values()):
        out.append("has_unison_same_onset_and_pitch")
    if any(all(n["grace"] for n in v if n["id"] in matched) and any(n["id"] in matched for n in v) for v in by_on.values()):
        out.append("has_onset_with_only_grace_notes_matched")
    if len({n["start"] for n in case["notes"] if n["id"] in matched}) == 1:
        out.append("single_matched_onset")
    last = max(case["notes"], key=lambda n: (n["start"], not n["grace"]))
    if last["grace"] and last["start"] >= max(n["end"] for n in case["notes"]):
        out.append("has_trailing_grace_note")
    for lab in ("deletion", "insertion", "ornament"):
        if any(a["label"] == lab for a in case["align"]):
            out.append("has_" + lab)
    sid_set, pid_set = {n["id"] for n in case["notes"]}, {p["id"] for p in case["perf"]}
    if any(a["label"] == "match" and (a["score_id"] not in sid_set or a["performance_id"] not in pid_set) for a in case["align"]):
        out.append("has_match_with_unknown_id")
    if any("-" in i for i in sid_set):
        out.append("score_ids_with_hyphen")
    if any(i != j and (j.startswith(i + "-") or j.startswith(i)) for i in sid_set for j in sid_set):
        out.append("score_id_prefix_of_another")
    if sid_set & pid_set:
        out.append("performed_ids_equal_score_ids")
    return out


# ----------------------------------------------------------------------------
# histories: state carried between calls.  The SAME Part / Score / PartGroup / list, PerformedPart / Performance and
# alignment list go through the functions under test, are edited through the public API (or in place, the way a
# caller corrects a score or a performance), and go through the functions again.  Every observation is judged against
# the CURRENT state only: the oracle's expectations come from the JSON description of the current state and from the
# note arrays of a freshly built copy of it.


def measures_end(case):
    """Where the measures build() lays out for the case end."""
    end = max([n["end"] for n in case["notes"]] + [1, case.get("span_end", 0)])
    t, first = case["pickup"] or 0, True
    while t < end or first:
        t += case["measure_len"]
        first = False
    return t


def valid_matches(state):
    sids, pids = {n["id"] for n in state["notes"]}, {p["id"] for p in state["perf"]}
    return [a for a in state["align"] if a["label"] == "match" and a["score_id"] in sids and a["performance_id"] in pids]


def valid_state(state):
    """The invariants of generated cases (what the quantifier of C18 admits)."""
    sid = [n["id"] for n in state["notes"]]
    pid = [p["id"] for p in state["perf"]]
    if len(set(sid)) != len(sid) or len(set(pid)) != len(pid) or not sid:
        return False
    vm = valid_matches(state)
    if not vm or len({a["score_id"] for a in vm}) != len(vm) or len({a["performance_id"] for a in vm}) != len(vm):
        return False
    for n in state["notes"]:
        if n["start"] < 0 or n["end"] > state["span_end"] or (n["end"] != n["start"] if n["grace"] else n["end"] <= n["start"]):
            return False
    for p in state["perf"]:
        if not (0 <= p["on"] < p["off"]):
            return False
    return state["qd"] >= 1


def fresh_id(rng, taken, letter):
    """An id the state does not have yet: unrelated, or an existing id with a suffix (ids that are prefixes of others)."""
    taken = set(taken)
    cand = ["%s%d" % (letter, k) for k in range(900, 960)]
    if taken and rng.random() < 0.4:
        base = rng.choice(sorted(taken))
        cand = [base + "-2", base + "-3", base + "0", base.split("-")[0] + "-9"] + cand
    for c in cand:
        if c not in taken:
            return c
    return "%s-new-%d" % (letter, len(taken))


HIST_OPS = [("dur", 20), ("add_note", 20), ("del_note", 7), ("ts", 12), ("qd", 6), ("pitch", 8), ("rename", 6), ("move", 8),
            ("pvel", 6), ("ptime", 8), ("pdel", 4), ("padd", 4), ("al_unmatch", 5), ("al_rematch", 5), ("al_reverse", 3),
            ("replace_part", 8), ("replace_ppart", 4)]


def gen_op(rng, state):
    """One edit of the current state (a JSON-able description; apply_json / apply_live carry it out)."""
    kind = rng.choices([k for k, _ in HIST_OPS], weights=[w for _, w in HIST_OPS])[0]
    notes, perf = state["notes"], state["perf"]
    qd = state["qd"]
    units = sorted({max(1, qd // k) for k in (1, 2, 3, 4)} | {qd, 2 * qd})
    ng = [n for n in notes if not n["grace"]]
    vm = valid_matches(state)
    if kind == "dur" and ng:
        n = rng.choice(ng)
        ends = [n["start"] + u for u in units if n["start"] + u != n["end"] and n["start"] + u <= state["span_end"]]
        return {"op": "dur", "id": n["id"], "end": rng.choice(ends)} if ends else None
    if kind == "move":
        n = rng.choice(notes)
        starts = sorted({m["start"] for m in notes} | {n["start"] + u for u in units} | {max(0, n["start"] - u) for u in units})
        st = rng.choice([x for x in starts if x != n["start"]] or [n["start"]])
        return {"op": "move", "id": n["id"], "start": st, "end": st + (n["end"] - n["start"])}
    if kind == "add_note":
        starts = sorted({m["start"] for m in notes})
        st = rng.choice(starts) if rng.random() < 0.6 else rng.randint(0, max(0, state["span_end"] - 1))
        grace = rng.random() < 0.1
        en = st if grace else min(state["span_end"], st + rng.choice(units))
        nid = fresh_id(rng, [m["id"] for m in notes], "n")
        op = {"op": "add_note", "note": {"id": nid, "pitch": rng.randint(36, 88), "start": st, "end": en, "voice": rng.choice([1, 1, 2]),
                                         "grace": grace}, "perf": None, "at": rng.random()}
        if rng.random() < 0.85:
            mates = [a for a in vm if any(m["id"] == a["score_id"] and m["start"] == st for m in notes)]
            if mates:
                on = max(0.0, next(p["on"] for p in perf if p["id"] == mates[0]["performance_id"]) + rng.uniform(-0.03, 0.03))
            else:
                on = rng.uniform(0.0, 8.0)
            op["perf"] = {"id": fresh_id(rng, [p["id"] for p in perf], "p"), "pitch": op["note"]["pitch"], "on": on,
                          "off": on + rng.uniform(0.08, 1.5), "vel": rng.randint(1, 127)}
        return op
    if kind == "del_note":
        return {"op": "del_note", "id": rng.choice(notes)["id"]}
    if kind == "ts":
        return {"op": "ts", "ts": list(rng.choice([t for t in [(4, 4), (3, 4), (6, 8), (2, 2), (2, 4), (5, 8), (3, 8)] if list(t) != list(state["ts"])]))}
    if kind == "qd":
        return {"op": "qd", "qd": rng.choice([q for q in (qd * 2, qd * 3, max(1, qd // 2), qd + 1) if q != qd and q <= 960] or [qd * 2])}
    if kind == "pitch":
        n = rng.choice(notes)
        return {"op": "pitch", "id": n["id"], "pitch": rng.choice([p for p in range(30, 91) if p != n["pitch"]])}
    if kind == "rename":
        n = rng.choice(notes)
        return {"op": "rename", "id": n["id"], "new": fresh_id(rng, [m["id"] for m in notes], "n"), "align": rng.random() < 0.6}
    if kind == "pvel":
        p = rng.choice(perf)
        return {"op": "pvel", "id": p["id"], "vel": rng.choice([1, 127, rng.randint(1, 127)])}
    if kind == "ptime":
        p = rng.choice(perf)
        on = max(0.0, p["on"] + rng.uniform(-0.05, 0.3))
        return {"op": "ptime", "id": p["id"], "on": on, "off": on + rng.uniform(0.08, 1.5)}
    if kind == "pdel":
        return {"op": "pdel", "id": rng.choice(perf)["id"]}
    if kind == "padd":
        on = rng.uniform(0.0, 6.0)
        pid = fresh_id(rng, [p["id"] for p in perf], "x")
        al = {"label": "insertion", "performance_id": pid} if rng.random() < 0.5 else \
            {"label": "ornament", "score_id": rng.choice(notes)["id"], "performance_id": pid}
        return {"op": "padd", "perf": {"id": pid, "pitch": rng.randint(30, 90), "on": on, "off": on + rng.uniform(0.05, 0.5),
                                       "vel": rng.randint(1, 127), "extra": True}, "al": al}
    if kind == "al_unmatch" and vm:
        return {"op": "al_unmatch", "score_id": rng.choice(vm)["score_id"]}
    if kind == "al_rematch" and len(vm) >= 2:
        a, b = rng.sample(vm, 2)
        return {"op": "al_rematch", "a": a["score_id"], "b": b["score_id"]}
    if kind == "al_reverse":
        return {"op": "al_reverse"}
    if kind in ("replace_part", "replace_ppart"):
        return {"op": kind}
    return None


def apply_json(state, op):
    """(state after the edit, True), or (state, False) when the edit does not apply to this state (its target is
    missing -- a shrunk case -- or the result would leave the generated class)."""
    st = json.loads(json.dumps(state))
    notes, perf, al = st["notes"], st["perf"], st["align"]
    k = op["op"]

    def note(i):
        return next((n for n in notes if n["id"] == i), None)

    def pnote(i):
        return next((p for p in perf if p["id"] == i), None)

    def match_of(sid):
        return next((a for a in al if a["label"] == "match" and a.get("score_id") == sid), None)

    if k == "config":
        for key in ("norm", "method", "remove_ornaments"):
            if key in op:
                st[key] = op[key]
        st["opts"].update(op.get("opts", {}))
    elif k in ("dur", "move", "pitch"):
        n = note(op["id"])
        if n is None or (k == "dur" and n["grace"]):
            return state, False
        if k == "dur":
            n["end"] = op["end"]
        elif k == "move":
            n["start"], n["end"] = op["start"], op["end"]
        else:
            n["pitch"] = op["pitch"]
    elif k == "add_note":
        notes.append(dict(op["note"]))
        if op["perf"] is not None:
            perf.append(dict(op["perf"]))
            al.insert(int(op["at"] * (len(al) + 1)), {"label": "match", "score_id": op["note"]["id"], "performance_id": op["perf"]["id"]})
    elif k == "del_note":
        n = note(op["id"])
        if n is None:
            return state, False
        notes.remove(n)
    elif k == "ts":
        st["ts"] = list(op["ts"])
    elif k == "qd":
        st["qd"] = op["qd"]
    elif k == "rename":
        n = note(op["id"])
        if n is None:
            return state, False
        n["id"] = op["new"]
        if op["align"]:
            for a in al:
                if a.get("score_id") == op["id"]:
                    a["score_id"] = op["new"]
    elif k in ("pvel", "ptime", "pdel"):
        p = pnote(op["id"])
        if p is None:
            return state, False
        if k == "pvel":
            p["vel"] = op["vel"]
        elif k == "ptime":
            p["on"], p["off"] = op["on"], op["off"]
        else:
            perf.remove(p)
    elif k == "padd":
        perf.append(dict(op["perf"]))
        al.append(dict(op["al"]))
    elif k == "al_unmatch":
        a = match_of(op["score_id"])
        if a is None:
            return state, False
        pid = a.pop("performance_id")
        a["label"] = "deletion"
        al.append({"label": "insertion", "performance_id": pid})
    elif k == "al_rematch":
        a, b = match_of(op["a"]), match_of(op["b"])
        if a is None or b is None or a is b:
            return state, False
        a["performance_id"], b["performance_id"] = b["performance_id"], a["performance_id"]
    elif k == "al_reverse":
        al.reverse()
    elif k in ("replace_part", "replace_ppart"):
        pass
    else:
        raise ValueError("unknown history op %r" % (op,))
    if not valid_state(st):
        return state, False
    return st, True


def apply_live(live, op, after):
    """The same edit carried out on the objects the caller holds (public API / in place); `after` = the state
    description after the edit (apply_json)."""
    import partitura.score as S
    from partitura.performance import PerformedNote
    from partitura.utils.music import midi_pitch_to_pitch_spelling

    part, ppart, al = live["part0"], live["ppart0"], live["shared"]
    k = op["op"]

    def note(i):
        return next(n for n in part.notes if n.id == i)

    def pnote(i):
        return next(p for p in ppart.notes if p["id"] == i)

    def match_of(sid):
        return next(a for a in al if a["label"] == "match" and str(a.get("score_id")) == sid)

    def new_pnote(p):
        return PerformedNote(dict(id=p["id"], midi_pitch=p["pitch"], note_on=p["on"], note_off=p["off"], velocity=p["vel"]))

    if k in ("dur", "move"):
        n = note(op["id"])
        st = n.start.t
        part.remove(n)
        part.add(n, op.get("start", st), op["end"])
    elif k == "pitch":
        n = note(op["id"])
        n.step, n.alter, n.octave = midi_pitch_to_pitch_spelling(op["pitch"])
    elif k == "add_note":
        m = op["note"]
        step, alter, octave = midi_pitch_to_pitch_spelling(m["pitch"])
        if m["grace"]:
            part.add(S.GraceNote("acciaccatura", step, octave, alter, voice=m["voice"], id=m["id"]), m["start"], m["start"])
        else:
            part.add(S.Note(step, octave, alter, voice=m["voice"], id=m["id"]), m["start"], m["end"])
        if op["perf"] is not None:
            ppart.notes.append(new_pnote(op["perf"]))
            al.insert(int(op["at"] * (len(al) + 1)), {"label": "match", "score_id": m["id"], "performance_id": op["perf"]["id"]})
    elif k == "del_note":
        part.remove(note(op["id"]))
    elif k == "ts":
        for ts in list(part.iter_all(S.TimeSignature)):
            part.remove(ts)
        part.add(S.TimeSignature(op["ts"][0], op["ts"][1]), 0)
    elif k == "qd":
        part.set_quarter_duration(0, op["qd"])
    elif k == "rename":
        note(op["id"]).id = op["new"]
        if op["align"]:
            for a in al:
                if "score_id" in a and str(a["score_id"]) == op["id"]:
                    a["score_id"] = op["new"]
    elif k == "pvel":
        pnote(op["id"])["velocity"] = op["vel"]
    elif k == "ptime":
        p = pnote(op["id"])
        p["sound_off"] = max(p["sound_off"], op["off"])  # the setters validate note_on <= note_off <= sound_off
        if op["on"] <= p["note_off"]:
            p["note_on"] = op["on"]
            p["note_off"] = op["off"]
        else:
            p["note_off"] = op["off"]
            p["note_on"] = op["on"]
        p["sound_off"] = op["off"]
        ppart.sustain_pedal_threshold = ppart.sustain_pedal_threshold  # documented: recomputes every sound_off
    elif k == "pdel":
        ppart.notes.remove(pnote(op["id"]))
    elif k == "padd":
        ppart.notes.append(new_pnote(op["perf"]))
        al.append(dict(op["al"]))
    elif k == "al_unmatch":
        a = match_of(op["score_id"])
        pid = a.pop("performance_id")
        a["label"] = "deletion"
        al.append({"label": "insertion", "performance_id": pid})
    elif k == "al_rematch":
        a, b = match_of(op["a"]), match_of(op["b"])
        a["performance_id"], b["performance_id"] = b["performance_id"], a["performance_id"]
    elif k == "al_reverse":
        al.reverse()
    elif k == "replace_part":
        # another Part object (the current state, built anew) takes the place of the old one in the container
        new = build(after)[0]
        wrap, cont = live["wrap"], live["part"]
        if wrap == "containers":
            cont[0] = new  # Score.__setitem__
            cont.part_structure = [new]
        elif wrap == "list":
            cont[0] = new
        elif wrap == "group":
            cont.children = [new]
            new.parent = cont
        else:
            live["part"] = new
        live["part0"] = new
    elif k == "replace_ppart":
        new = build(after)[1]
        if live["wrap"] == "containers":
            live["ppart"].performedparts[0] = new
        else:
            live["ppart"] = new
        live["ppart0"] = new


def scribble(obs):
    """The caller writes into everything the functions returned (and into the note arrays it obtained): none of it
    may be something a later call still reads."""
    import numpy as np

    def arr(a):
        if isinstance(a, np.ndarray) and a.dtype.names and len(a):
            for nm in a.dtype.names:
                try:
                    a[nm][:] = "zz" if a.dtype[nm].kind in "US" else 77
                except Exception:
                    pass
        elif isinstance(a, np.ndarray) and a.size:
            try:
                a[...] = 0
            except Exception:
                pass

    for key in ("mscore", "mscore_mk", "enc", "enc_live", "enc_pair", "enc2"):
        r = obs.get(key)
        if isinstance(r, tuple):
            for x in r:
                if isinstance(x, np.ndarray):
                    arr(x)
                elif isinstance(x, list):
                    for y in x:
                        arr(y)
                    x.append("zz")
                    x.reverse()
    for key in ("sna_live", "pna_live", "matched_idx", "table_live"):
        arr(obs.get(key))
    for key in ("dec", "dec_all", "dec_bp", "dec_again", "dec2"):
        d = obs.get(key)
        if d is not None and hasattr(d, "notes"):
            for n in d.notes:
                n["velocity"] = 1
            del d.notes[1:]
    if isinstance(obs.get("dec_al"), list):
        for a in obs["dec_al"]:
            a["score_id"] = "zz"
        obs["dec_al"].append({"label": "match", "score_id": "zz", "performance_id": "zz"})


def oracle_tables(state, live, ref, obs):
    """The score-side note table the codec reads (compute_note_array / ensure_notearray of the object the caller
    holds) describes the CURRENT state: by note id, the rows of a freshly built copy."""
    import numpy as np
    from partitura.musicanalysis.note_features import compute_note_array
    from partitura.utils.music import ensure_notearray

    bad = []
    cols = ["onset_beat", "duration_beat", "onset_div", "duration_div", "pitch"]
    want = {str(r["id"]): tuple(float(r[c]) for c in cols) for r in ref[0]}
    for name, f in (("compute_note_array", compute_note_array), ("ensure_notearray", ensure_notearray)):
        try:
            na = f(live["part"])
        except Exception as e:
            bad.append(("note_table_exc", "%s(score) raised %s: %s" % (name, type(e).__name__, str(e)[:160])))
            continue
        obs["table_live"] = na
        got = {str(r["id"]): tuple(float(r[c]) for c in cols) for r in na}
        if sorted(got) != sorted(want) or len(na) != len(ref[0]):
            bad.append(("note_table", "%s(score) lists the notes %r, the score now holds %r" % (name, sorted(got), sorted(want))))
        else:
            for i in sorted(want):
                if any(abs(a - b) > 4 * F32 * max(1.0, abs(b)) for a, b in zip(got[i], want[i])):
                    bad.append(("note_table", "%s(score): note %s has (onset_beat, duration_beat, onset_div, duration_div, pitch) = %r, "
                                "in the score as it is now %r" % (name, i, got[i], want[i])))
                    break
    try:
        pa = ensure_notearray(live["ppart"])
        pcols = ["onset_sec", "duration_sec", "pitch", "velocity"]
        wantp = {str(r["id"]): tuple(float(r[c]) for c in pcols) for r in ref[1]}
        gotp = {str(r["id"]): tuple(float(r[c]) for c in pcols) for r in pa}
        if gotp != wantp:
            diff = sorted(i for i in set(gotp) | set(wantp) if gotp.get(i) != wantp.get(i))
            bad.append(("perf_table", "ensure_notearray(performance) differs from the performance as it is now at %r: %r vs %r"
                        % (diff[:3], [gotp.get(i) for i in diff[:3]], [wantp.get(i) for i in diff[:3]])))
    except Exception as e:
        bad.append(("perf_table_exc", "ensure_notearray(performance) raised %s: %s" % (type(e).__name__, str(e)[:160])))
    return bad


def describe_ops(ops):
    out = []
    for o in ops:
        o = dict(o)
        k = o.pop("op")
        if k == "config":
            continue
        if k == "add_note":
            o = {"id": o["note"]["id"], "start": o["note"]["start"], "end": o["note"]["end"], "matched": o["perf"] is not None}
        if k == "padd":
            o = {"id": o["perf"]["id"], "as": o["al"]["label"]}
        out.append("%s(%s)" % (k, ", ".join("%s=%s" % kv for kv in sorted(o.items()))))
    return "; ".join(out) or "no edit"


def history_states(case):
    """[(state, [ops applied])]: the initial state and the state after each stage (edits that do not apply are skipped)."""
    state = {k: v for k, v in case.items() if k != "stages"}
    state["span_end"] = measures_end(state)
    out = [(state, [])]
    for ops in case["stages"]:
        done = []
        for op in ops:
            state, ok = apply_json(state, op)
            if ok:
                done.append(op)
        out.append((state, done))
    return out


def run_history(case):
    """(last observations, failures): every stage's calls on the SAME objects, judged against the current state."""
    states = history_states(case)
    state = states[0][0]
    live = make_live(state)
    bad_all = []
    obs = None
    prev = None
    told = []
    rounds = []
    for k, (after, ops) in enumerate(states):
        for j, op in enumerate(ops):
            # the state description after this very op (replace_part builds the new part from it)
            mid = state
            for o in ops[:j + 1]:
                mid, _ = apply_json(mid, o)
            apply_live(live, op, mid)
        state = after
        told.append(describe_ops(ops))
        where = "" if k == 0 else " [history: the same objects after %d earlier round(s) of calls and the edits %s]" % (k, " | ".join(told[1:]))
        pre = "" if k == 0 else "st_"
        ref = None
        if k > 0 or state["opts"].get("fresh_runs"):
            fresh = make_live(state)
            ref = (fresh["part0"].note_array(), fresh["ppart0"].note_array())
            when = state["opts"].get("fresh_runs")
            if when == "before":  # another object with the same ids / part id goes through the functions in between
                fobs = run_calls(state, fresh)
                bad_all += [("fr_" + c, m + " [freshly built objects, run between the rounds on the edited ones]") for c, m in oracle(state, fobs)]
        obs = run_calls(state, live, ref=ref if k > 0 else None)
        if prev is not None:
            # what the EARLIER round returned (the very objects, untouched by the caller) is read again after the later
            # calls: it still describes the state it was computed from, and its parameters still decode to that
            # state's performance (nothing returned earlier is a buffer / table entry a later call rewrites)
            bad_all += [("late_" + c, m + " [results of an earlier round of calls, read again after the later round]")
                        for c, m in late_oracle(*prev)]
        bad = oracle(state, obs)
        if k > 0:
            bad += oracle_tables(state, live, ref, obs)
        bad_all += [(pre + c, m + where) for c, m in bad]
        rounds.append(round_record(obs))
        # (decoded later against a deep copy of the score object as it is now: among notes sharing onset and pitch the
        # parameters are paired in the order of THIS object's note array, which a rebuilt equal score need not share)
        sound = not any(not (c.endswith("_dur_grace") or c.endswith("_dur_floor")) for c, _ in bad)  # a round that failed is not re-judged
        prev = None if state["opts"].get("scribble") or not sound else (state, obs, copy.deepcopy(live["part"]))
        if ref is not None and state["opts"].get("fresh_runs") == "after":
            fobs = run_calls(state, fresh)
            bad_all += [("fr_" + c, m + " [freshly built objects, run after the round on the edited ones]") for c, m in oracle(state, fobs)]
        if state["opts"].get("scribble") and k + 1 < len(states):
            scribble(obs)
    obs["rounds"] = rounds
    return obs, bad_all


def round_record(obs):
    """What one round of calls showed, for the correspondence with Model/C18_Hist.v: the snote_ids lists returned
    and the matched-note table as (score id, performance id) pairs (copies: the caller may scribble on the originals)."""
    import numpy as np
    if obs.get("mscore") is None or obs.get("enc") is None or obs.get("matched_idx") is None:
        return None
    sna, pna = obs["sna"], obs["pna"]
    pairs = []
    for sidx, pidx in (np.asarray(obs["matched_idx"]).reshape(-1, 2) if len(obs["matched_idx"]) else []):
        pairs.append((str(sna["id"][int(sidx)]) if 0 <= sidx < len(sna) else None, str(pna["id"][int(pidx)]) if 0 <= pidx < len(pna) else None))
    return {"sids": [[str(x) for x in obs["mscore"][1]], [str(x) for x in obs["enc"][1]]], "pairs": pairs}


def hist_term(case, obs):
    """Coq term of type hist_case (Model/C18_Hist.v): the initial tables, the edits in the model's vocabulary (its own
    edit semantics computes the later tables), one HCall per round, and what the implementation showed per round."""
    rounds = obs.get("rounds") if obs else None
    states = history_states(case)
    if not rounds or len(rounds) != len(states) or any(r is None for r in rounds):
        return None
    codes = {}

    def code(x):
        return codes.setdefault(str(x), len(codes))

    def tables(state):
        part, ppart = build(state)
        return part.note_array(), ppart.note_array()

    def srow(r):
        return ctuple([cz(code(r["id"])), cq(fr(r["onset_beat"])), cq(fr(r["duration_beat"])), cz(int(r["onset_div"])), cz(int(r["pitch"]))])

    def srows(na):
        return clist([srow(r) for r in na])

    def prows(na):
        return clist([ctuple([cz(code("P:" + str(r["id"]))), cq(fr(r["onset_sec"])), cq(fr(r["duration_sec"])), cz(int(r["velocity"]))]) for r in na])

    def alist(al):
        out = []
        for a in al:
            sc = code(a["score_id"]) if "score_id" in a else -2
            pc = code("P:" + str(a["performance_id"])) if "performance_id" in a else -3
            out.append(ctuple([cz(0 if a["label"] == "match" else 1), cz(sc), cz(pc)]))
        return clist(out)

    st = states[0][0]
    sna0, pna0 = tables(st)
    s0 = "(mk_h 0%%Z %s %s %s)" % (srows(sna0), prows(pna0), alist(st["align"]))
    ops_t = ["HCall"]
    oid = 0
    for after, ops in states[1:]:
        for op in ops:
            k = op["op"]
            st, _ = apply_json(st, op)
            if k == "config":
                continue
            if k in ("dur", "move", "add_note", "ts", "qd"):
                na, _ = tables(st)
                row = {str(r["id"]): r for r in na}
            if k == "dur":
                ops_t.append("HScore (EDur %s %s)" % (cz(code(op["id"])), cq(fr(row[op["id"]]["duration_beat"]))))
            elif k == "move":
                r = row[op["id"]]
                ops_t.append("HScore (EMove %s %s %s)" % (cz(code(op["id"])), cq(fr(r["onset_beat"])), cz(int(r["onset_div"]))))
            elif k == "pitch":
                ops_t.append("HScore (EPitch %s %s)" % (cz(code(op["id"])), cz(op["pitch"])))
            elif k == "rename":
                ops_t.append("HScore (ERename %s %s)" % (cz(code(op["id"])), cz(code(op["new"]))))
            elif k == "del_note":
                ops_t.append("HScore (EDel %s)" % cz(code(op["id"])))
            elif k == "add_note":
                ops_t.append("HScore (EAdd %s)" % srow(row[op["note"]["id"]]))
            elif k in ("ts", "qd"):
                ops_t.append("HScore (ETable %s)" % srows(na))
            elif k == "replace_part":
                oid += 1
                ops_t.append("HReplace %s" % cz(oid))
            if k in ("pvel", "ptime", "pdel", "padd", "replace_ppart") or (k == "add_note" and op["perf"] is not None):
                ops_t.append("HPerf %s" % prows(build(st)[1].note_array()))
            if k in ("al_unmatch", "al_rematch", "al_reverse", "padd") or (k == "add_note" and op["perf"] is not None) or \
                    (k == "rename" and op["align"]):
                ops_t.append("HAlign %s" % alist(st["align"]))
        ops_t.append("HCall")
    obs_t = []
    for r in rounds:
        pairs = [ctuple([cz(code(a) if a is not None else 999999), cz(code("P:" + b) if b is not None else 999999)]) for a, b in r["pairs"]]
        obs_t.append(ctuple([clist([clist([cz(code(i)) for i in ids]) for ids in r["sids"]]), clist(pairs)]))
    return "((%s, %s, %s) : hist_case)" % (s0, clist(ops_t), clist(obs_t))


HIST_IMPORTS = "From PV Require Import Model.C18 Model.C18_Hist."


def late_oracle(state, obs, score_then):
    """The observations of an earlier round judged once more (against the state they were computed from), and their
    parameters decoded once more against a copy of the score as it was then."""
    from partitura.musicanalysis import performance_codec as PC

    obs = dict(obs)
    if "enc_live" in obs:
        obs["enc"] = obs["enc_live"]
    for key in ("dec_exc", "dec_all", "dec_bp", "dec_again", "enc2", "dec2", "dec_al"):
        obs.pop(key, None)
    if obs.get("enc") is not None:
        params, sids = obs["enc"][0], obs["enc"][1]
        try:
            obs["dec"] = PC.decode_performance(score_then, params, snote_ids=sids, beat_normalization=state["norm"])
        except Exception as e:
            obs["dec"], obs["dec_exc"] = None, "%s: %s" % (type(e).__name__, str(e)[:200])
    st = dict(state)
    st["opts"] = dict(state["opts"], ret_align=False)
    return oracle(st, obs)


def gen_history_case(rng):
    case = gen_case(rng, rng.choice([2, 3, 4, 6]))
    case["wrap"] = rng.choices(["objects", "containers", "arrays", "list", "group"], weights=[34, 30, 10, 13, 13])[0]
    case["opts"].update(shared_al=rng.random() < 0.6, same_params=rng.random() < 0.5, history=rng.random() < 0.15,
                        fresh_runs=rng.choice([None, None, None, "before", "after"]), scribble=rng.random() < 0.5)
    state = {k: v for k, v in case.items()}
    state["span_end"] = measures_end(state)
    stages = []
    for _ in range(rng.choice([1, 1, 2, 2, 3])):
        ops = []
        if rng.random() < 0.5:  # the next round of calls uses other options than the one before
            op = {"op": "config", "norm": rng.choice(NORMS), "method": rng.choice(METHODS), "remove_ornaments": rng.random() < 0.6,
                  "opts": {"markings": rng.random() < 0.25, "ret_align": rng.random() < 0.4, "codec_first": rng.random() < 0.6}}
            state, _ = apply_json(state, op)
            ops.append(op)
        # 15% of the rounds follow the one before with no edit at all (what the caller did to the returned objects aside)
        for _ in range(rng.choice([1, 1, 2, 3]) if rng.random() >= 0.15 else 0):
            for attempt in range(6):
                op = gen_op(rng, state)
                if op is None:
                    continue
                st2, ok = apply_json(state, op)
                if ok:
                    state = st2
                    ops.append(op)
                    break
        stages.append(ops)
    case["stages"] = stages
    return case


# ----------------------------------------------------------------------------
# round j: decode_time called directly -- the array-level model coq/Model/C18_Loop.v (np.cumsum, zero array, one write
# per cell in the order of the groups, ONE shift after the loop) evaluated on the arrays the implementation received


LOOP_IMPORTS = "From PV Require Import Model.C18 Model.C18_Check Model.C18_Loop."
ARTS = [-1.0, -0.5, 0.0, 0.0, 0.5, 1.0, 2.0]


def gen_loop_case(rng):
    """Score onsets / durations as arrays (sorted as decode_performance hands them over, or in any order: the onsets
    need not be sorted, get_unique_onset_idxs says), and a parameter array: `arbitrary` = any float32 values (beat period
    constant per score onset as every encoder leaves it, timing and articulation free per note), `encoded` = what
    /repo's encode_tempo makes of a random performance of these notes."""
    kind = rng.choices(["arbitrary", "encoded"], [55, 45])[0]
    grid = rng.choice([1, 2, 4, 8, 3, 12, 480])
    n_on = rng.choice([1, 1, 2, 3, 4, 6, 9])
    onsets = sorted(rng.sample(range(-grid, 12 * grid + 1), n_on))
    trailing_grace = rng.random() < 0.2
    notes = []
    for k, o in enumerate(onsets):
        m = rng.choice([1, 1, 1, 2, 2, 3, 4])
        for _ in range(m):
            grace = rng.random() < 0.15 or (trailing_grace and k == len(onsets) - 1)
            notes.append((o, 0 if grace else rng.randint(1, 4 * grid)))
    order = rng.choices(["sorted", "shuffled", "reversed"], [50, 40, 10])[0]
    if order == "shuffled":
        rng.shuffle(notes)
    elif order == "reversed":
        notes.reverse()
    case = {"loop": True, "kind": kind, "order": order, "grid": grid,
            "so": [o / grid for o, _ in notes], "sd": [d / grid for _, d in notes]}
    if kind == "arbitrary":
        style = rng.choices(["positive", "any_sign"], [85, 15])[0]
        bp_of = {}
        for o in onsets:
            bp_of[o] = rng.randint(8, 256) / 128.0 if style == "positive" else rng.randint(-128, 256) / 128.0
        case["bp"] = [bp_of[o] for o, _ in notes]
        case["timing"] = [rng.randint(-2048, 2048) / 1024.0 if rng.random() < 0.8 else 0.0 for _ in notes]
        case["art"] = [rng.choice(ARTS) for _ in notes]
    else:
        flavour = rng.choices(["walk", "wild"], [75, 25])[0]
        t, at = rng.uniform(0.0, 3.0), {}
        for o in onsets:
            at[o] = t
            t += rng.uniform(0.05, 1.5)
        if flavour == "wild":
            for o in onsets:
                at[o] = rng.uniform(-2.0, 8.0)
        case["po"] = [at[o] + rng.uniform(-0.02, 0.02) for o, _ in notes]
        case["pd"] = [rng.uniform(0.05, 2.0) for _ in notes]
        case["method"] = rng.choice(METHODS)
        case["flavour"] = flavour
    return case


def sub_loop_case(case, keep):
    c = dict(case)
    for k in ("so", "sd", "bp", "timing", "art", "po", "pd"):
        if k in case:
            c[k] = [case[k][i] for i in keep]
    return c


def run_loop_case(case):
    """(obs, failures): decode_time of /repo on the case; the direct oracle in Python (independent of the Coq model):
    encoded -- the decoded onsets are the performed ones up to ONE shift, the durations of notes with a score duration the
    performed ones; arbitrary -- the per-note formulas in exact rationals (beat period of the note's score onset, running
    sum of score interval x beat period up to that onset, minus the note's timing)."""
    import numpy as np
    core.setup_import_path()
    from partitura.musicanalysis import performance_codec as PC
    so = np.array(case["so"], dtype=float)
    sd = np.array(case["sd"], dtype=float)
    n = len(so)
    bad = []
    obs = {"rows": None}
    if case["kind"] == "encoded":
        try:
            params = PC.encode_tempo(score_onsets=so.copy(), performed_onsets=np.array(case["po"], dtype=float),
                                     score_durations=sd.copy(), performed_durations=np.array(case["pd"], dtype=float),
                                     return_u_onset_idx=False, beat_normalization="beat_period", tempo_smooth=case["method"])
        except Exception as e:
            return obs, [("loop_enc_exc", "encode_tempo raised %s: %s" % (type(e).__name__, e))]
    else:
        params = np.zeros(n, dtype=[(f, "f4") for f in ("beat_period", "velocity", "timing", "articulation_log")])
        params["beat_period"] = case["bp"]
        params["timing"] = case["timing"]
        params["articulation_log"] = case["art"]
    obs["params"] = params.copy()
    try:
        rows = PC.decode_time(score_onsets=so.copy(), score_durations=sd.copy(), parameters=params.copy(), normalization="beat_period")
        rows = np.asarray(rows, dtype=float)
    except Exception as e:
        return obs, [("loop_exc", "decode_time raised %s: %s on %d notes" % (type(e).__name__, e, n))]
    if rows.shape != (n, 2):
        return obs, [("loop_shape", "decode_time returned shape %r for %d notes" % (rows.shape, n))]
    if not np.all(np.isfinite(rows)):
        return obs, [("loop_nan", "decode_time returned a non-finite value: %r" % rows.tolist())]
    obs["rows"] = rows
    timing = params["timing"].astype(float)
    bpc = params["beat_period"].astype(float)
    if case["kind"] == "encoded":
        po, pd = np.array(case["po"]), np.array(case["pd"])
        mag = max(1.0, float(np.max(np.abs(po))), float(np.max(np.abs(timing))), float(np.max(np.abs(timing + po))))
        off = rows[:, 0] - po
        if float(np.max(off) - np.min(off)) > 4e-6 * mag:
            j = int(np.argmax(np.abs(off - np.median(off))))
            bad.append(("loop_onset", "decode_time(encode_tempo(...)): note %d decoded at %.9g - shift %.9g, performed at %.9g"
                        % (j, rows[j, 0], float(np.median(off)), po[j])))
        for j in range(n):
            if sd[j] > 0 and abs(rows[j, 1] - pd[j]) > 1e-5 * abs(pd[j]) + 1e-6:
                bad.append(("loop_dur", "decode_time(encode_tempo(...)): note %d decoded duration %.9g, performed %.9g" % (j, rows[j, 1], pd[j])))
                break
    else:
        F = Fraction
        fso, fsd = [F(x) for x in case["so"]], [F(x) for x in case["sd"]]
        us = sorted(set(fso))
        last = max(a + b for a, b in zip(fso, fsd))
        if last - us[-1] <= F(1, 10 ** 6):
            last = us[-1] + 1
        xs = us + [last]
        bp_u = [F(float(bpc[fso.index(u)])) for u in us]
        eq = [F(0)]
        for k in range(len(us)):
            eq.append(eq[-1] + (xs[k + 1] - xs[k]) * bp_u[k])
        raw = [eq[us.index(fso[j])] - F(float(timing[j])) for j in range(n)]
        mag = 1.0 + max(abs(float(r)) for r in raw)
        off = [rows[j, 0] - float(raw[j]) for j in range(n)]
        if max(off) - min(off) > 1e-9 * mag:
            j = max(range(n), key=lambda q: abs(off[q] - off[0]))
            bad.append(("loop_onset", "decode_time: notes 0 and %d decoded %.9g apart, the parameters say %.9g (running sum of score "
                        "interval x beat period minus timing)" % (j, rows[j, 0] - rows[0, 0], float(raw[j] - raw[0]))))
        for j in range(n):
            want = 2.0 ** float(params["articulation_log"][j]) * float(fsd[j]) * float(bp_u[us.index(fso[j])])
            if abs(rows[j, 1] - want) > 1e-6 * abs(want) + 1e-9:
                bad.append(("loop_dur", "decode_time: note %d decoded duration %.9g, 2**articulation x score duration x beat period = %.9g"
                            % (j, rows[j, 1], want)))
                break
    return obs, bad


def loop_term(case, obs):
    """The case as a Coq term of type loop_case: the arrays handed to decode_time (exact values of the floats), 2 ** the
    articulation column, the tolerance, the rows returned."""
    params = obs.get("params")
    if params is None:
        return None
    rows = obs.get("rows")
    timing = [fr(x) for x in params["timing"]]
    mag = 1.0 + max([abs(float(t)) for t in timing] + ([float(abs(rows[:, 0]).max())] if rows is not None and len(rows) else [0.0]))
    # float64 arithmetic on float32-exact inputs, except the chord mean of the beat period, which decode_time stores as
    # float32 again (np.mean of three equal float32 values may be one ulp off): 2^-23 relative on every equivalent onset
    tol = Fraction(mag) * 3 / 10 ** 7
    ql = lambda xs: clist([cq(fr(x)) for x in xs])
    return "(%s : loop_case)" % ctuple([
        ql(case["so"]), ql(case["sd"]), ql(params["beat_period"]), clist([cq(t) for t in timing]),
        ql([2.0 ** float(a) for a in params["articulation_log"]]), cq(tol),
        core.copt(rows, lambda r: clist([ctuple([cq(fr(a)), cq(fr(b))]) for a, b in r]))])


def loop_shift_inside_differs(case, obs):
    """Generator power, computed in Python from what decode_time returned: would the loop with the shift indented into it
    (seeded change d; Model/C18_Loop.v decode_time_loop_bad) have placed the notes at other distances on this case?"""
    import numpy as np
    rows, params = obs.get("rows"), obs.get("params")
    if rows is None or not len(rows):
        return False
    so = np.array(case["so"])
    first = int(np.argmin(so))
    raw = rows[:, 0] + (-float(params["timing"][first]) - rows[first, 0])  # eq_onset of the first score onset is 0
    perf = np.zeros(len(so))
    for u in sorted(set(case["so"])):
        jj = np.where(so == u)[0]
        perf[jj] = raw[jj]
        perf -= perf.min()
    off = perf - rows[:, 0]
    return bool(off.max() - off.min() > 1e-6)


def loop_features(case):
    so, sd = case["so"], case["sd"]
    us = sorted(set(so))
    f = ["loop:kind:" + case["kind"], "loop:order:" + case["order"]]
    if len(us) == 1:
        f.append("loop:single_onset")
    if len(us) < len(so):
        f.append("loop:has_chord")
    if any(d == 0 for d in sd):
        f.append("loop:has_grace")
    if all(d == 0 for o, d in zip(so, sd) if o == us[-1]):
        f.append("loop:last_onset_only_grace")
    if case["order"] != "sorted" and so != sorted(so):
        f.append("loop:onsets_unsorted")
    if case["kind"] == "arbitrary":
        if any(t > 0 for t in case["timing"]):
            f.append("loop:positive_timing")
        if any(b <= 0 for b in case["bp"]):
            f.append("loop:non_positive_beat_period")
    else:
        f.append("loop:method:" + case["method"])
        f.append("loop:flavour:" + case["flavour"])
    f.append("loop:notes:%s" % ("1" if len(so) == 1 else "2-5" if len(so) <= 5 else "6-12" if len(so) <= 12 else "13+"))
    return f


def run_case(case):
    """(obs, failures) of one case under the CPU budget."""
    def go():
        if case.get("loop"):
            return run_loop_case(case)
        if "stages" in case:
            return run_history(case)
        obs = run_impl(case)
        return obs, oracle(case, obs)
    budget = CPU_BUDGET_S if not TIMEOUTS else 3.0  # once a case has run away the others get 300 x the normal time
    try:
        return with_cpu_budget(go, budget)
    except CpuBudgetExceeded:
        TIMEOUTS.append(budget)
        return None, [("no_termination", "the functions under test did not finish within %g s of CPU time on this case "
                       "(the unchanged code needs about 0.01 s)" % budget)]


TIMEOUTS = []


def fail_codes(case):
    try:
        return [c for c, _ in run_case(case)[1]]
    except Exception as e:
        return ["harness:" + type(e).__name__]


def shrink(case, code):
    if "stages" in case:  # first the edits (an empty stage stays: it is one more round of calls), then the notes
        flat = [(i, j) for i, ops in enumerate(case["stages"]) for j in range(len(ops))]

        def with_ops(keep):
            keep = set(keep)
            c = dict(case)
            c["stages"] = [[op for j, op in enumerate(ops) if (i, j) in keep] for i, ops in enumerate(case["stages"])]
            return c
        case = with_ops(core.ddmin(flat, lambda sub: code in fail_codes(with_ops(sub))))
    ids = [n["id"] for n in case["notes"]]
    if len(ids) > 120:
        return case
    kept = core.ddmin(ids, lambda sub: code in fail_codes(sub_case(case, sub)))
    return sub_case(case, kept)


def classify(code):
    c = code.replace("dec_all", "dec")
    return c


def run(ctx):
    ctx.rule = ("Generated single-part scores (1-12 score onsets, 4% of the oracle-only cases 30, + optional tail; single notes, chords of 2-4, "
                "2-3 voices, unisons = same onset and pitch in two voices, grace notes 20% per onset, pickup 35%, a measure of rest first 20%, "
                "trailing grace note 12% (60% of them after a note of triplet length), 6 time signatures, 9 division values incl. 480 with onsets "
                "1/480 beat apart), one performed note per score note, 10% of them with another pitch than written (flavours: musical tempo walk "
                "with chord spread 46%, unrelated random positive IOIs 20%, deadpan dyadic 10%, wild = arbitrary times incl. decreasing 12% "
                "(outside the quantifier's positive IOIs; kept because the algebra and monotonize_times must cope), single onset 7%, lonely = "
                "all but one onset deleted 5%), shuffled alignments with deletions 8% per note, 10% leaving score notes unmentioned, onsets at "
                "which only grace notes stay matched (30% of grace onsets), 0-2 insertions/ornaments, matches whose score/performance id does "
                "not exist 12% each (unrelated, or a real id with a suffix added / cut off at the hyphen); note ids in 7 score / 6 performance "
                "styles (plain n3, unfolded n3-1 / n3-2, mixed n3 + n3-2 + n3-3 = prefixes of each other, P01_n3, note-0003, m1.n3, note_3, "
                "performed id = matched score id); one of 5 normalisations x 2 tempo methods per case, every encoding decoded with its own "
                "normalisation (40% with return_alignment / part_id / part_name), with beat_period alone and (all notes matched) without "
                "snote_ids; 30% second generation (the decoded PerformedPart + returned alignment encoded and decoded again); 12% "
                "to_matched_score also with include_score_markings; 25% encode_performance also without return_u_onset_idx; time maps queried "
                "with scalars, arrays and lists; inputs as Part/PerformedPart 50%, single-part Score/Performance 15%, [part] 10%, PartGroup 10%, "
                "note arrays 15%; 50% arguments equal to the live signature default omitted; 50% ONE alignment object through all calls, 60% "
                "matched score / encoding computed BEFORE the matched-note table and the time maps (expectations from the pristine alignment); "
                "quick: 120 cases with Coq correspondence + 1200 direct-oracle-only, thorough: 4000 + 80 x all 10 configurations + 20000.  "
                "HISTORIES (quick 320, thorough 2500; 100 / 500 of them also through the state machine of Model/C18_Hist.v): a case "
                "of 2-6 onsets as Part 34% / Score+Performance 30% / PartGroup 13% / [part] 13% / note arrays of the live objects 10%, ONE "
                "alignment list 60%; 1-3 further rounds of all calls on the SAME objects after 1-3 edits each (15% of the rounds none): note "
                "duration / start (remove + add), note added (85% matched) / removed / respelled / renamed, TimeSignature or quarter duration "
                "replaced, part or performed part replaced in its container, performed velocity / times / notes, alignment relabelled / "
                "rematched / reversed, other options than the round before 50%; judged against the CURRENT state only (JSON state + note arrays "
                "of a freshly built copy); 50% the caller overwrites everything returned before the next round, else the earlier results are "
                "judged and decoded again after the later round; 50% the same (parameters, snote_ids) objects decoded repeatedly; 40% fresh "
                "objects with the same ids run in between; time maps also queried with numpy / Python scalars, 0-d, one-element, empty arrays.  "
                "DECODE_TIME CALLS (round j; quick 800, thorough 12000; 160 / 3000 of them also through Model/C18_Loop.v's decode_time_loop): "
                "score onset / duration ARRAYS of 1-9 distinct onsets on 7 grids (1 .. 1/480 beat, also negative), 1-4 notes per onset, grace "
                "notes 15% + a last onset of grace notes only 20%, rows sorted 50% / shuffled 40% / reversed 10%, with a parameter array that is "
                "arbitrary 55% (float32-exact beat period per onset, 15% of them of any sign, timing in [-2, 2] or 0, articulation in "
                "{-1, -1/2, 0, 1/2, 1, 2}) or what /repo's encode_tempo makes of a random performance of these rows 45% (average / derivative; "
                "increasing chord times 75%, arbitrary 25%); a disagreement with the model on sorted arrays is a violation, on unsorted ones "
                "(never produced by the library) model drift.  "
                "Distinct non-trivial = distinct cases with >= 2 score onsets of which at least one carries >= 2 matched notes.")
    ctx.trusted = ["Coq 8.16.1 kernel incl. vm_compute", "harness/props/c18.py: generator, partitura object builder, printers of note arrays "
                   "and implementation outputs as exact rationals, Python-side 2** applied to logarithmic columns before comparison, "
                   "tolerances handed to the Coq checkers, reflection of TEMPO_NORMALIZATION into Gen/C18_norm.v, CPU-time budget per case "
                   "(signal.ITIMER_VIRTUAL, 30 s)",
                   "numpy/scipy float arithmetic (modelled by exact rationals within the declared tolerances)",
                   "Part.note_array / PerformedPart.note_array (the codec's inputs are taken from them; their content is property C05/C14's concern)"]
    ctx.assumptions = ["'within single-precision rounding' = error propagated from the float32 storage of the parameters: decoded onsets (and the "
                       "timing relation) are compared up to 2e-6 (~16 ulp) x the largest magnitude involved (1, performance span, |timing|, "
                       "|timing + performed onset| = equivalent onsets; beat periods of ~1e3 s/beat over 1/480-beat score intervals give "
                       "equivalent onsets of ~1e3 s, hence ~1e-4 s), plus for beat_period_standardized 8 ulp x (|mean| + max|bp - mean|) x "
                       "score span; decoded durations relative 1e-5 + 1e-6 absolute",
                       "float32 fields compared with relative 5e-7 (4 ulp) + 1e-7 absolute in the model-tie comparisons; fields that pass through "
                       "log2/2** with relative 1e-5",
                       "exp2/log2 and sqrt are not modelled in Q: logarithmic columns are exponentiated in Python (so a chord's mean of "
                       "logarithms is compared as an arithmetic mean of equal values), the standard deviation is compared through its "
                       "square; their inverse laws are proved over R (Proofs/C18_real.v)",
                       "generated distinct score onsets differ by >= 1/480 beat, so float and exact grouping agree (sep_b, the hypothesis of "
                       "onset_groupings_agree, is evaluated on every case: tie bit 8)",
                       "note ids are opaque strings: a match refers to exactly the note carrying exactly that id (the model sees ids as codes)",
                       "an argument equal to the live signature default may be left out: a changed default is a failed model-tie obligation, not a violation",
                       "a failure of the 'model tie' obligation (outputs no longer computed by the formulas written in Model/C18.v although every "
                       "property-level comparison holds) is reported as a failed obligation, not as a violation: the property prescribes no "
                       "tempo formula, timing origin, normalisation constant, tie-break among equal (onset, pitch), table order or extrapolation"]
    ctx.matchers["C18-K1"] = lambda r: isinstance(r, dict) and str(r.get("code", "")).endswith("_dur_grace")
    ctx.matchers["C18-K2"] = lambda r: isinstance(r, dict) and str(r.get("code", "")).endswith("_dur_floor")
    gen()
    ok, why = ctx.coq_props(expect_min=36)
    ctx.log("theorems checked:", "ok" if ok else why[:200])
    # cases that also go through the Coq correspondence (about 0.25 s of coqc each) ...
    n_cases = 120 if ctx.tier == "quick" else 4000
    n_full = 0 if ctx.tier == "quick" else 80
    # ... and cases for the direct oracle alone (about 0.012 s each): the same generator, ten times the inputs
    n_oracle_only = 1200 if ctx.tier == "quick" else 20000
    rng = ctx.rng
    cases = []
    for k in range(n_cases):
        cases.append(gen_case(rng, rng.choice([3, 5, 8, 12])))
    for k in range(n_full):
        base = gen_case(rng, rng.choice([3, 6]))
        for nm in NORMS:
            for me in METHODS:
                c = dict(base)
                c.update(norm=nm, method=me)
                cases.append(c)
    n_corr = len(cases)
    for k in range(n_oracle_only):
        cases.append(gen_case(rng, rng.choice([3, 5, 8, 12] * 6 + [30])))  # 4%: 30 onsets (up to ~100 notes)
    # ... and histories: the same objects called, edited, called again (direct oracle against the current state)
    n_hist = 320 if ctx.tier == "quick" else 2500
    for k in range(n_hist):
        cases.append(gen_history_case(rng))
    # ... and decode_time called directly on arrays (round j: Model/C18_Loop.v), all of them through Coq as well
    n_loop = 800 if ctx.tier == "quick" else 12000
    n_loop_corr = 160 if ctx.tier == "quick" else 3000   # parsing the exact float literals dominates: ~0.05 s of coqc each
    loop_cases = [gen_loop_case(rng) for k in range(n_loop)]
    terms, kept = [], []
    hterms, hkept = [], []
    n_hist_corr = 100 if ctx.tier == "quick" else 500
    reported = set()
    n_viol = 0
    for case_no, case in enumerate(cases):
        if len(TIMEOUTS) >= 4:
            ctx.log("stopped after %d cases: %d of them exceeded the CPU budget (reported)" % (case_no, len(TIMEOUTS)))
            break
        try:
            obs, bad = run_case(case)
        except Exception as e:  # a crash outside the functions under test (building the part, note arrays)
            import traceback
            bad = [("harness", traceback.format_exc()[-600:])]
            obs = None
        ctx.evaluations += 1
        ctx.count("flavour:" + case["flavour"])
        ctx.count("norm:" + case["norm"])
        ctx.count("method:" + case["method"])
        if any(n["grace"] for n in case["notes"]):
            ctx.count("has_grace")
        if case["pickup"]:
            ctx.count("has_pickup")
        ctx.count("inputs_as:" + case.get("wrap", "objects"))
        for k, v in sorted(case.get("opts", {}).items()):
            if v:
                ctx.count("option:" + k)
        if obs is not None and obs.get("dec2") is not None:
            ctx.count("second_generation_decoded")
        for k in case_features(case):
            ctx.count(k)
        if "stages" in case:
            ctx.count("history_case")
            for _, ops in history_states(case)[1:]:
                ctx.count("history_round")
                for op in ops:
                    ctx.count("history_op:" + op["op"])
        if any(a["label"] not in ("match",) for a in case["align"]):
            ctx.count("has_insertion_deletion_or_ornament")
        if obs is not None and obs.get("enc") is not None:
            uidx = obs["enc"][2]
            if len(uidx) >= 2 and any(len(u) >= 2 for u in uidx):
                ctx.nontrivial(json.dumps(case, sort_keys=True))
        seen_here = set()
        for code, msg in bad:
            cl = classify(code)
            if cl in seen_here:
                continue
            seen_here.add(cl)
            known = cl.endswith("_dur_grace") or cl.endswith("_dur_floor")
            if known:
                ctx.violation(msg, {"code": cl, "case": case})
                continue
            if len(reported) >= 6 or cl in reported:  # at most six distinct kinds of failure are shrunk and written out
                n_viol += 1
                continue
            reported.add(cl)
            n_viol += 1
            small = shrink(case, code) if code not in ("harness", "no_termination") else case
            if small is not case:  # the message of the shrunk case (the one the replay shows)
                try:
                    msg = next((m for c, m in run_case(small)[1] if c == code), msg)
                except Exception:
                    pass
            ctx.violation("C18 fails on the implementation [%s]: %s" % (code, msg), {"code": cl, "case": small, "message": msg})
        if "stages" in case and len(hterms) < n_hist_corr and obs is not None and \
                not any(not (c.endswith("_dur_grace") or c.endswith("_dur_floor")) for c, _ in bad):
            t = hist_term(case, obs)
            if t is None:
                ctx.count("history_correspondence_skipped")
            else:
                hterms.append(t)
                hkept.append(case)
        if case_no < n_corr and obs is not None and not any(not (c.endswith("_dur_grace") or c.endswith("_dur_floor")) for c, _ in bad):
            t = case_term(case, obs)
            if t is None:
                ctx.count("correspondence_skipped")
            else:
                terms.append(t)
                kept.append(case)
    for c in cases[:3]:
        ctx.sample({"features": case_features(c), "config": {k: c[k] for k in ("qd", "ts", "pickup", "flavour", "norm", "method",
                                                                                 "remove_ornaments", "wrap")},
                    "score_notes(id,pitch,start,end,voice,grace)": [[n["id"], n["pitch"], n["start"], n["end"], n["voice"], n["grace"]] for n in c["notes"]],
                    "performed_notes(id,pitch,on,off,vel)": [[p["id"], p["pitch"], round(p["on"], 4), round(p["off"], 4), p["vel"]] for p in c["perf"]],
                    "alignment": c["align"]})
    ctx.log("implementation run and direct oracle evaluated on %d cases, %d go to the correspondence" % (len(cases), len(terms)))
    ctx.obligation("direct oracle: decode(encode) / matched notes / time maps on %d generated cases" % ctx.evaluations, n_viol == 0,
                   "%d failing observations" % n_viol)
    # ---- round j: decode_time as written (loop stream) ----
    lterms, lkept = [], []
    n_lviol, lreported, n_ldiff = 0, set(), 0
    for case in loop_cases:
        if len(TIMEOUTS) >= 4:
            break
        try:
            obs, bad = run_case(case)
        except Exception as e:
            import traceback
            obs, bad = None, [("harness", traceback.format_exc()[-600:])]
        ctx.evaluations += 1
        ctx.count("loop_case")
        for k in loop_features(case):
            ctx.count(k)
        if len(set(case["so"])) >= 2 and len(set(case["so"])) < len(case["so"]):
            ctx.nontrivial(json.dumps(case, sort_keys=True))
        for code, msg in bad[:1]:
            n_lviol += 1
            if code in lreported or len(lreported) >= 3:
                continue
            lreported.add(code)
            small = case
            if code not in ("harness", "no_termination"):
                keep = core.ddmin(list(range(len(case["so"]))), lambda sub: bool(sub) and code in fail_codes(sub_loop_case(case, sub)))
                small = sub_loop_case(case, keep)
                try:
                    msg = next((m for c, m in run_case(small)[1] if c == code), msg)
                except Exception:
                    pass
            ctx.violation("C18 fails on the implementation [%s]: %s" % (code, msg), {"code": code, "case": small, "message": msg})
        if obs is not None and not bad:
            if loop_shift_inside_differs(case, obs):
                n_ldiff += 1
                ctx.count("loop:shift_inside_loop_would_differ")
            t = loop_term(case, obs) if len(lterms) < n_loop_corr else None
            if t is not None:
                lterms.append(t)
                lkept.append(case)
    ctx.obligation("direct oracle (decode_time called on arrays): decoded onsets up to one shift and durations on %d generated "
                   "(score arrays, parameter array) pairs" % len(loop_cases), n_lviol == 0, "%d failing" % n_lviol)
    try:
        lrest = ctx.coq_failing("loop", LOOP_IMPORTS, "", lterms, "(fun c => loop_check c && loop_origin c)",
                                shard=40 if ctx.tier == "quick" else 100, timeout=1500, ty="loop_case")
        lsub = ctx.coq_failing("loopc", LOOP_IMPORTS, "", [lterms[i] for i in lrest], "loop_check", shard=40, timeout=1500,
                               ty="loop_case") if lrest else []
        lfail = [lrest[k] for k in lsub]
        lorigin = [i for i in lrest if i not in set(lfail)]
        lerr = None
    except RuntimeError as e:
        lrest, lfail, lorigin, lerr = [], [], [], str(e)
    # sorted score arrays are what decode_performance hands to decode_time: a disagreement there is a violation; on arrays
    # in another order (legal for get_unique_onset_idxs, never produced by the library itself) it is model drift
    lfail_prop = [i for i in lfail if lkept[i]["order"] == "sorted"]
    lfail_tie = [i for i in lfail if lkept[i]["order"] != "sorted"]
    ctx.obligation("correspondence (decode_time as written): on %d generated calls the rows decode_time returns are those of "
                   "Model/C18_Loop.v's decode_time_loop (np.cumsum, zero array, scatter loop over the groups, one shift after the "
                   "loop) on the same arrays -- onsets up to one shift, durations cell by cell" % len(lterms),
                   lerr is None and not lfail_prop, lerr or lfail_prop[:5])
    if lerr is not None:
        ctx.violation("the loop model could not be evaluated: " + lerr[-800:], {"coq_error": lerr[-2000:]}, no_input=True)
    for i in lfail_prop[:2]:
        ctx.violation("decode_time does not return what Model/C18_Loop.v's decode_time_loop returns on the same arrays (loop_check fails)",
                      {"code": "loop_correspondence", "case": lkept[i]})
    ctx.obligation("model tie (informative): decode_time on score arrays that are not sorted = decode_time_loop; decoded onsets start "
                   "at 0 (shift_min)", lerr is None and not lfail_tie and not lorigin,
                   "%d unsorted cases differ, %d cases with another origin" % (len(lfail_tie), len(lorigin)))
    n_lok = len(loop_cases) - n_lviol
    ctx.obligation("generator power (informative): at least a fifth of the decode_time calls tell the loop with the shift inside "
                   "(Model/C18_Loop.v decode_time_loop_bad, seeded change d) from the loop as written", not n_lok or 5 * n_ldiff >= n_lok,
                   "%d of %d" % (n_ldiff, n_lok))
    ctx.extra["loop_cases_in_correspondence"] = len(lterms)
    ctx.extra["loop_cases_distinguishing_shift_inside_loop"] = n_ldiff
    ctx.log("loop correspondence evaluated on %d decode_time calls" % len(lterms))
    if not ok and n_viol == 0 and n_lviol == 0:
        ctx.violation("proof obligations of Props/C18.v no longer check: " + why, {"theorem_or_build": why}, no_input=True)
    shard = 40 if ctx.tier == "quick" else 100
    try:
        failing_any = ctx.coq_failing("codec", IMPORTS, "", terms, "c18_all", shard=shard, timeout=1500)
        failing = []
        if failing_any:  # which of them fail a PROPERTY comparison (the others only drift from the modelled formulas)
            sub = ctx.coq_failing("codecp", IMPORTS, "", [terms[i] for i in failing_any], "c18_check", shard=shard, timeout=1500)
            failing = [failing_any[k] for k in sub]
        err = None
    except RuntimeError as e:
        failing_any, failing, err = [], [], str(e)
    drift = [i for i in failing_any if i not in set(failing)]
    ctx.obligation("correspondence: the implementation's outputs satisfy the model's specifications (matched table, snote_ids, parameter "
                   "array consistent with the performance as Model/C18.v's decoder reads it, decoded notes = model decoder on the same "
                   "parameters for every normalisation used, time maps through the knots) on %d cases" % len(terms),
                   err is None and not failing, err or failing[:5])
    if err is not None:
        ctx.violation("the model could not be evaluated: " + err[-800:], {"coq_error": err[-2000:]}, no_input=True)
    for i in failing[:3]:
        bits = ctx.coq_eval(IMPORTS, "c18_prop_bits %s" % terms[i])
        flags = re_bools(bits)
        what = [PROP_BITS[k] for k, b in enumerate(flags) if not b]
        ctx.violation("model and implementation disagree on: %s" % (", ".join(what) or bits[-300:]),
                      {"code": "correspondence", "disagree": what, "case": kept[i]})
    # model drift: the property-level comparisons hold, but an output is no longer computed by the formula written in
    # Model/C18.v (another tempo curve, timing origin, normalisation constant, tie-break, ...).  Not a violation of C18.
    dwhat = []
    for i in drift[:2]:
        flags = re_bools(ctx.coq_eval(IMPORTS, "c18_tie_bits %s" % terms[i]))
        dwhat.append([TIE_BITS[k] for k, b in enumerate(flags) if not b])
    ctx.obligation("model tie (informative, not a property clause): outputs computed by the formulas of Model/C18.v (alignment order, "
                   "tie-break, grouping, tempo_by_average / tempo_by_derivative, timing origin, v/127, normalisation constants, decoded "
                   "onsets from 0, linear time maps) on %d cases" % len(terms), err is None and not drift,
                   "%d cases drift, e.g. %r" % (len(drift), dwhat))
    # histories through the state machine of Model/C18_Hist.v: the model carries out the edits on its own tables; every
    # round of calls of the implementation (on the SAME, edited objects) must show what the model's current state gives
    ctx.log("codec correspondence evaluated")
    try:
        # one pass: histories that check AND on which the memoising machine differs; the rest is looked at again
        rest = ctx.coq_failing("hist", HIST_IMPORTS, "", hterms, "(fun c => hist_check c && hist_memo_differs c)", shard=25,
                               timeout=1500, ty="hist_case")
        sub = ctx.coq_failing("histc", HIST_IMPORTS, "", [hterms[i] for i in rest], "hist_check", shard=25, timeout=1500,
                              ty="hist_case") if rest else []
        hfail = [rest[k] for k in sub]
        same = [i for i in rest if i not in set(hfail)]
        herr = None
    except RuntimeError as e:
        hfail, same, herr = [], [], str(e)
    ctx.obligation("correspondence (histories): on %d generated histories (the same objects called, edited in place / replaced, called "
                   "again) every round's snote_ids and matched-note table are those of the CURRENT state of Model/C18_Hist.v's "
                   "machine (hist_check)" % len(hterms), herr is None and not hfail, herr or hfail[:5])
    if herr is not None:
        ctx.violation("the history model could not be evaluated: " + herr[-800:], {"coq_error": herr[-2000:]}, no_input=True)
    for i in hfail[:2]:
        ctx.violation("a round of calls on edited objects does not show the current state (Model/C18_Hist.v hist_check fails)",
                      {"code": "history_correspondence", "case": hkept[i]})
    n_diff = len(hterms) - len(same)
    ctx.log("history correspondence evaluated on %d histories" % len(hterms))
    ctx.obligation("generator power (informative): at least a fifth of the histories in the correspondence tell the machine that keeps "
                   "the score-side note table per score object (hrun_memo) from the real one", herr is not None or not hterms or 5 * n_diff >= len(hterms),
                   "%d of %d" % (n_diff, len(hterms)))
    ctx.extra["histories_in_correspondence"] = len(hterms)
    ctx.extra["histories_distinguishing_memo_machine"] = n_diff
    d = live_defaults()
    ctx.obligation("model tie (informative): signature defaults beat_normalization='beat_period' (encode, decode), tempo_smooth='average', "
                   "remove_ornaments=True, get_unique_onset_idxs eps=1e-6 (Model/C18.v onset_eps)",
                   d[:4] == ("beat_period", "beat_period", "average", True) and abs(float(d[4]) - 1e-6) < 1e-18, repr(d))
    ctx.extra["model_drift_cases"] = len(drift)
    ctx.extra["exhaustive"] = False
    ctx.extra["cases_in_correspondence"] = len(terms)


def re_bools(text):
    import re
    m = re.search(r"=\s*\[(.*?)\]\s*:\s*list bool", text, flags=re.S)
    if not m:
        return []
    return [t.strip() == "true" for t in m.group(1).split(";")]


def replay(obj):
    core.setup_import_path()
    r = obj.get("replay", obj)
    case = r.get("case")
    print(json.dumps({k: v for k, v in obj.items() if k != "replay"}, indent=1, default=str))
    if not case:
        print(json.dumps(r, indent=1, default=str))
        return 0
    obs, failures = run_case(case)
    if obs is None:
        for c, m in failures:
            print("  [%s] %s" % (c, m))
        return 0
    if case.get("loop"):
        print("decode_time(score_onsets, score_durations, parameters, normalization='beat_period') called directly (%s parameters, %s arrays)"
              % (case["kind"], case["order"]))
        print("score onsets:", case["so"])
        print("score durations:", case["sd"])
        if case["kind"] == "encoded":
            print("performed onsets:", case["po"], "performed durations:", case["pd"], "tempo method:", case["method"])
        print("parameters (beat_period, timing, articulation_log):",
              None if obs.get("params") is None else obs["params"][["beat_period", "timing", "articulation_log"]].tolist())
        print("decode_time returned:", None if obs.get("rows") is None else obs["rows"].tolist())
        print("property failures on the implementation:")
        for c, m in failures:
            print("  [%s] %s" % (c, m))
        return 0
    if "stages" in case:
        print("history: the same objects (inputs as %r) go through the functions, are edited, and go through them again" % case.get("wrap"))
        for k, (st, ops) in enumerate(history_states(case)):
            print("  round %d after: %s" % (k, describe_ops(ops) if k else "building the objects"))
            print("     score notes (id, pitch, start, end, grace):", [(n["id"], n["pitch"], n["start"], n["end"], n["grace"]) for n in st["notes"]],
                  "qd", st["qd"], "ts", st["ts"])
            print("     performed notes (id, on, off, vel):", [(q["id"], round(q["on"], 4), round(q["off"], 4), q["vel"]) for q in st["perf"]])
            print("     alignment:", st["align"])
        print("  observations below are those of the LAST round; sna / pna = note arrays of a freshly built copy of the last state")
        case = history_states(case)[-1][0]
    print("score note array:", obs["sna"][["onset_beat", "duration_beat", "onset_div", "pitch", "id"]])
    print("performance note array:", obs["pna"][["onset_sec", "duration_sec", "velocity", "id"]])
    print("alignment:", case["align"])
    print("normalisation:", case["norm"], "method:", case["method"], "remove_ornaments:", case["remove_ornaments"])
    for k in ("matched_idx", "mscore", "enc"):
        print(k, "=", obs.get(k), obs.get(k + "_exc", ""))
    if obs.get("dec") is not None:
        print("decoded:", [(str(n["id"]), float(n["note_on"]), float(n["note_off"]) - float(n["note_on"]), int(n["velocity"])) for n in obs["dec"].notes])
    else:
        print("decode:", obs.get("dec_exc"))
    print("property failures on the implementation:")
    for c, m in failures:
        print("  [%s] %s" % (c, m))
    return 0
