"""C18 -- decoding an encoded performance reproduces the performance.

Implementation under test: partitura/musicanalysis/performance_codec.py
(encode_performance, decode_performance, to_matched_score, get_matched_notes,
get_time_maps_from_alignment and the helpers they call).

Per generated case (a single-part score with chords / voices / grace notes / pickup, a
performance aligned note for note, an alignment with matches, insertions, deletions,
ornaments and dangling ids, one of 5 normalisations x 2 tempo-curve methods):

 (a) direct oracle, in Python, independent of the Coq model:
     decode(encode(perf)) gives every matched note its performed onset up to ONE common
     shift, its performed duration and its velocity (single precision); the matched-note
     table / matched score contain exactly the matches with both ids present, ordered by
     score onset then pitch; the time maps pass through the matched onsets (chord means);
 (b) correspondence: the Gallina model (coq/Model/C18.v), evaluated inside Coq on the same
     note arrays and alignment, agrees with the implementation's snote_ids, encoded
     parameter array, decoded array, matched index table and time-map values.
"""
import json
import math
from fractions import Fraction

import core
from core import cz, cq, clist, ctuple

NORMS = ["beat_period", "beat_period_log", "beat_period_ratio", "beat_period_ratio_log", "beat_period_standardized"]
METHODS = ["average", "derivative"]
STEPS = ["C", "D", "E", "F", "G", "A", "B"]
MIN_PDUR = 60 / 200 * 0.25  # to_matched_score's floor on performed durations
F32 = 2.0 ** -23


# ----------------------------------------------------------------------------
# case generation


def gen_case(rng, size, flavour=None):
    """A self-contained JSON-able case."""
    qd = rng.choice([1, 2, 4, 4, 6, 8, 12, 24, 480])
    ts = rng.choice([(4, 4), (3, 4), (6, 8), (2, 2), (2, 4), (5, 8)])
    div_per_beat = Fraction(qd * 4, ts[1])
    measure_len = int(div_per_beat * ts[0]) if (div_per_beat * ts[0]).denominator == 1 else None
    if measure_len is None:
        qd *= 2
        div_per_beat = Fraction(qd * 4, ts[1])
        measure_len = int(div_per_beat * ts[0])
    units = sorted({max(1, qd // k) for k in (1, 2, 3, 4)} | {qd, 2 * qd})
    pickup = 0
    if rng.random() < 0.35 and measure_len > 1:
        pickup = rng.choice([u for u in units if u < measure_len] or [0])
    flavour = flavour or rng.choices(
        ["musical", "random", "deadpan", "wild", "single"], weights=[50, 20, 10, 12, 8])[0]
    n_onsets = 1 if flavour == "single" else rng.randint(2, max(2, size))
    notes = []
    t = 0
    nid = 0
    for k in range(n_onsets):
        # what sounds at this onset
        kind = rng.choices(["single", "chord", "voices", "unison"], weights=[45, 30, 20, 5])[0]
        dur = rng.choice(units)
        here = []
        base = rng.randint(40, 80)
        if kind == "single":
            here.append((base, dur, 1))
        elif kind == "chord":
            for j in range(rng.randint(2, 4)):
                here.append((base + 3 * j + rng.randint(0, 2), dur, 1))
        elif kind == "voices":
            for v in range(1, rng.randint(2, 3) + 1):
                here.append((base - 12 * (v - 1) + rng.randint(0, 5), rng.choice(units), v))
        else:  # the same pitch in two voices, different lengths
            here.append((base, dur, 1))
            here.append((base, dur * 2 if rng.random() < 0.7 else dur, 2))
        if rng.random() < 0.2:  # grace note(s) before the main note, same score onset
            for g in range(rng.randint(1, 2)):
                notes.append({"id": "n%d" % nid, "pitch": base + 1 + g, "start": t, "end": t, "voice": 1, "grace": True})
                nid += 1
        for p, d, v in here:
            notes.append({"id": "n%d" % nid, "pitch": p, "start": t, "end": t + d, "voice": v, "grace": False})
            nid += 1
        t += rng.choice(units) if k > 0 or not pickup else pickup
    if rng.random() < 0.08:  # a trailing grace note after everything else has ended
        tend = max(n["end"] for n in notes)
        notes.append({"id": "n%d" % nid, "pitch": 70, "start": tend, "end": tend, "voice": 1, "grace": True})
        nid += 1
    rng.shuffle(notes)  # insertion order into the part must not matter

    # performance: one performed note per score note, in (onset, pitch) order
    order = sorted(range(len(notes)), key=lambda i: (notes[i]["start"], notes[i]["pitch"], i))
    perf = [None] * len(notes)
    bp = rng.choice([0.25, 0.5, 0.75, 1.0]) if flavour == "deadpan" else rng.uniform(0.2, 1.5)
    start = rng.choice([0.0, 0.5, 1.0, 3.25]) if flavour == "deadpan" else rng.uniform(0.0, 5.0)
    tcur = start
    prev_on = None
    tlast = start
    for i in order:
        n = notes[i]
        beats = Fraction(n["start"], 1) / div_per_beat
        if flavour == "deadpan":
            on = start + float(beats) * bp
            d = max(float(Fraction(n["end"] - n["start"]) / div_per_beat) * bp, 0.125)
        elif flavour in ("musical", "single"):
            if prev_on is None or n["start"] != prev_on[0]:
                if prev_on is not None:
                    bp = min(3.0, max(0.1, bp * math.exp(rng.gauss(0, 0.15))))
                    tcur = tcur + float(Fraction(n["start"] - prev_on[0]) / div_per_beat) * bp
                prev_on = (n["start"],)
            on = max(0.0, tcur + rng.uniform(-0.03, 0.03))
            d = rng.choice([rng.uniform(0.08, 1.5), rng.uniform(0.08, 0.3), rng.uniform(0.01, 0.07)]) \
                if rng.random() < 0.15 else rng.uniform(0.08, 1.5)
        elif flavour == "random":
            tlast = tlast + rng.choice([rng.uniform(0.001, 0.05), rng.uniform(0.05, 1.5)])
            on = tlast
            d = rng.uniform(0.02, 2.0)
        else:  # wild: any positive times at all
            on = rng.uniform(0.0, 10.0)
            d = rng.uniform(0.02, 2.0)
        vel = rng.choice([1, 127, rng.randint(1, 127), rng.randint(1, 127)])
        perf[i] = {"id": "p%d" % i, "pitch": n["pitch"], "on": on, "off": on + d, "vel": vel}
    # alignment
    align = []
    extra_perf = []
    deleted = set()
    for i, n in enumerate(notes):
        r = rng.random()
        if r < 0.08 and len(notes) - len(deleted) > 1:
            align.append({"label": "deletion", "score_id": n["id"]})
            deleted.add(i)
        else:
            align.append({"label": "match", "score_id": n["id"], "performance_id": perf[i]["id"]})
    perf_out = [p for i, p in enumerate(perf) if i not in deleted]
    n_extra = rng.choice([0, 0, 1, 2])
    for k in range(n_extra):
        on = rng.uniform(0.0, 6.0)
        pid = "x%d" % k
        extra_perf.append({"id": pid, "pitch": rng.randint(30, 90), "on": on, "off": on + rng.uniform(0.05, 0.5),
                           "vel": rng.randint(1, 127)})
        if rng.random() < 0.5:
            align.append({"label": "insertion", "performance_id": pid})
        else:
            align.append({"label": "ornament", "score_id": rng.choice(notes)["id"], "performance_id": pid})
    if rng.random() < 0.12:  # a match whose score note is not in the score
        on = rng.uniform(0.0, 6.0)
        extra_perf.append({"id": "y0", "pitch": 60, "on": on, "off": on + 0.3, "vel": 64})
        align.append({"label": "match", "score_id": "ghost-s", "performance_id": "y0"})
    if rng.random() < 0.12:  # a match whose performed note is not in the performance
        cand = [i for i in deleted]
        if cand:
            i = cand[0]
            align = [a for a in align if not (a["label"] == "deletion" and a["score_id"] == notes[i]["id"])]
            align.append({"label": "match", "score_id": notes[i]["id"], "performance_id": "ghost-p"})
    perf_out += extra_perf
    rng.shuffle(perf_out)
    if rng.random() < 0.7:
        rng.shuffle(align)
    return {"qd": qd, "ts": list(ts), "pickup": pickup, "measure_len": measure_len, "notes": notes, "perf": perf_out,
            "align": align, "flavour": flavour,
            "norm": rng.choice(NORMS), "method": rng.choice(METHODS), "remove_ornaments": rng.random() < 0.6}


# ----------------------------------------------------------------------------
# building partitura objects


def build(case):
    import partitura.score as S
    from partitura.performance import PerformedPart
    from partitura.utils.music import midi_pitch_to_pitch_spelling

    part = S.Part("P0", quarter_duration=case["qd"])
    part.add(S.TimeSignature(case["ts"][0], case["ts"][1]), 0)
    end = max([n["end"] for n in case["notes"]] + [1])
    t, num = 0, 1
    if case["pickup"]:
        part.add(S.Measure(number=0), 0, case["pickup"])
        t = case["pickup"]
    while t < end or num == 1:
        part.add(S.Measure(number=num), t, t + case["measure_len"])
        t += case["measure_len"]
        num += 1
    for n in case["notes"]:
        step, alter, octave = midi_pitch_to_pitch_spelling(n["pitch"])
        if n["grace"]:
            part.add(S.GraceNote("acciaccatura", step, octave, alter, voice=n["voice"], id=n["id"]), n["start"], n["start"])
        else:
            part.add(S.Note(step, octave, alter, voice=n["voice"], id=n["id"]), n["start"], n["end"])
    pnotes = [dict(id=p["id"], midi_pitch=p["pitch"], note_on=p["on"], note_off=p["off"], velocity=p["vel"])
              for p in case["perf"]]
    ppart = PerformedPart(pnotes, id="PP0")
    return part, ppart


def fr(x):
    return Fraction(float(x))


def copy_al(al):
    return [dict(a) for a in al]


class ImplError(Exception):
    pass


def run_impl(case):
    """Run every function under test; returns a dict of observations (plain Python / numpy)."""
    import numpy as np
    from partitura.musicanalysis import performance_codec as PC

    part, ppart = build(case)
    sna = part.note_array()
    pna = ppart.note_array()
    obs = {"sna": sna, "pna": pna, "part": part, "ppart": ppart}
    al = case["align"]

    def attempt(name, f):
        try:
            obs[name] = f()
        except Exception as e:  # classified by the oracle
            obs[name] = None
            obs[name + "_exc"] = "%s: %s" % (type(e).__name__, str(e)[:200])

    attempt("matched_idx", lambda: PC.get_matched_notes(sna, pna, copy_al(al)))
    attempt("mscore", lambda: PC.to_matched_score(part, ppart, copy_al(al)))
    attempt("enc", lambda: PC.encode_performance(part, ppart, copy_al(al), return_u_onset_idx=True,
                                                 beat_normalization=case["norm"], tempo_smooth=case["method"]))
    if obs["enc"] is not None:
        params, sids, uidx = obs["enc"]
        attempt("dec", lambda: PC.decode_performance(part, params.copy(), snote_ids=list(sids),
                                                     beat_normalization=case["norm"]))
        if len(sids) == len(sna):
            attempt("dec_all", lambda: PC.decode_performance(part, params.copy(), beat_normalization=case["norm"]))
    attempt("tmaps", lambda: PC.get_time_maps_from_alignment(ppart, part, copy_al(al),
                                                             remove_ornaments=case["remove_ornaments"]))
    return obs


# ----------------------------------------------------------------------------
# direct oracle (property statement on the implementation's output)


def expected_matches(case, sna, pna):
    """Alignment matches whose ids exist on both sides, in alignment order: [(sidx, pidx)]."""
    sidx = {}
    for i, x in enumerate(sna["id"]):
        sidx.setdefault(str(x), i)
    pidx = {}
    for i, x in enumerate(pna["id"]):
        pidx.setdefault(str(x), i)
    out = []
    for a in case["align"]:
        if a["label"] == "match" and str(a["score_id"]) in sidx and str(a["performance_id"]) in pidx:
            out.append((sidx[str(a["score_id"])], pidx[str(a["performance_id"])]))
    return out


def oracle(case, obs):
    """Returns a list of (code, message) failures of the property statement."""
    import numpy as np

    bad = []
    sna, pna = obs["sna"], obs["pna"]
    exp = expected_matches(case, sna, pna)
    # --- O2: matched-note index table
    mi = obs["matched_idx"]
    if mi is None:
        bad.append(("matched_idx_exc", "get_matched_notes raised " + obs["matched_idx_exc"]))
    else:
        got = [tuple(int(v) for v in row) for row in np.asarray(mi).reshape(-1, 2)] if len(mi) else []
        if got != exp:
            bad.append(("matched_idx", "get_matched_notes = %r, expected the alignment's matches present on both sides %r" % (got, exp)))
    # --- O2: matched score
    ms = obs["mscore"]
    if ms is None:
        bad.append(("mscore_exc", "to_matched_score raised " + obs["mscore_exc"]))
    else:
        arr, sids = ms
        sids = [str(s) for s in sids]
        exp_ids = sorted(str(sna["id"][s]) for s, _ in exp)
        if sorted(sids) != exp_ids:
            bad.append(("mscore_ids", "to_matched_score ids %r, expected exactly %r" % (sorted(sids), exp_ids)))
        else:
            s_of = {str(sna["id"][s]): (s, p) for s, p in exp}
            keys = [(int(sna["onset_div"][s_of[i][0]]), int(sna["pitch"][s_of[i][0]])) for i in sids]
            if keys != sorted(keys):
                bad.append(("mscore_order", "to_matched_score rows not ordered by score onset then pitch: %r" % keys))
            for row, i in zip(arr, sids):
                s, p = s_of[i]
                want = (float(sna["onset_beat"][s]), float(sna["duration_beat"][s]), int(sna["pitch"][s]),
                        float(pna["onset_sec"][p]), max(float(pna["duration_sec"][p]), MIN_PDUR), int(pna["velocity"][p]))
                gotr = (float(row["onset"]), float(row["duration"]), int(row["pitch"]), float(row["p_onset"]),
                        float(row["p_duration"]), int(row["velocity"]))
                if any(abs(a - b) > 4 * F32 * max(1.0, abs(b)) for a, b in zip(gotr, want)):
                    bad.append(("mscore_row", "to_matched_score row for %s = %r, expected %r" % (i, gotr, want)))
                    break
    # --- O1: decode(encode)
    if obs["enc"] is None:
        if exp:
            bad.append(("enc_exc", "encode_performance raised " + obs["enc_exc"]))
    else:
        params, sids, uidx = obs["enc"]
        sids = [str(s) for s in sids]
        for key in ("dec", "dec_all"):
            if key not in obs:
                continue
            if obs[key] is None:
                bad.append((key + "_exc", "decode_performance raised " + obs[key + "_exc"]))
                continue
            bad += oracle_roundtrip(case, obs, exp, sids, obs[key], key)
    # --- O3: time maps
    bad += oracle_timemaps(case, obs, exp)
    return bad


def oracle_roundtrip(case, obs, exp, sids, dppart, key):
    import numpy as np

    bad = []
    sna, pna = obs["sna"], obs["pna"]
    dna = dppart.note_array()
    dec = {}
    for r in dna:
        dec.setdefault(str(r["id"]), []).append(r)
    pairs = {str(sna["id"][s]): (s, p) for s, p in exp}
    if sorted(dec) != sorted(pairs) or any(len(v) != 1 for v in dec.values()):
        return [(key + "_ids", "decoded performance has notes %r, expected one per matched score note %r" % (sorted(dec), sorted(pairs)))]
    span = max(float(pna["onset_sec"][p]) for _, p in exp) - min(float(pna["onset_sec"][p]) for _, p in exp)
    tol_on = 2e-6 * max(1.0, span)
    shifts = []
    for sid, (s, p) in sorted(pairs.items()):
        d = dec[sid][0]
        on, du, ve = float(d["onset_sec"]), float(d["duration_sec"]), int(d["velocity"])
        if not (math.isfinite(on) and math.isfinite(du)):
            bad.append((key + "_nan", "decoded note %s has onset %r duration %r (norm %s, method %s)" % (sid, on, du, case["norm"], case["method"])))
            return bad
        shifts.append((on - float(pna["onset_sec"][p]), sid))
        pd = float(pna["duration_sec"][p])
        sd = float(sna["duration_beat"][s])
        if abs(du - pd) > 1e-5 * pd + 1e-6:
            code = "_dur"
            if sd <= 0 and du == 0.0:
                code = "_dur_grace"
            elif pd < MIN_PDUR and abs(du - MIN_PDUR) <= 1e-5:
                code = "_dur_floor"
            bad.append((key + code, "note %s (score duration %g): performed duration %.7g, decoded %.7g" % (sid, sd, pd, du)))
        if ve != int(pna["velocity"][p]):
            bad.append((key + "_vel", "note %s: velocity %d decoded as %d" % (sid, int(pna["velocity"][p]), ve)))
    lo, hi = min(shifts), max(shifts)
    if hi[0] - lo[0] > 2 * tol_on:
        bad.append((key + "_onset", "decoded onsets are not the performed onsets up to one shift: shift %.7g for %s but %.7g for %s"
                    % (lo[0], lo[1], hi[0], hi[1])))
    return bad


def timemap_knots(case, obs, exp):
    """Expected knots [(score onset, mean performed onset)] as exact Fractions, sorted by score onset;
    None for an onset without (non-ornament) matched notes."""
    sna, pna = obs["sna"], obs["pna"]
    groups = {}
    for s, p in exp:
        u = fr(sna["onset_beat"][s])
        groups.setdefault(u, [])
        if not case["remove_ornaments"] or float(sna["duration_beat"][s]) > 0:
            groups[u].append(fr(pna["onset_sec"][p]))
    return [(u, (sum(v) / len(v)) if v else None) for u, v in sorted(groups.items())]


def oracle_timemaps(case, obs, exp):
    import numpy as np

    bad = []
    if not exp:
        return bad
    knots = timemap_knots(case, obs, exp)
    if obs["tmaps"] is None:
        return [("tmaps_exc", "get_time_maps_from_alignment raised " + obs["tmaps_exc"])]
    p2s, s2p = obs["tmaps"]
    if any(m is None for _, m in knots):
        # an onset carrying only matched grace notes with remove_ornaments=True
        vals = [float(np.asarray(s2p(float(u)))) for u, m in knots if m is not None]
        if not all(math.isfinite(v) for v in vals):
            bad.append(("tmaps_nan_knot", "time map is not finite at a matched onset because another onset has only ornaments"))
        return bad
    for u, m in knots:
        v = float(np.asarray(s2p(float(u))))
        if not abs(v - float(m)) <= 8 * F32 * max(1.0, abs(float(m))):
            bad.append(("tmaps_s2p", "stime_to_ptime(%g) = %.9g, expected the mean performed onset %.9g" % (float(u), v, float(m))))
            break
    ms = [m for _, m in knots]
    if all(b - a > Fraction(1, 10 ** 5) for a, b in zip(ms, ms[1:])):
        # the other direction, evaluated at the implementation's own (single precision) knot
        for u, m in knots:
            v = float(np.asarray(p2s(float(np.asarray(s2p(float(u)))))))
            if not abs(v - float(u)) <= 1e-6 * max(1.0, abs(float(u))):
                bad.append(("tmaps_p2s", "ptime_to_stime(stime_to_ptime(%g)) = %.9g, expected the score onset back" % (float(u), v)))
                break
    return bad
