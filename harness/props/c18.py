"""C18 -- decoding an encoded performance reproduces the performance.

Implementation under test: partitura/musicanalysis/performance_codec.py
(encode_performance, decode_performance, to_matched_score, get_matched_notes,
get_time_maps_from_alignment and the helpers they call).

Per generated case (a single-part score with chords / voices / unisons / grace notes / pickup, a
performance aligned note for note, an alignment with matches, insertions, deletions,
ornaments and dangling ids, one of 5 normalisations x 2 tempo-curve methods; inputs as
Part/PerformedPart, single-part Score/Performance or note arrays):

 (a) direct oracle, in Python, independent of the Coq model:
     decode(encode(perf)) -- with the encoding normalisation, with the beat_period column alone, with and
     without snote_ids -- gives every matched note its performed onset up to ONE common shift, its
     performed duration and its velocity (single precision, tolerance propagated from the magnitudes
     stored as float32); the matched-note table / matched score contain exactly the matches with both
     ids present (table: in any order; score: ordered by score onset then pitch); the time maps pass
     through the matched onsets (chord means) and stay between neighbouring knots;
 (b) correspondence, two levels, evaluated inside Coq (coq/Model/C18_Check.v):
     PROPERTY bits (c18_check; a failure is a violation): the implementation's outputs satisfy the model's
     SPECIFICATIONS -- table = matched_idx as a multiset, snote_ids = any sorted permutation (sids_ok),
     the parameter array is consistent with the performance as Model/C18.v's decoder reads it (cons_off
     constant, articulation, velocity, beat_period column = rescaled normalisation columns), every decoded
     performance = the model decoder on the same parameters, time maps at the knots;
     TIE bits (c18_tie; a failure is a failed 'model tie' obligation, not a violation): the outputs are
     still computed by the formulas of Model/C18.v (tempo curves, timing origin, v/127, constants, ...).
"""
import json
import math
from fractions import Fraction

import core
from core import cz, cq, clist, ctuple

NORMS = ["beat_period", "beat_period_log", "beat_period_ratio", "beat_period_ratio_log", "beat_period_standardized"]
METHODS = ["average", "derivative"]
STEPS = ["C", "D", "E", "F", "G", "A", "B"]
MIN_PDUR = 60 / 200 * 0.25  # to_matched_score's floor on performed durations
F32 = 2.0 ** -23


# ----------------------------------------------------------------------------
# case generation


def gen_case(rng, size, flavour=None):
    """A self-contained JSON-able case."""
    qd = rng.choice([1, 2, 4, 4, 6, 8, 12, 24, 480])
    ts = rng.choice([(4, 4), (3, 4), (6, 8), (2, 2), (2, 4), (5, 8)])
    div_per_beat = Fraction(qd * 4, ts[1])
    measure_len = int(div_per_beat * ts[0]) if (div_per_beat * ts[0]).denominator == 1 else None
    if measure_len is None:
        qd *= 2
        div_per_beat = Fraction(qd * 4, ts[1])
        measure_len = int(div_per_beat * ts[0])
    units = sorted({max(1, qd // k) for k in (1, 2, 3, 4)} | {qd, 2 * qd})
    if qd >= 100 and rng.random() < 0.5:
        # distinct score onsets only 1/480 beat apart (still far above the 1e-6 grouping tolerance)
        units = sorted(set(units) | {1, 2, 3})
    pickup = 0
    if rng.random() < 0.35 and measure_len > 1:
        pickup = rng.choice([u for u in units if u < measure_len] or [0])
    flavour = flavour or rng.choices(
        ["musical", "random", "deadpan", "wild", "single", "lonely"], weights=[46, 20, 10, 12, 7, 5])[0]
    n_onsets = 1 if flavour == "single" else rng.randint(2, max(2, size))
    notes = []
    t = 0
    nid = 0
    for k in range(n_onsets):
        # what sounds at this onset
        kind = rng.choices(["single", "chord", "voices", "unison"], weights=[45, 30, 20, 5])[0]
        dur = rng.choice(units)
        here = []
        base = rng.randint(40, 80)
        if kind == "single":
            here.append((base, dur, 1))
        elif kind == "chord":
            for j in range(rng.randint(2, 4)):
                here.append((base + 3 * j + rng.randint(0, 2), dur, 1))
        elif kind == "voices":
            for v in range(1, rng.randint(2, 3) + 1):
                here.append((base - 12 * (v - 1) + rng.randint(0, 5), rng.choice(units), v))
        else:  # the same pitch in two voices, different lengths
            here.append((base, dur, 1))
            here.append((base, dur * 2 if rng.random() < 0.7 else dur, 2))
        if rng.random() < 0.2:  # grace note(s) before the main note, same score onset
            for g in range(rng.randint(1, 2)):
                notes.append({"id": "n%d" % nid, "pitch": base + 1 + g, "start": t, "end": t, "voice": 1, "grace": True})
                nid += 1
        for p, d, v in here:
            notes.append({"id": "n%d" % nid, "pitch": p, "start": t, "end": t + d, "voice": v, "grace": False})
            nid += 1
        t += rng.choice(units) if k > 0 or not pickup else pickup
    if rng.random() < 0.12:  # a trailing grace note after everything else has ended
        tend = max(n["end"] for n in notes)
        if qd % 3 == 0 and rng.random() < 0.6:
            # ... whose predecessor has a triplet length: its end (onset + duration, both single precision) is not
            # exactly the grace note's onset (5/6 vs 0.5 + 1/3), the last score interval must not collapse to ~1e-8 beat
            st = tend + rng.choice([0, qd // 2, qd // 3])
            d = rng.choice([qd // 3, 2 * qd // 3])
            notes.append({"id": "n%d" % nid, "pitch": 72, "start": st, "end": st + d, "voice": 1, "grace": False})
            nid += 1
            tend = st + d
        notes.append({"id": "n%d" % nid, "pitch": 70, "start": tend, "end": tend, "voice": 1, "grace": True})
        nid += 1
    rng.shuffle(notes)  # insertion order into the part must not matter

    # performance: one performed note per score note, in (onset, pitch) order
    order = sorted(range(len(notes)), key=lambda i: (notes[i]["start"], notes[i]["pitch"], i))
    perf = [None] * len(notes)
    bp = rng.choice([0.25, 0.5, 0.75, 1.0]) if flavour == "deadpan" else rng.uniform(0.2, 1.5)
    start = rng.choice([0.0, 0.5, 1.0, 3.25]) if flavour == "deadpan" else rng.uniform(0.0, 5.0)
    tcur = start
    prev_on = None
    tlast = start
    for i in order:
        n = notes[i]
        beats = Fraction(n["start"], 1) / div_per_beat
        if flavour == "deadpan":
            on = start + float(beats) * bp
            d = max(float(Fraction(n["end"] - n["start"]) / div_per_beat) * bp, 0.125)
        elif flavour in ("musical", "single", "lonely"):
            if prev_on is None or n["start"] != prev_on[0]:
                if prev_on is not None:
                    bp = min(3.0, max(0.1, bp * math.exp(rng.gauss(0, 0.15))))
                    tcur = tcur + float(Fraction(n["start"] - prev_on[0]) / div_per_beat) * bp
                prev_on = (n["start"],)
            on = max(0.0, tcur + rng.uniform(-0.03, 0.03))
            d = rng.choice([rng.uniform(0.08, 1.5), rng.uniform(0.08, 0.3), rng.uniform(0.01, 0.07)]) \
                if rng.random() < 0.15 else rng.uniform(0.08, 1.5)
        elif flavour == "random":
            tlast = tlast + rng.choice([rng.uniform(0.001, 0.05), rng.uniform(0.05, 1.5)])
            on = tlast
            d = rng.uniform(0.02, 2.0)
        else:  # wild: any positive times at all
            on = rng.uniform(0.0, 10.0)
            d = rng.uniform(0.02, 2.0)
        vel = rng.choice([1, 127, rng.randint(1, 127), rng.randint(1, 127)])
        perf[i] = {"id": "p%d" % i, "pitch": n["pitch"], "on": on, "off": on + d, "vel": vel}
    # alignment
    align = []
    extra_perf = []
    deleted = set()
    force = set()
    if flavour == "lonely":  # everything deleted but the notes of one score onset
        keep_t = rng.choice(sorted({n["start"] for n in notes}))
        force = {i for i, n in enumerate(notes) if n["start"] != keep_t}
    for t_g in sorted({n["start"] for n in notes if n["grace"]}):
        # a score onset at which only grace notes are matched (their main notes were not played)
        if rng.random() < 0.3 and any(n["start"] != t_g for n in notes):
            force |= {i for i, n in enumerate(notes) if n["start"] == t_g and not n["grace"]}
    if len(force) >= len(notes):
        force = set()
    for i, n in enumerate(notes):
        r = rng.random()
        if i in force or (r < 0.08 and len(notes) - len(deleted) - len(force - deleted) > 1):
            align.append({"label": "deletion", "score_id": n["id"]})
            deleted.add(i)
        else:
            align.append({"label": "match", "score_id": n["id"], "performance_id": perf[i]["id"]})
    perf_out = [p for i, p in enumerate(perf) if i not in deleted]
    n_extra = rng.choice([0, 0, 1, 2])
    for k in range(n_extra):
        on = rng.uniform(0.0, 6.0)
        pid = "x%d" % k
        extra_perf.append({"id": pid, "pitch": rng.randint(30, 90), "on": on, "off": on + rng.uniform(0.05, 0.5),
                           "vel": rng.randint(1, 127)})
        if rng.random() < 0.5:
            align.append({"label": "insertion", "performance_id": pid})
        else:
            align.append({"label": "ornament", "score_id": rng.choice(notes)["id"], "performance_id": pid})
    if rng.random() < 0.12:  # a match whose score note is not in the score
        on = rng.uniform(0.0, 6.0)
        extra_perf.append({"id": "y0", "pitch": 60, "on": on, "off": on + 0.3, "vel": 64})
        align.append({"label": "match", "score_id": "ghost-s", "performance_id": "y0"})
    if rng.random() < 0.12:  # a match whose performed note is not in the performance
        cand = [i for i in deleted]
        if cand:
            i = cand[0]
            align = [a for a in align if not (a["label"] == "deletion" and a["score_id"] == notes[i]["id"])]
            align.append({"label": "match", "score_id": notes[i]["id"], "performance_id": "ghost-p"})
    perf_out += extra_perf
    rng.shuffle(perf_out)
    if rng.random() < 0.7:
        rng.shuffle(align)
    return {"qd": qd, "ts": list(ts), "pickup": pickup, "measure_len": measure_len, "notes": notes, "perf": perf_out,
            "align": align, "flavour": flavour,
            "norm": rng.choice(NORMS), "method": rng.choice(METHODS), "remove_ornaments": rng.random() < 0.6,
            "wrap": rng.choices(["objects", "containers", "arrays"], weights=[70, 15, 15])[0]}


# ----------------------------------------------------------------------------
# building partitura objects


def build(case):
    import partitura.score as S
    from partitura.performance import PerformedPart
    from partitura.utils.music import midi_pitch_to_pitch_spelling

    part = S.Part("P0", quarter_duration=case["qd"])
    part.add(S.TimeSignature(case["ts"][0], case["ts"][1]), 0)
    end = max([n["end"] for n in case["notes"]] + [1])
    t, num = 0, 1
    if case["pickup"]:
        part.add(S.Measure(number=0), 0, case["pickup"])
        t = case["pickup"]
    while t < end or num == 1:
        part.add(S.Measure(number=num), t, t + case["measure_len"])
        t += case["measure_len"]
        num += 1
    for n in case["notes"]:
        step, alter, octave = midi_pitch_to_pitch_spelling(n["pitch"])
        if n["grace"]:
            part.add(S.GraceNote("acciaccatura", step, octave, alter, voice=n["voice"], id=n["id"]), n["start"], n["start"])
        else:
            part.add(S.Note(step, octave, alter, voice=n["voice"], id=n["id"]), n["start"], n["end"])
    pnotes = [dict(id=p["id"], midi_pitch=p["pitch"], note_on=p["on"], note_off=p["off"], velocity=p["vel"])
              for p in case["perf"]]
    ppart = PerformedPart(pnotes, id="PP0")
    return part, ppart


def fr(x):
    return Fraction(float(x))


def copy_al(al):
    return [dict(a) for a in al]


class ImplError(Exception):
    pass


def run_impl(case):
    """Run every function under test; returns a dict of observations (plain Python / numpy)."""
    import numpy as np
    from partitura.musicanalysis import performance_codec as PC

    part, ppart = build(case)
    sna = part.note_array()
    pna = ppart.note_array()
    obs = {"sna": sna, "pna": pna, "part": part, "ppart": ppart}
    al = case["align"]
    wrap = case.get("wrap", "objects")
    if wrap == "containers":  # a single-part Score and a Performance instead of the bare Part / PerformedPart
        import partitura.score as S
        from partitura.performance import Performance
        part, ppart = S.Score([part], id="S0"), Performance(ppart, id="PF0")
    s_in, p_in = (sna, pna) if wrap == "arrays" else (part, ppart)

    def attempt(name, f):
        try:
            obs[name] = f()
        except Exception as e:  # classified by the oracle
            obs[name] = None
            obs[name + "_exc"] = "%s: %s" % (type(e).__name__, str(e)[:200])

    attempt("matched_idx", lambda: PC.get_matched_notes(sna, pna, copy_al(al)))
    attempt("mscore", lambda: PC.to_matched_score(s_in, p_in, copy_al(al)))
    attempt("enc", lambda: PC.encode_performance(part, ppart, copy_al(al), return_u_onset_idx=True,
                                                 beat_normalization=case["norm"], tempo_smooth=case["method"]))
    if obs["enc"] is not None:
        params, sids, uidx = obs["enc"]
        attempt("dec", lambda: PC.decode_performance(part, params.copy(), snote_ids=list(sids),
                                                     beat_normalization=case["norm"]))
        if len(sids) == len(sna):
            attempt("dec_all", lambda: PC.decode_performance(part, params.copy(), beat_normalization=case["norm"]))
        if case["norm"] != "beat_period":
            # the beat_period column alone must decode as well ("in practice, always reconstruct the time by beat_period")
            attempt("dec_bp", lambda: PC.decode_performance(part, params.copy(), snote_ids=list(sids),
                                                            beat_normalization="beat_period"))
    attempt("tmaps", lambda: PC.get_time_maps_from_alignment(p_in, s_in, copy_al(al),
                                                             remove_ornaments=case["remove_ornaments"]))
    return obs


# ----------------------------------------------------------------------------
# direct oracle (property statement on the implementation's output)


def expected_matches(case, sna, pna):
    """Alignment matches whose ids exist on both sides, in alignment order: [(sidx, pidx)]."""
    sidx = {}
    for i, x in enumerate(sna["id"]):
        sidx.setdefault(str(x), i)
    pidx = {}
    for i, x in enumerate(pna["id"]):
        pidx.setdefault(str(x), i)
    out = []
    for a in case["align"]:
        if a["label"] == "match" and str(a["score_id"]) in sidx and str(a["performance_id"]) in pidx:
            out.append((sidx[str(a["score_id"])], pidx[str(a["performance_id"])]))
    return out


def oracle(case, obs):
    """Returns a list of (code, message) failures of the property statement."""
    import numpy as np

    bad = []
    sna, pna = obs["sna"], obs["pna"]
    exp = expected_matches(case, sna, pna)
    # --- O2: matched-note index table
    mi = obs["matched_idx"]
    if mi is None:
        bad.append(("matched_idx_exc", "get_matched_notes raised " + obs["matched_idx_exc"]))
    else:
        got = [tuple(int(v) for v in row) for row in np.asarray(mi).reshape(-1, 2)] if len(mi) else []
        # the property fixes WHICH pairs the table holds, not the order get_matched_notes lists them in
        if sorted(got) != sorted(exp):
            bad.append(("matched_idx", "get_matched_notes = %r, expected the alignment's matches present on both sides %r" % (got, exp)))
    # --- O2: matched score
    ms = obs["mscore"]
    if ms is None:
        bad.append(("mscore_exc", "to_matched_score raised " + obs["mscore_exc"]))
    else:
        arr, sids = ms
        sids = [str(s) for s in sids]
        exp_ids = sorted(str(sna["id"][s]) for s, _ in exp)
        if sorted(sids) != exp_ids:
            bad.append(("mscore_ids", "to_matched_score ids %r, expected exactly %r" % (sorted(sids), exp_ids)))
        else:
            s_of = {str(sna["id"][s]): (s, p) for s, p in exp}
            keys = [(int(sna["onset_div"][s_of[i][0]]), int(sna["pitch"][s_of[i][0]])) for i in sids]
            if keys != sorted(keys):
                bad.append(("mscore_order", "to_matched_score rows not ordered by score onset then pitch: %r" % keys))
            for row, i in zip(arr, sids):
                s, p = s_of[i]
                want = (float(sna["onset_beat"][s]), float(sna["duration_beat"][s]), int(sna["pitch"][s]),
                        float(pna["onset_sec"][p]), float(pna["duration_sec"][p]), int(pna["velocity"][p]))
                gotr = (float(row["onset"]), float(row["duration"]), int(row["pitch"]), float(row["p_onset"]),
                        float(row["p_duration"]), int(row["velocity"]))
                if want[4] < MIN_PDUR and abs(gotr[4] - MIN_PDUR) <= 4 * F32:
                    # the deliberate floor on performed durations (known finding C18-K2, reported through the
                    # decoded duration); the pairing itself is right
                    want = want[:4] + (gotr[4],) + want[5:]
                if any(abs(a - b) > 4 * F32 * max(1.0, abs(b)) for a, b in zip(gotr, want)):
                    bad.append(("mscore_row", "to_matched_score row for %s = %r, expected %r" % (i, gotr, want)))
                    break
    # --- O1: decode(encode)
    if obs["enc"] is None:
        if exp:
            bad.append(("enc_exc", "encode_performance raised " + obs["enc_exc"]))
    else:
        params, sids, uidx = obs["enc"]
        sids = [str(s) for s in sids]
        for key in ("dec", "dec_all", "dec_bp"):
            if key not in obs:
                continue
            if obs[key] is None:
                bad.append((key + "_exc", "decode_performance raised " + obs[key + "_exc"]))
                continue
            bad += oracle_roundtrip(case, obs, exp, sids, obs[key], key, "beat_period" if key == "dec_bp" else case["norm"])
    # --- O3: time maps
    bad += oracle_timemaps(case, obs, exp)
    return bad


def oracle_roundtrip(case, obs, exp, sids, dppart, key, normd):
    import numpy as np

    bad = []
    sna, pna = obs["sna"], obs["pna"]
    dec = {}
    for n in dppart.notes:
        dec.setdefault(str(n["id"]), []).append(
            {"onset_sec": float(n["note_on"]), "duration_sec": float(n["note_off"]) - float(n["note_on"]), "velocity": int(n["velocity"])})
    pairs = {str(sna["id"][s]): (s, p) for s, p in exp}
    if sorted(dec) != sorted(pairs) or any(len(v) != 1 for v in dec.values()):
        return [(key + "_ids", "decoded performance has notes %r, expected one per matched score note %r" % (sorted(dec), sorted(pairs)))]
    span = max(float(pna["onset_sec"][p]) for _, p in exp) - min(float(pna["onset_sec"][p]) for _, p in exp)
    # "within single-precision rounding": the parameters are stored as float32, so a decoded onset
    # (cumulated beat period x score interval, minus timing) carries a rounding error proportional to the
    # MAGNITUDE of the stored timing and of the equivalent onsets it is subtracted from (= timing + performed
    # onset), not to the performed times themselves: a long performed interval over a tiny score interval
    # (1/480 beat) gives beat periods of ~1e3 s/beat and equivalent onsets of ~1e3 s, i.e. ~1e-4 s of rounding.
    # 2e-6 ~ 16 ulp of float32, per unit of the largest magnitude involved.
    tim = {str(i): float(t) for i, t in zip(sids, obs["enc"][0]["timing"])}
    mags = [1.0, span] + [abs(t) for t in tim.values()]
    mags += [abs(tim[str(sna["id"][s])] + float(pna["onset_sec"][p])) for s, p in exp if str(sna["id"][s]) in tim]
    tol_on = 2e-6 * max(m for m in mags if math.isfinite(m))
    # standardized beat periods are rebuilt as z * std + mean from single-precision parameters: the
    # rounding is absolute (relative to |mean| + |z * std|), not relative to the beat period itself
    bp_abs_err = 0.0
    params = obs["enc"][0]
    if normd == "beat_period_standardized":
        mu = float(params["beat_period_mean"][0])
        bp_abs_err = 8 * F32 * (abs(mu) + max(abs(float(b) - mu) for b in params["beat_period"]))
        sons = [float(sna["onset_beat"][s]) for s, _ in exp]
        tol_on += bp_abs_err * (max(sons) - min(sons) + 1.0)
    bp_of = {str(i): float(b) for i, b in zip(sids, params["beat_period"])}
    shifts = []
    for sid, (s, p) in sorted(pairs.items()):
        d = dec[sid][0]
        on, du, ve = float(d["onset_sec"]), float(d["duration_sec"]), int(d["velocity"])
        if not (math.isfinite(on) and math.isfinite(du)):
            bad.append((key + "_nan", "decoded note %s has onset %r duration %r (encoded with %s, method %s; decoded with %s)" % (sid, on, du, case["norm"], case["method"], normd)))
            return bad
        shifts.append((on - float(pna["onset_sec"][p]), sid))
        pd = float(pna["duration_sec"][p])
        sd = float(sna["duration_beat"][s])
        if abs(du - pd) > 1e-5 * pd + 1e-6 + pd * bp_abs_err / max(bp_of.get(sid, 1.0), 1e-12):
            code = "_dur"
            if sd <= 0 and du == 0.0:
                code = "_dur_grace"
            elif pd < MIN_PDUR and abs(du - MIN_PDUR) <= 1e-5:
                code = "_dur_floor"
            bad.append((key + code, "note %s (score duration %g): performed duration %.7g, decoded %.7g" % (sid, sd, pd, du)))
        if ve != int(pna["velocity"][p]):
            bad.append((key + "_vel", "note %s: velocity %d decoded as %d" % (sid, int(pna["velocity"][p]), ve)))
    lo, hi = min(shifts), max(shifts)
    if hi[0] - lo[0] > 2 * tol_on:
        bad.append((key + "_onset", "decoded onsets are not the performed onsets up to one shift: shift %.7g for %s but %.7g for %s"
                    % (lo[0], lo[1], hi[0], hi[1])))
    return bad


def timemap_knots(case, obs, exp):
    """Expected knots [(score onset, mean performed onset)] as exact Fractions, sorted by score onset;
    None for an onset without (non-ornament) matched notes."""
    sna, pna = obs["sna"], obs["pna"]
    groups = {}
    for s, p in exp:
        u = fr(sna["onset_beat"][s])
        groups.setdefault(u, [])
        if not case["remove_ornaments"] or float(sna["duration_beat"][s]) > 0:
            groups[u].append(fr(pna["onset_sec"][p]))
    return [(u, (sum(v) / len(v)) if v else None) for u, v in sorted(groups.items())]


def oracle_timemaps(case, obs, exp):
    import numpy as np

    bad = []
    if not exp:
        return bad
    knots = timemap_knots(case, obs, exp)
    if obs["tmaps"] is None:
        return [("tmaps_exc", "get_time_maps_from_alignment raised " + obs["tmaps_exc"])]
    p2s, s2p = obs["tmaps"]
    # an onset carrying only matched grace notes with remove_ornaments=True has no performed time of its
    # own: it is no knot; the maps still pass through all the others
    knots = [(u, m) for u, m in knots if m is not None]
    if not knots:
        return bad
    for u, m in knots:
        v = float(np.asarray(s2p(float(u))))
        if not abs(v - float(m)) <= 8 * F32 * max(1.0, abs(float(m))):
            bad.append(("tmaps_s2p", "stime_to_ptime(%g) = %.9g, expected the mean performed onset %.9g" % (float(u), v, float(m))))
            break
    # between two neighbouring matched onsets the map stays between their performed times
    for (u0, m0), (u1, m1) in zip(knots, knots[1:]):
        x = float((u0 + u1) / 2)
        v = float(np.asarray(s2p(x)))
        lo, hi = float(min(m0, m1)), float(max(m0, m1))
        if not (lo - 8 * F32 * max(1.0, abs(lo)) <= v <= hi + 8 * F32 * max(1.0, abs(hi))):
            bad.append(("tmaps_between", "stime_to_ptime(%g) = %.9g is not between the performed times %.9g and %.9g of the "
                        "neighbouring matched onsets" % (x, v, float(m0), float(m1))))
            break
    ms = [m for _, m in knots]
    if all(b - a > Fraction(1, 10 ** 5) for a, b in zip(ms, ms[1:])):
        # the other direction, evaluated at the implementation's own (single precision) knot;
        # scipy evaluates in single precision, amplified by the steepest segment
        slope = max([0.0] + [float((u1 - u0) / (m1 - m0)) for (u0, m0), (u1, m1) in zip(knots, knots[1:])])
        for u, m in knots:
            v = float(np.asarray(p2s(float(np.asarray(s2p(float(u)))))))
            if not abs(v - float(u)) <= 16 * F32 * max(1.0, float(abs(ms[-1])), float(abs(ms[0]))) * max(1.0, slope) + 1e-6 * max(1.0, abs(float(u))):
                bad.append(("tmaps_p2s", "ptime_to_stime(stime_to_ptime(%g)) = %.9g, expected the score onset back" % (float(u), v)))
                break
    return bad


# ----------------------------------------------------------------------------
# correspondence: case -> Coq term (input AND the implementation's observed output)


def case_term(case, obs):
    """Coq term of type c18_case, or None when an output needed for it is missing."""
    import numpy as np

    sna, pna = obs["sna"], obs["pna"]
    if obs["matched_idx"] is None or obs["enc"] is None or obs["tmaps"] is None:
        return None
    codes = {}

    def code(x):
        return codes.setdefault(str(x), len(codes))

    srows = [ctuple([cz(code(r["id"])), cq(fr(r["onset_beat"])), cq(fr(r["duration_beat"])), cz(int(r["onset_div"])), cz(int(r["pitch"]))])
             for r in sna]
    prows = [ctuple([cz(code("P:" + str(r["id"]))), cq(fr(r["onset_sec"])), cq(fr(r["duration_sec"])), cz(int(r["velocity"]))]) for r in pna]
    al = []
    for a in case["align"]:
        s = code(a["score_id"]) if "score_id" in a else -2
        p = code("P:" + str(a["performance_id"])) if "performance_id" in a else -3
        al.append(ctuple([cz(0 if a["label"] == "match" else 1), cz(s), cz(p)]))
    mi = obs["matched_idx"]
    midx = [ctuple([cz(int(r[0])), cz(int(r[1]))]) for r in np.asarray(mi).reshape(-1, 2)] if len(mi) else []
    params, sids, uidx = obs["enc"]
    sidc = [cz(code(s)) for s in sids]
    uterm = clist([clist([cz(int(j)) for j in u]) for u in uidx])
    norm_i = NORMS.index(case["norm"])
    names = list(params.dtype.names)[4:]
    prm, ncols = [], []
    for r in params:
        vals = [float(r["beat_period"]), float(r["velocity"]), float(r["timing"]), 2.0 ** float(r["articulation_log"])]
        cols = []
        for nm in names:
            v = float(r[nm])
            if nm.endswith("_log"):
                v = 2.0 ** v
            cols.append(v)
        if not all(math.isfinite(v) for v in vals + cols):
            return None
        prm.append(ctuple([cq(Fraction(v)) for v in vals]))
        ncols.append(clist([cq(Fraction(v)) for v in cols]))
    exp = expected_matches(case, sna, pna)
    pon = [float(pna["onset_sec"][p]) for _, p in exp] or [0.0]
    span = max(pon) - min(pon)
    # tolerances: the decoder accumulates single-precision beat periods times score intervals
    bps = [float(b) for b in params["beat_period"]]
    sons = sorted(float(sna["onset_beat"][s]) for s, _ in exp) or [0.0]
    sspan = sons[-1] - sons[0]
    bperr = 0.0
    if norm_i == 4 and len(params):
        mu = float(params["beat_period_mean"][0])
        bperr = 8 * F32 * (abs(mu) + max(abs(b - mu) for b in bps))
    tims = [float(t) for t in params["timing"]]
    sid_pos = {str(x): k for k, x in enumerate(sids)}
    eqs = [tims[sid_pos[str(sna["id"][s])]] + float(pna["onset_sec"][p]) for s, p in exp if str(sna["id"][s]) in sid_pos]
    total = max([1.0, span, max(bps or [0.0]) * sspan] + [abs(t) for t in tims] + [abs(e) for e in eqs])
    dtol = Fraction(4e-6 * total + bperr * (sspan + 1.0))
    decs = []
    for key, normd in (("dec", norm_i), ("dec_all", norm_i), ("dec_bp", 0)):
        if obs.get(key) is None:
            continue
        rows = []
        for n in obs[key].notes:
            on, off = float(n["note_on"]), float(n["note_off"])
            if not (math.isfinite(on) and math.isfinite(off)):
                return None
            rows.append(ctuple([cz(code(n["id"])), cq(Fraction(on)), cq(Fraction(off) - Fraction(on)), cz(int(n["velocity"]))]))
        if key == "dec_all" and [str(n["id"]) for n in obs[key].notes] != [str(x) for x in sna["id"]]:
            return None
        decs.append("(%s, %s)" % (cz(normd), clist(rows)))
    # time-map probes: kind 0 / 1 at the knots (property), 2 / 3 elsewhere (linear interpolation, extrapolation)
    knots = [(u, m) for u, m in timemap_knots(case, obs, exp) if m is not None]
    p2s, s2p = obs["tmaps"]
    tests = []
    us = [u for u, _ in knots]
    ms = [m for _, m in knots]
    slopes = [abs((m1 - m0) / (u1 - u0)) for (u0, m0), (u1, m1) in zip(knots, knots[1:])]
    xs = [(0, u) for u in us] + [(2, (a + b) / 2) for a, b in zip(us, us[1:])] + ([(2, us[0] - 1), (2, us[-1] + Fraction(3, 2))] if us else [])
    vals = []
    for kind, x in xs:
        y = float(np.asarray(s2p(float(x))))
        if math.isfinite(y):
            tests.append((kind, x, y))
            vals.append(abs(y))
    amp = max([1] + [float(s) for s in slopes])
    monotone = len(ms) >= 2 and all(b - a > Fraction(1, 1000) for a, b in zip(ms, ms[1:]))
    if monotone:
        inv = [abs((u1 - u0) / (m1 - m0)) for (u0, m0), (u1, m1) in zip(knots, knots[1:])]
        amp = max([amp] + [float(s) for s in inv])
        for kind, x in [(1, Fraction(float(m))) for m in ms] + [(3, (a + b) / 2) for a, b in zip(ms, ms[1:])] + [(3, ms[0] - 1), (3, ms[-1] + 1)]:
            y = float(np.asarray(p2s(float(x))))
            if math.isfinite(y):
                tests.append((kind, Fraction(float(x)), y))
                vals.append(abs(y))
    ttol = Fraction(1, 10 ** 5) * Fraction(max([1.0] + vals)) * Fraction(amp)
    tterm = clist([ctuple([cz(k), cq(x), cq(Fraction(y))]) for k, x, y in tests])
    return ("(%s, %s, %s, %s, (%s, %s, %s, %s, %s), (%s, %s, %s), (%s, %s, %s))" % (
        ctuple([cz(METHODS.index(case["method"])), cz(norm_i)]), clist(srows), clist(prows), clist(al),
        clist(midx), clist(sidc), uterm, clist(prm), clist(ncols), cq(dtol), cq(Fraction(bperr)), clist(decs),
        "true" if case["remove_ornaments"] else "false", cq(ttol), tterm))


IMPORTS = "From PV Require Import Model.C18 Model.C18_Check."
PROP_BITS = ["get_matched_notes holds exactly the alignment's matches with both ids present",
             "snote_ids = the matched score notes ordered by score onset then pitch",
             "beat_period column = what the normalisation columns rescale to",
             "timing consistent with the performed onsets up to one shift",
             "articulation consistent with the performed durations",
             "velocity parameter decodes to the performed velocity",
             "decode_performance output = the model decoder on the same parameters (onsets up to one shift)",
             "time maps through the knots (both directions)"]
TIE_BITS = ["get_matched_notes in alignment order", "snote_ids ties in note-array order",
            "onset groups (encoder = decoder = returned unique_onset_idxs)", "modelled tempo curve positive",
            "beat_period = modelled tempo curve / timing origin / v/127 / articulation", "normalisation constants (mean, population variance)",
            "decoded onsets start at 0", "time maps linear between knots and extrapolating"]


def sub_case(case, keep_ids):
    """The case restricted to the score notes in keep_ids (and what refers to them)."""
    keep = set(keep_ids)
    notes = [n for n in case["notes"] if n["id"] in keep]
    dropped = {n["id"] for n in case["notes"]} - keep
    al = [a for a in case["align"] if a.get("score_id") not in dropped]
    used = {a.get("performance_id") for a in al}
    perf = [p for p in case["perf"] if p["id"] in used or p["id"][0] in "xy"]
    c = dict(case)
    c.update(notes=notes, align=al, perf=perf)
    return c


def case_features(case):
    """Corner cases the property singles out, for the evidence's input distribution."""
    out = []
    by_on = {}
    for n in case["notes"]:
        by_on.setdefault(n["start"], []).append(n)
    matched = {a["score_id"] for a in case["align"] if a["label"] == "match"}
    if any(len([n for n in v if not n["grace"]]) >= 2 and len({n["voice"] for n in v}) == 1 for v in by_on.values()):
        out.append("has_chord")
    if any(len({n["voice"] for n in v}) >= 2 for v in by_on.values()):
        out.append("has_several_voices")
    if any(len({n["pitch"] for n in v if not n["grace"]}) < len([n for n in v if not n["grace"]]) for v in by_on.values()):
        out.append("has_unison_same_onset_and_pitch")
    if any(all(n["grace"] for n in v if n["id"] in matched) and any(n["id"] in matched for n in v) for v in by_on.values()):
        out.append("has_onset_with_only_grace_notes_matched")
    if len({n["start"] for n in case["notes"] if n["id"] in matched}) == 1:
        out.append("single_matched_onset")
    last = max(case["notes"], key=lambda n: (n["start"], not n["grace"]))
    if last["grace"] and last["start"] >= max(n["end"] for n in case["notes"]):
        out.append("has_trailing_grace_note")
    for lab in ("deletion", "insertion", "ornament"):
        if any(a["label"] == lab for a in case["align"]):
            out.append("has_" + lab)
    if any(a["label"] == "match" and (a["score_id"] == "ghost-s" or a["performance_id"] == "ghost-p") for a in case["align"]):
        out.append("has_match_with_unknown_id")
    return out


def fail_codes(case):
    try:
        obs = run_impl(case)
        return [c for c, _ in oracle(case, obs)]
    except Exception as e:
        return ["harness:" + type(e).__name__]


def shrink(case, code):
    ids = [n["id"] for n in case["notes"]]
    if len(ids) > 60:
        return case
    kept = core.ddmin(ids, lambda sub: code in fail_codes(sub_case(case, sub)))
    return sub_case(case, kept)


def classify(code):
    c = code.replace("dec_all", "dec")
    return c


def run(ctx):
    ctx.rule = ("Generated single-part scores (1-12 score onsets + optional tail; single notes, chords of 2-4, 2-3 voices, unisons = same onset "
                "and pitch in two voices, grace notes 20% per onset, pickup 35%, trailing grace note 12% (60% of them after a note of "
                "triplet length), 6 time signatures, 9 division values incl. 480 with onsets 1/480 beat apart), one performed note per "
                "score note (flavours: musical tempo walk with chord spread 46%, unrelated random positive IOIs 20%, deadpan dyadic 10%, "
                "wild = arbitrary times incl. decreasing 12% (outside the quantifier's positive IOIs; kept because the algebra and "
                "monotonize_times must cope), single onset 7%, lonely = all but one onset deleted 5%), shuffled alignments with deletions "
                "8% per note, onsets at which only grace notes stay matched (30% of grace onsets), 0-2 insertions/ornaments, matches whose "
                "score/performance id does not exist 12% each; one of 5 normalisations x 2 tempo methods per case, every encoding decoded "
                "with its own normalisation, with beat_period alone and (all notes matched) without snote_ids; inputs as Part/PerformedPart "
                "70%, as single-part Score/Performance 15%, as note arrays (matched score, time maps) 15%; thorough: additionally all 10 "
                "configurations on a sub-sample.  Distinct non-trivial = distinct cases with >= 2 score onsets of which at least one "
                "carries >= 2 matched notes.")
    ctx.trusted = ["Coq 8.16.1 kernel incl. vm_compute", "harness/props/c18.py: generator, partitura object builder, printers of note arrays "
                   "and implementation outputs as exact rationals, Python-side 2** applied to logarithmic columns before comparison, "
                   "tolerances handed to the Coq checkers",
                   "numpy/scipy float arithmetic (modelled by exact rationals within the declared tolerances)",
                   "Part.note_array / PerformedPart.note_array (the codec's inputs are taken from them; their content is property C05/C14's concern)"]
    ctx.assumptions = ["'within single-precision rounding' = error propagated from the float32 storage of the parameters: decoded onsets (and the "
                       "timing relation) are compared up to 2e-6 (~16 ulp) x the largest magnitude involved (1, performance span, |timing|, "
                       "|timing + performed onset| = equivalent onsets; beat periods of ~1e3 s/beat over 1/480-beat score intervals give "
                       "equivalent onsets of ~1e3 s, hence ~1e-4 s), plus for beat_period_standardized 8 ulp x (|mean| + max|bp - mean|) x "
                       "score span; decoded durations relative 1e-5 + 1e-6 absolute",
                       "float32 fields compared with relative 5e-7 (4 ulp) + 1e-7 absolute in the model-tie comparisons; fields that pass through "
                       "log2/2** with relative 1e-5",
                       "exp2/log2 and sqrt are not modelled in Q: logarithmic columns are exponentiated in Python (so a chord's mean of "
                       "logarithms is compared as an arithmetic mean of equal values), the standard deviation is compared through its "
                       "square; their inverse laws are proved over R (Proofs/C18_real.v)",
                       "generated distinct score onsets differ by >= 1/480 beat, so float and exact grouping agree",
                       "a failure of the 'model tie' obligation (outputs no longer computed by the formulas written in Model/C18.v although every "
                       "property-level comparison holds) is reported as a failed obligation, not as a violation: the property prescribes no "
                       "tempo formula, timing origin, normalisation constant, tie-break among equal (onset, pitch), table order or extrapolation"]
    ctx.matchers["C18-K1"] = lambda r: isinstance(r, dict) and str(r.get("code", "")).endswith("_dur_grace")
    ctx.matchers["C18-K2"] = lambda r: isinstance(r, dict) and str(r.get("code", "")).endswith("_dur_floor")
    ok, why = ctx.coq_props(expect_min=20)
    n_cases = 150 if ctx.tier == "quick" else 5000
    n_full = 0 if ctx.tier == "quick" else 100
    rng = ctx.rng
    cases = []
    for k in range(n_cases):
        cases.append(gen_case(rng, rng.choice([3, 5, 8, 12])))
    for k in range(n_full):
        base = gen_case(rng, rng.choice([3, 6]))
        for nm in NORMS:
            for me in METHODS:
                c = dict(base)
                c.update(norm=nm, method=me)
                cases.append(c)
    terms, kept = [], []
    reported = set()
    n_viol = 0
    for case in cases:
        try:
            obs = run_impl(case)
            bad = oracle(case, obs)
        except Exception as e:  # a crash outside the functions under test (building the part, note arrays)
            import traceback
            bad = [("harness", traceback.format_exc()[-600:])]
            obs = None
        ctx.evaluations += 1
        ctx.count("flavour:" + case["flavour"])
        ctx.count("norm:" + case["norm"])
        ctx.count("method:" + case["method"])
        if any(n["grace"] for n in case["notes"]):
            ctx.count("has_grace")
        if case["pickup"]:
            ctx.count("has_pickup")
        ctx.count("inputs_as:" + case.get("wrap", "objects"))
        for k in case_features(case):
            ctx.count(k)
        if any(a["label"] not in ("match",) for a in case["align"]):
            ctx.count("has_insertion_deletion_or_ornament")
        if obs is not None and obs.get("enc") is not None:
            uidx = obs["enc"][2]
            if len(uidx) >= 2 and any(len(u) >= 2 for u in uidx):
                ctx.nontrivial(json.dumps(case, sort_keys=True))
        seen_here = set()
        for code, msg in bad:
            cl = classify(code)
            if cl in seen_here:
                continue
            seen_here.add(cl)
            known = cl.endswith("_dur_grace") or cl.endswith("_dur_floor")
            if known:
                ctx.violation(msg, {"code": cl, "case": case})
                continue
            if n_viol >= 5 or cl in reported:
                n_viol += 1
                continue
            reported.add(cl)
            n_viol += 1
            small = shrink(case, code) if code != "harness" else case
            ctx.violation("C18 fails on the implementation [%s]: %s" % (code, msg), {"code": cl, "case": small, "message": msg})
        if obs is not None and not any(not (c.endswith("_dur_grace") or c.endswith("_dur_floor")) for c, _ in bad):
            t = case_term(case, obs)
            if t is None:
                ctx.count("correspondence_skipped")
            else:
                terms.append(t)
                kept.append(case)
    for c in cases[:3]:
        ctx.sample({"features": case_features(c), "config": {k: c[k] for k in ("qd", "ts", "pickup", "flavour", "norm", "method",
                                                                                 "remove_ornaments", "wrap")},
                    "score_notes(id,pitch,start,end,voice,grace)": [[n["id"], n["pitch"], n["start"], n["end"], n["voice"], n["grace"]] for n in c["notes"]],
                    "performed_notes(id,pitch,on,off,vel)": [[p["id"], p["pitch"], round(p["on"], 4), round(p["off"], 4), p["vel"]] for p in c["perf"]],
                    "alignment": c["align"]})
    ctx.obligation("direct oracle: decode(encode) / matched notes / time maps on %d generated cases" % len(cases), n_viol == 0,
                   "%d failing observations" % n_viol)
    if not ok and n_viol == 0:
        ctx.violation("proof obligations of Props/C18.v no longer check: " + why, {"theorem_or_build": why}, no_input=True)
    shard = 40 if ctx.tier == "quick" else 100
    try:
        failing_any = ctx.coq_failing("codec", IMPORTS, "", terms, "c18_all", shard=shard, timeout=1500)
        failing = []
        if failing_any:  # which of them fail a PROPERTY comparison (the others only drift from the modelled formulas)
            sub = ctx.coq_failing("codecp", IMPORTS, "", [terms[i] for i in failing_any], "c18_check", shard=shard, timeout=1500)
            failing = [failing_any[k] for k in sub]
        err = None
    except RuntimeError as e:
        failing_any, failing, err = [], [], str(e)
    drift = [i for i in failing_any if i not in set(failing)]
    ctx.obligation("correspondence: the implementation's outputs satisfy the model's specifications (matched table, snote_ids, parameter "
                   "array consistent with the performance as Model/C18.v's decoder reads it, decoded notes = model decoder on the same "
                   "parameters for every normalisation used, time maps through the knots) on %d cases" % len(terms),
                   err is None and not failing, err or failing[:5])
    if err is not None:
        ctx.violation("the model could not be evaluated: " + err[-800:], {"coq_error": err[-2000:]}, no_input=True)
    for i in failing[:3]:
        bits = ctx.coq_eval(IMPORTS, "c18_prop_bits %s" % terms[i])
        flags = re_bools(bits)
        what = [PROP_BITS[k] for k, b in enumerate(flags) if not b]
        ctx.violation("model and implementation disagree on: %s" % (", ".join(what) or bits[-300:]),
                      {"code": "correspondence", "disagree": what, "case": kept[i]})
    # model drift: the property-level comparisons hold, but an output is no longer computed by the formula written in
    # Model/C18.v (another tempo curve, timing origin, normalisation constant, tie-break, ...).  Not a violation of C18.
    dwhat = []
    for i in drift[:2]:
        flags = re_bools(ctx.coq_eval(IMPORTS, "c18_tie_bits %s" % terms[i]))
        dwhat.append([TIE_BITS[k] for k, b in enumerate(flags) if not b])
    ctx.obligation("model tie (informative, not a property clause): outputs computed by the formulas of Model/C18.v (alignment order, "
                   "tie-break, grouping, tempo_by_average / tempo_by_derivative, timing origin, v/127, normalisation constants, decoded "
                   "onsets from 0, linear time maps) on %d cases" % len(terms), err is None and not drift,
                   "%d cases drift, e.g. %r" % (len(drift), dwhat))
    ctx.extra["model_drift_cases"] = len(drift)
    ctx.extra["exhaustive"] = False
    ctx.extra["cases_in_correspondence"] = len(terms)


def re_bools(text):
    import re
    m = re.search(r"=\s*\[(.*?)\]\s*:\s*list bool", text, flags=re.S)
    if not m:
        return []
    return [t.strip() == "true" for t in m.group(1).split(";")]


def replay(obj):
    core.setup_import_path()
    r = obj.get("replay", obj)
    case = r.get("case")
    print(json.dumps({k: v for k, v in obj.items() if k != "replay"}, indent=1, default=str))
    if not case:
        print(json.dumps(r, indent=1, default=str))
        return 0
    obs = run_impl(case)
    print("score note array:", obs["sna"][["onset_beat", "duration_beat", "onset_div", "pitch", "id"]])
    print("performance note array:", obs["pna"][["onset_sec", "duration_sec", "velocity", "id"]])
    print("alignment:", case["align"])
    print("normalisation:", case["norm"], "method:", case["method"], "remove_ornaments:", case["remove_ornaments"])
    for k in ("matched_idx", "mscore", "enc"):
        print(k, "=", obs.get(k), obs.get(k + "_exc", ""))
    if obs.get("dec") is not None:
        print("decoded:", [(str(n["id"]), float(n["note_on"]), float(n["note_off"]) - float(n["note_on"]), int(n["velocity"])) for n in obs["dec"].notes])
    else:
        print("decode:", obs.get("dec_exc"))
    print("property failures on the implementation:")
    for c, m in oracle(case, obs):
        print("  [%s] %s" % (c, m))
    return 0
