"""Shared machinery for the /verif checks (see DESIGN.md section 2).

Every property check is a module harness/props/cXX.py exposing ``run(ctx)``.
``ctx`` (class Ctx) offers:

* ctx.rng                     one random.Random seeded from VERIF_SEED
* ctx.tier                    'quick' | 'thorough'
* ctx.coq_build(targets)      make the given .vo targets of the Coq project
* ctx.coq_props()             compile Props/<ID>.v, parse Print Assumptions
* ctx.coq_failing(...)        evaluate generated cases inside Coq (vm_compute)
* ctx.obligation(name, ok, detail)   record a proof obligation
* ctx.violation(what, replay_obj, no_input=False)   report (or match a known finding)
* ctx.count(...), ctx.sample(...), ctx.nontrivial(key)  coverage bookkeeping
* ctx.finish()                write evidence, return exit code

The implementation under test is imported from REPO (env VERIF_REPO, default
/repo) -- always the current working tree.
"""
import fcntl
import glob
import hashlib
import json
import os
import random
import re
import shutil
import subprocess
import sys
import time
import traceback

VERIF = os.path.dirname(os.path.dirname(os.path.abspath(__file__)))
REPO = os.environ.get("VERIF_REPO", "/repo")
COQ = os.environ.get("VERIF_BUILD", os.path.join(VERIF, "coq"))
WORKROOT = os.environ.get("VERIF_WORK", os.path.join(VERIF, ".work"))
NJOBS = int(os.environ.get("VERIF_JOBS", "8"))
EVIDENCE = os.environ.get("VERIF_EVIDENCE", os.path.join(VERIF, "evidence"))
LOGICAL = "PV"

FORBIDDEN = re.compile(
    r"\b(Admitted|admit|Axiom|Axioms|Parameter|Parameters|Conjecture|Conjectures|"
    r"Admit\s+Obligations|bypass_check|native_compute)\b|Unset\s+Guard|"
    r"Unset\s+Positivity|Unset\s+Universe|type-in-type|impredicative-set"
)

# Axioms of the standard library that a property may rely on, per property id
# (DESIGN.md section 8).  Anything else printed by Print Assumptions fails.
REAL_AXIOMS = {
    "ClassicalDedekindReals.sig_forall_dec",
    "ClassicalDedekindReals.sig_not_dec",
    "FunctionalExtensionality.functional_extensionality_dep",
    "Classical_Prop.classic",
}
ALLOWED_AXIOMS = {"C12": REAL_AXIOMS, "C18": REAL_AXIOMS}


def setup_import_path():
    """Make ``import partitura`` resolve to REPO's working tree."""
    if sys.path[0] != REPO:
        sys.path.insert(0, REPO)
    os.environ.setdefault("PYTHONHASHSEED", "0")
    import warnings

    warnings.filterwarnings("ignore")
    import partitura  # noqa

    got = os.path.dirname(os.path.dirname(os.path.abspath(partitura.__file__)))
    if os.path.realpath(got) != os.path.realpath(REPO):
        raise RuntimeError("partitura imported from %s, expected %s" % (got, REPO))


# --------------------------------------------------------------------------
# Coq project handling


def _sync_build_dir():
    """When VERIF_BUILD points elsewhere, mirror /verif/coq there (keeps .vo)."""
    src = os.path.join(VERIF, "coq")
    if os.path.realpath(COQ) == os.path.realpath(src):
        return
    os.makedirs(COQ, exist_ok=True)
    subprocess.run(
        ["rsync", "-a", "--exclude", "Gen/*.v", src + "/", COQ + "/"], check=True
    )


def _write_if_changed(path, text):
    try:
        with open(path) as f:
            if f.read() == text:
                return False
    except FileNotFoundError:
        pass
    os.makedirs(os.path.dirname(path), exist_ok=True)
    tmp = path + ".tmp%d" % os.getpid()
    with open(tmp, "w") as f:
        f.write(text)
    os.replace(tmp, path)
    return True


def write_gen(name, text):
    """Write a generated Coq file coq/Gen/<name>.v (only if content changed)."""
    return _write_if_changed(os.path.join(COQ, "Gen", name + ".v"), text)


class BuildLock:
    def __enter__(self):
        os.makedirs(WORKROOT, exist_ok=True)
        self.f = open(os.path.join(WORKROOT, "build.lock"), "w")
        fcntl.flock(self.f, fcntl.LOCK_EX)
        return self

    def __exit__(self, *a):
        fcntl.flock(self.f, fcntl.LOCK_UN)
        self.f.close()


def refresh_makefile():
    files = []
    for d in ("Lib", "Gen", "Model", "Proofs", "Props"):
        files += sorted(
            os.path.relpath(p, COQ) for p in glob.glob(os.path.join(COQ, d, "*.v"))
        )
    proj = "-Q . %s\n-arg -w -arg -notation-overridden,-deprecated-hint-without-locality,-deprecated-instance-without-locality\n" % LOGICAL + "\n".join(files) + "\n"
    changed = _write_if_changed(os.path.join(COQ, "_CoqProject"), proj)
    if changed or not os.path.exists(os.path.join(COQ, "Makefile")):
        subprocess.run(
            ["coq_makefile", "-f", "_CoqProject", "-o", "Makefile"],
            cwd=COQ,
            check=True,
            stdout=subprocess.DEVNULL,
        )


COQ_WARN = "-notation-overridden,-deprecated-hint-without-locality,-deprecated-instance-without-locality,-ambiguous-paths,-deprecated-syntactic-definition"


def coq_deps(rel):
    """Project-internal dependencies (relative .v paths) of coq/<rel>, read from its Require lines."""
    with open(os.path.join(COQ, rel)) as f:
        src = f.read()
    prev = None
    while prev != src:
        prev = src
        src = re.sub(r"\(\*(?:(?!\(\*|\*\)).)*\*\)", " ", src, flags=re.S)
    out = []
    for m in re.finditer(r"\b(?:From\s+(\w+)\s+)?Require\s+(?:Import\s+|Export\s+)?((?:[A-Za-z_]\w*(?:\.[A-Za-z_]\w*)*\s*)+)\.(?=\s|$)", src):
        frm, mods = m.group(1), m.group(2).split()
        for mod in mods:
            parts = mod.split(".")
            if parts[0] == LOGICAL:
                parts = parts[1:]
            elif frm != LOGICAL:
                continue
            if len(parts) == 2 and parts[0] in ("Lib", "Gen", "Model", "Proofs", "Props"):
                r = "%s/%s.v" % (parts[0], parts[1])
                if os.path.exists(os.path.join(COQ, r)) and r not in out:
                    out.append(r)
    return out


def coq_closure(rel, acc=None):
    acc = [] if acc is None else acc
    for d in coq_deps(rel):
        if d not in acc:
            coq_closure(d, acc)
    if rel not in acc:
        acc.append(rel)
    return acc


def coq_make(targets, timeout=1500):
    """Compile the given targets ('Props/C12.vo' ...) and everything they depend on, in
    dependency order, each file under its own lock (several checks may build at once).
    A file is recompiled when its .vo is missing or older than the .v or than a dependency's
    .vo.  Always a full .vo compile (never -vos/-vok).  Returns (ok, log)."""
    log = []
    os.makedirs(os.path.join(WORKROOT, "locks"), exist_ok=True)
    order = []
    for t in targets:
        for r in coq_closure(t[:-1] if t.endswith(".vo") else t):
            if r not in order:
                order.append(r)
    for rel in order:
        v = os.path.join(COQ, rel)
        vo = v + "o"
        with open(os.path.join(WORKROOT, "locks", rel.replace("/", "_") + ".lock"), "w") as lk:
            fcntl.flock(lk, fcntl.LOCK_EX)
            need = not os.path.exists(vo) or os.path.getmtime(vo) < os.path.getmtime(v)
            if not need:
                for d in coq_deps(rel):
                    dvo = os.path.join(COQ, d) + "o"
                    if os.path.exists(dvo) and os.path.getmtime(dvo) > os.path.getmtime(vo):
                        need = True
            if need:
                p = subprocess.run(
                    ["timeout", str(timeout), "coqc", "-Q", ".", LOGICAL, "-w", COQ_WARN, rel],
                    cwd=COQ, stdout=subprocess.PIPE, stderr=subprocess.STDOUT, text=True)
                log.append("COQC %s\n%s" % (rel, p.stdout))
                if p.returncode != 0:
                    try:
                        os.remove(vo)
                    except OSError:
                        pass
                    return False, "\n".join(log)
    return True, "\n".join(log)


def coqc_file(path, cwd=None, timeout=900):
    p = subprocess.run(
        ["timeout", str(timeout), "coqc", "-Q", COQ, LOGICAL, "-w", COQ_WARN, path],
        cwd=cwd or os.path.dirname(path),
        stdout=subprocess.PIPE,
        stderr=subprocess.STDOUT,
        text=True,
    )
    return p.returncode, p.stdout


def parse_print_assumptions(out):
    """Parse the output of a Props file: returns {theorem: [axioms]}.

    Props files print, for each theorem T, a marker line produced by
    ``Print Assumptions T.`` -- either 'Closed under the global context' or
    'Axioms:' followed by indented 'name : type' lines.  The order equals the
    order of Print Assumptions commands in the file.
    """
    blocks = []
    cur = None
    for line in out.splitlines():
        if line.startswith("Closed under the global context"):
            blocks.append([])
            cur = None
        elif line.startswith("Axioms:"):
            cur = []
            blocks.append(cur)
        elif cur is not None:
            m = re.match(r"^([A-Za-z_][\w\.']*)\s*$", line) or re.match(
                r"^([A-Za-z_][\w\.']*)\s*:", line
            )
            if m and not line.startswith(" "):
                cur.append(m.group(1))
    return blocks


def hygiene_scan(rels=None):
    """Forbidden constructs in the given files (default: the whole development) -> list of hits."""
    hits = []
    paths = [os.path.join(COQ, r) for r in rels] if rels else sorted(glob.glob(os.path.join(COQ, "*", "*.v")))
    for p in paths:
        with open(p) as f:
            src = f.read()
        # strip comments (non-nested good enough; nested handled by loop)
        prev = None
        while prev != src:
            prev = src
            src = re.sub(r"\(\*(?:(?!\(\*|\*\)).)*\*\)", " ", src, flags=re.S)
        for i, line in enumerate(src.splitlines(), 1):
            if FORBIDDEN.search(line):
                hits.append("%s:%d: %s" % (os.path.relpath(p, COQ), i, line.strip()))
    return hits


# --------------------------------------------------------------------------
# Coq literal printers (harness -> cases.v)


def cz(n):
    n = int(n)
    return "(%d)%%Z" % n if n < 0 else "%d%%Z" % n


def cnat(n):
    assert 0 <= int(n) < 5000, n
    return "%d%%nat" % int(n)


def cbool(b):
    return "true" if b else "false"


def cq(fr):
    """fractions.Fraction (or (num, den)) -> Coq Q literal."""
    from fractions import Fraction

    if not isinstance(fr, Fraction):
        fr = Fraction(fr)
    return "(Qmake %s %d%%positive)" % (cz(fr.numerator), fr.denominator)


def cfloat_q(x):
    """a Python/numpy float as the exact rational it denotes."""
    from fractions import Fraction

    return cq(Fraction(float(x)))


def clist(items):
    return "[" + "; ".join(items) + "]"


def copt(x, pr):
    return "None" if x is None else "(Some %s)" % pr(x)


def ctuple(items):
    return "(" + ", ".join(items) + ")"


def cstr(s):
    assert all(32 <= ord(c) < 127 for c in s), s
    return '"%s"%%string' % s.replace('"', '""')


# --------------------------------------------------------------------------


def ddmin(items, fails):
    """Delta-debugging over a list; ``fails(sub)`` is True when sub still fails."""
    items = list(items)
    n = 2
    while len(items) >= 2:
        chunk = max(1, len(items) // n)
        subsets = [items[i : i + chunk] for i in range(0, len(items), chunk)]
        reduced = False
        for i in range(len(subsets)):
            comp = [x for j, s in enumerate(subsets) if j != i for x in s]
            if comp and fails(comp):
                items = comp
                n = max(n - 1, 2)
                reduced = True
                break
        if not reduced:
            if n >= len(items):
                break
            n = min(len(items), n * 2)
    return items


def load_known_findings():
    """known_findings.json (canonical, committed) plus per-property findings.d/*.json
    (merged into the canonical file by tools/merge_findings)."""
    out = {"known": [], "fixed": []}
    paths = [os.path.join(VERIF, "known_findings.json")] + sorted(glob.glob(os.path.join(VERIF, "findings.d", "*.json")))
    seen = set()
    for p in paths:
        if not os.path.exists(p):
            continue
        with open(p) as f:
            d = json.load(f)
        for k in d.get("known", []):
            if k["id"] not in seen:
                seen.add(k["id"])
                out["known"].append(k)
        for k in d.get("fixed", []):
            if k not in out["fixed"]:
                out["fixed"].append(k)
    return out


class Ctx:
    def __init__(self, pid, tier, seed):
        self.pid = pid
        self.tier = tier
        self.seed = seed
        self.rng = random.Random(seed)
        self.t0 = time.time()
        # one scratch directory per RUN (property id + process id): two runs of the same check at the
        # same time (a builder's own run next to the coordinator's) must not delete each other's files
        self.work = os.path.join(WORKROOT, "%s.%d" % (pid, os.getpid()))
        for d in glob.glob(os.path.join(WORKROOT, pid + ".*")) + [os.path.join(WORKROOT, pid)]:
            owner = d.rsplit(".", 1)[-1]
            if not (owner.isdigit() and os.path.exists("/proc/" + owner)):
                shutil.rmtree(d, ignore_errors=True)  # left behind by a run that is gone
        shutil.rmtree(self.work, ignore_errors=True)
        os.makedirs(self.work, exist_ok=True)
        _sync_build_dir()
        self.obligations = []  # (name, ok, detail)
        self.violations = []  # (what, replay_path, no_input)
        self.known_hits = {}  # finding id -> count
        self.counts = {}
        self.samples = []
        self._nontrivial = set()
        self.evaluations = 0
        self.assumptions = []
        self.trusted = []
        self.rule = ""
        self.extra = {}
        self.axioms_seen = {}
        self.known = [k for k in load_known_findings().get("known", []) if k.get("property") == pid]
        self.matchers = {}  # finding id -> predicate(replay_obj) (registered by the property module)
        self.quiet = False

    # ---- bookkeeping
    def log(self, *a):
        print("[%s %6.1fs]" % (self.pid, time.time() - self.t0), *a, flush=True)

    def count(self, key, n=1):
        self.counts[key] = self.counts.get(key, 0) + n

    def sample(self, obj, limit=5):
        if len(self.samples) < limit:
            self.samples.append(obj)

    def nontrivial(self, key):
        """Register a distinct non-trivial case by a canonical key."""
        if not isinstance(key, (str, bytes)):
            key = json.dumps(key, sort_keys=True, default=str)
        if isinstance(key, str):
            key = key.encode()
        self._nontrivial.add(hashlib.sha1(key).digest())

    def obligation(self, name, ok, detail=""):
        self.obligations.append((name, bool(ok), detail))
        if not ok:
            self.log("OBLIGATION FAILED:", name, str(detail)[:2000])

    # ---- Coq
    def coq_build(self, targets):
        _sync_build_dir()
        ok, log = coq_make(targets)
        if not ok:
            tail = "\n".join(log.splitlines()[-40:])
            self.log("coq build failed:\n" + tail)
        return ok, log

    def coq_props(self, expect_min=1):
        """Build Proofs + compile Props/<pid>.v; each `Print Assumptions` there is
        one obligation.  Returns (ok, failing_description)."""
        pid = self.pid
        props = os.path.join(COQ, "Props", pid + ".v")
        with open(props) as f:
            src = f.read()
        names = re.findall(r"Print\s+Assumptions\s+([\w\.']+)\s*\.", src)
        thms = re.findall(r"\b(?:Theorem|Lemma|Corollary)\s+([\w']+)", src)
        # Props discipline: every theorem is followed by a Print Assumptions
        missing = [t for t in thms if t not in names]
        ok, log = self.coq_build(["Props/%s.vo" % pid])
        if not ok:
            # find first failing file / lemma
            m = re.search(r'File "([^"]+)", line (\d+)', log)
            where = "%s:%s" % (m.group(1), m.group(2)) if m else "?"
            err = "\n".join(log.splitlines()[-25:])
            for t in thms or ["build"]:
                self.obligation("theorem %s" % t, False, "build failed at %s" % where)
            self.extra["coq_error"] = err
            return False, "Coq build failed at %s\n%s" % (where, err)
        # always recompile the Props file to capture Print Assumptions output
        rc, out = coqc_file(props, cwd=COQ)
        if rc != 0:
            for t in thms:
                self.obligation("theorem %s" % t, False, out[-1500:])
            return False, "coqc Props/%s.v failed:\n%s" % (pid, out[-3000:])
        blocks = parse_print_assumptions(out)
        allowed = ALLOWED_AXIOMS.get(pid, set())
        bad = []
        if len(blocks) != len(names):
            bad.append("Print Assumptions blocks %d != commands %d" % (len(blocks), len(names)))
        if missing:
            bad.append("theorems without Print Assumptions: %s" % missing)
        if len(thms) < expect_min:
            bad.append("fewer theorems than expected: %d < %d" % (len(thms), expect_min))
        for t, axs in zip(names, blocks):
            extra = [a for a in axs if a not in allowed and a.split(".")[-1] not in {x.split(".")[-1] for x in allowed}]
            self.axioms_seen[t] = axs
            self.obligation("theorem %s (Print Assumptions: %s)" % (t, "closed" if not axs else ", ".join(axs)), not extra, extra)
            if extra:
                bad.append("theorem %s depends on non-allow-listed axioms %s" % (t, extra))
        closure = coq_closure("Props/%s.v" % pid)
        hits = hygiene_scan(closure)
        self.extra["coq_files"] = closure
        self.obligation("hygiene scan (no Admitted/admit/Axiom/Parameter/... in the %d files Props/%s.v depends on)" % (len(closure), pid), not hits, hits[:10])
        if hits:
            bad.append("forbidden constructs: %s" % hits[:5])
        if not bad and self.tier == "thorough" and os.environ.get("VERIF_COQCHK", "1") != "0":
            self.run_coqchk(allowed)
        return (not bad), "; ".join(bad)

    def run_coqchk(self, allowed):
        """Independent re-check of the compiled Props file and everything it depends on
        (thorough tier only; a time-out is recorded, not treated as a failure)."""
        t = time.time()
        try:
            p = subprocess.run(["timeout", os.environ.get("VERIF_COQCHK_TIMEOUT", "1200"), "coqchk", "-silent", "-o", "-Q", ".", LOGICAL,
                                "%s.Props.%s" % (LOGICAL, self.pid)], cwd=COQ, stdout=subprocess.PIPE, stderr=subprocess.STDOUT, text=True)
        except Exception as e:  # pragma: no cover
            self.extra["coqchk"] = "not run: %r" % e
            return
        out = p.stdout
        if p.returncode == 124:
            self.extra["coqchk"] = "timed out after %.0fs (not counted)" % (time.time() - t)
            return
        m = re.search(r"\* Axioms:(.*?)\n\s*\n\* Constants/Inductives relying on type-in-type:(.*?)\n\s*\n\* Constants/Inductives relying on unsafe \(co\)fixpoints:(.*?)\n\s*\n\* Inductives whose positivity is assumed:(.*?)\n", out, flags=re.S)
        if p.returncode != 0 or not m:
            self.obligation("coqchk -o PV.Props.%s" % self.pid, False, out[-1500:])
            return
        axioms = [a.strip() for a in m.group(1).split("\n") if a.strip() and a.strip() != "<none>"]
        unsafe = [g.strip() for g in m.groups()[1:] if g.strip() != "<none>"]
        # coqchk lists the axioms of every LOADED library (not only those the theorems use, which
        # Print Assumptions already restricts to the per-property allow-list): standard-library
        # axioms are reported, anything declared outside Coq.* fails.
        extra_ax = [a for a in axioms if not a.startswith("Coq.")]
        self.extra["coqchk"] = {"axioms": axioms, "wall_s": round(time.time() - t, 1)}
        self.obligation("coqchk -o PV.Props.%s (independent checker; axioms: %s)" % (self.pid, ", ".join(axioms) or "none"),
                        not extra_ax and not unsafe, extra_ax + unsafe)

    def coq_failing(self, name, imports, defs, case_terms, checker, shard=400, timeout=900, ty=None):
        """Evaluate `checker : case -> bool` on every case term inside Coq.

        Writes sharded files cases_<name>_<k>.v, runs coqc in parallel, returns the
        sorted list of indices of cases for which the checker returned false.
        `imports`: Coq `Require Import` lines; `defs`: extra definitions text; `ty`: the Coq type of one
        case (optional: `pv_cases : list ty`, so that a shard whose cases all hold `[]` / `None` in one
        position still elaborates).
        Raises RuntimeError if Coq rejects a file (that is a harness/model bug or
        a broken model, reported by the caller as a failed correspondence).
        """
        files = []
        hdr = (
            "From Coq Require Import ZArith QArith List String Bool.\n"
            "Import ListNotations.\nOpen Scope Z_scope.\n" + imports + "\n" + defs + "\n"
            "Fixpoint pv_failing {A} (chk : A -> bool) (i : nat) (l : list A) : list nat :=\n"
            "  match l with [] => [] | x :: r => if chk x then pv_failing chk (S i) r else i :: pv_failing chk (S i) r end.\n"
        )
        for k in range(0, max(1, len(case_terms)), shard):
            part = case_terms[k : k + shard]
            path = os.path.join(self.work, "cases_%s_%d.v" % (name, k // shard))
            with open(path, "w") as f:
                f.write(hdr)
                f.write("Definition pv_cases%s := [\n  " % (" : list (%s)" % ty if ty else "") + ";\n  ".join(part) + "\n].\n")
                f.write("Eval vm_compute in (pv_failing (%s) 0 pv_cases).\n" % checker)
            files.append((k, path))
        procs = []
        failing = []
        pending = list(files)
        running = []
        while pending or running:
            while pending and len(running) < NJOBS:
                k, path = pending.pop(0)
                p = subprocess.Popen(
                    ["timeout", str(timeout), "coqc", "-Q", COQ, LOGICAL,
                     "-w", "-notation-overridden", os.path.basename(path)],
                    cwd=self.work, stdout=subprocess.PIPE, stderr=subprocess.STDOUT, text=True,
                )
                running.append((k, path, p))
            k, path, p = running.pop(0)
            out, _ = p.communicate()
            if p.returncode != 0:
                for _, _, q in running:
                    q.kill()
                raise RuntimeError("coqc failed on %s:\n%s" % (path, out[-3000:]))
            m = re.search(r"=\s*(\[.*?\])\s*(?:%nat)?\s*:\s*list nat", out, flags=re.S)
            if not m:
                raise RuntimeError("cannot parse coqc output for %s:\n%s" % (path, out[-2000:]))
            failing += [k + int(x) for x in re.findall(r"\d+", m.group(1))]
        return sorted(failing)

    def coq_eval(self, imports, term, timeout=300):
        """Evaluate one term with vm_compute and return Coq's printed text."""
        path = os.path.join(self.work, "eval_%d.v" % int(time.time() * 1e6))
        with open(path, "w") as f:
            f.write("From Coq Require Import ZArith QArith List String Bool.\nImport ListNotations.\nOpen Scope Z_scope.\n")
            f.write(imports + "\nEval vm_compute in (%s).\n" % term)
        rc, out = coqc_file(path, cwd=self.work, timeout=timeout)
        return out.strip()

    # ---- findings
    def violation(self, what, replay_obj, no_input=False):
        """Report a violation unless it matches a known finding."""
        for k in self.known:
            pred = self.matchers.get(k["id"])
            try:
                if pred and not no_input and pred(replay_obj):
                    self.known_hits[k["id"]] = self.known_hits.get(k["id"], 0) + 1
                    return "known"
            except Exception:
                pass
        rdir = os.path.join(EVIDENCE, "replays")
        os.makedirs(rdir, exist_ok=True)
        path = os.path.join(rdir, "%s_%d.json" % (self.pid, len(self.violations)))
        with open(path, "w") as f:
            json.dump({"property": self.pid, "seed": self.seed, "tier": self.tier,
                       "what": what, "replay": replay_obj,
                       "no_failing_input_found": bool(no_input)}, f, indent=1, default=str)
        self.violations.append((what, path, no_input))
        self.log("violation:", what[:500])
        return path

    # ---- end
    def finish(self):
        wall = time.time() - self.t0
        n_ob = len(self.obligations)
        n_ok = sum(1 for _, ok, _ in self.obligations if ok)
        for k in self.known:
            if self.known_hits.get(k["id"]):
                print("KNOWN-FINDING: property=%s %s (id=%s, hit %d times)" % (self.pid, k["what"], k["id"], self.known_hits[k["id"]]))
        cov = {
            "obligations": n_ob,
            "discharged": n_ok,
            "checker_cmd": "cd /verif/coq && coq_makefile -f _CoqProject -o Makefile && make Props/%s.vo && coqc -Q . PV Props/%s.v  (Print Assumptions under every theorem); correspondence: coqc on generated cases_*.v (vm_compute)" % (self.pid, self.pid),
            "trusted_base": self.trusted or ["Coq 8.16.1 kernel incl. vm_compute", "harness/props/%s.py generators and canonicalisers" % self.pid.lower()],
            "obligation_list": [{"name": n, "ok": ok, **({"detail": str(d)[:500]} if (d and not ok) else {})} for n, ok, d in self.obligations],
            "axioms_per_theorem": self.axioms_seen,
            "evaluations": self.evaluations,
            "distinct_nontrivial": len(self._nontrivial),
            "rule": self.rule,
            "samples": self.samples or ["(no sample recorded)"],
            "distribution": self.counts,
            "known_findings_hit": self.known_hits,
        }
        cov.update(self.extra)
        ev = {
            "property_id": self.pid,
            "tier": self.tier,
            "seed": self.seed,
            "level": "proof",
            "coverage": cov,
            "assumptions": self.assumptions,
            "wall_s": round(wall, 2),
            "violations": len(self.violations),
        }
        os.makedirs(EVIDENCE, exist_ok=True)
        with open(os.path.join(EVIDENCE, self.pid + ".json"), "w") as f:
            json.dump(ev, f, indent=1, default=str)
        for what, path, no_input in self.violations[:20]:
            print("VIOLATION property=%s replay=%s%s" % (self.pid, path, " no-failing-input-found" if no_input else ""))
        shutil.rmtree(self.work, ignore_errors=True)
        self.log("done: obligations %d/%d, evaluations %d, nontrivial %d, violations %d, %.1fs"
                 % (n_ok, n_ob, self.evaluations, len(self._nontrivial), len(self.violations), wall))
        return 1 if self.violations else 0


def main(argv):
    import argparse
    import importlib

    ap = argparse.ArgumentParser()
    ap.add_argument("pid")
    ap.add_argument("--tier", default=os.environ.get("VERIF_TIER", "quick"))
    ap.add_argument("--replay")
    a = ap.parse_args(argv)
    pid = a.pid.upper()
    seed = int(os.environ.get("VERIF_SEED", "20260926"))
    sys.path.insert(0, os.path.join(VERIF, "harness"))
    setup_import_path()
    mod = importlib.import_module("props." + pid.lower())
    if a.replay:
        with open(a.replay) as f:
            obj = json.load(f)
        return mod.replay(obj)
    ctx = Ctx(pid, a.tier, seed)
    try:
        mod.run(ctx)
    except Exception:
        tb = traceback.format_exc()
        ctx.log("harness exception:\n" + tb)
        ctx.violation("check machinery raised (treated as: property not shown to hold): " + tb[-1500:],
                      {"exception": tb}, no_input=True)
    return ctx.finish()


if __name__ == "__main__":
    sys.exit(main(sys.argv[1:]))
