"""T1 -- a fail-closed Python-`ast` -> Gallina translator for the pure integer/string core of
partitura/utils/music.py and partitura/score.py.

The translator reads the TEXT of the working tree (core.REPO), never `inspect` on imported
objects.  Only module-level constant tables are *reflected* from the imported module (a dict /
list / tuple becomes an association list / list).  Everything outside the supported subset raises
`Unsupported(node, why)`; nothing is guessed.

Encoding (see coq/Lib/Py.v): every function returns `option R`, None = the call raised;
Python int = Z (`//`, `%` = Z.div, Z.modulo: floor division for every sign of the divisor; a
non-literal divisor is checked for zero); str = string; optional int = option Z; a parameter
that may be None/int/str = pyval; objects with a fixed set of fields = records, attribute
writes are state-passing (the function returns the final record); `while` = a local fixpoint on
explicit fuel (the function gets a leading `fuel : nat`; out of fuel = None).

The parameter types are DECLARED here (TARGETS): Python has none, and a translated definition is
claimed to be the function only for arguments of those types.
"""
import ast
import hashlib
import os
import re
from fractions import Fraction

import core


class Unsupported(Exception):
    def __init__(self, node, why):
        self.node, self.why = node, why
        line = getattr(node, "lineno", None)
        super().__init__("%s%s" % (why, " (line %s)" % line if line else ""))


# ----------------------------------------------------------------------------- types
INT, STR, BOOL, OPTINT, OPTSTR, Q, DYN, NONE, STRLIST, INTLIST = "Z", "string", "bool", "option Z", "option string", "Q", "pyval", "unit", "list string", "list Z"


class Rec:
    def __init__(self, name, prefix, fields):
        self.name, self.prefix, self.fields = name, prefix, fields  # fields: [(pyname, type)]

    def __repr__(self):
        return self.name


NOTE = Rec("PyNote", "n_", [("step", STR), ("alter", OPTINT), ("octave", INT)])
INTERVAL = Rec("PyInterval", "i_", [("number", INT), ("quality", STR), ("direction", STR)])
TUPLET = Rec("PyTuplet", "t_", [("actual_notes", INT), ("normal_notes", INT), ("actual_type", OPTSTR), ("normal_type", OPTSTR)])
KEYSIG = Rec("PyKeySig", "k_", [("fifths", INT), ("mode", DYN)])
# a symbolic duration: a dict whose keys may be absent (absent = None); read through .get() only
SYMDUR = Rec("PySymDur", "sd_", [("type", OPTSTR), ("dots", OPTINT), ("actual_notes", OPTINT), ("normal_notes", OPTINT)])


class Tup:
    def __init__(self, items):
        self.items = list(items)

    def __eq__(self, o):
        return isinstance(o, Tup) and self.items == o.items

    def __hash__(self):
        return hash(tuple(map(str, self.items)))

    def __repr__(self):
        return "(" + " * ".join(map(cty, self.items)) + ")"


class Table:
    """a reflected module-level constant"""
    def __init__(self, name, kind, kty, vty):
        self.name, self.kind, self.kty, self.vty = name, kind, kty, vty  # kind: 'dict' | 'list'


def cty(t):
    if isinstance(t, Rec):
        return t.name
    if isinstance(t, Tup):
        return "(" + " * ".join(cty(x) for x in t.items) + ")"
    return t


# ----------------------------------------------------------------------------- targets
# module path, qualified name, parameter types (declared), result type, name in the generated file
class Target:
    def __init__(self, module, qualname, params, ret, coqname=None, mutates=None, self_type=None):
        self.module, self.qualname, self.params, self.ret = module, qualname, params, ret
        self.coqname = coqname or qualname.replace(".", "_")
        self.mutates = mutates          # name of a record parameter that is written (state-passing)
        self.self_type = self_type      # record type of `self` for methods


MUSIC = "partitura/utils/music.py"
SCORE = "partitura/score.py"
TARGETS = [
    Target(MUSIC, "pitch_spelling_to_midi_pitch", [("step", STR), ("alter", OPTINT), ("octave", INT)], INT),
    Target(MUSIC, "step2pc", [("step", STR), ("alter", INT)], INT),
    Target(MUSIC, "_transpose_step", [("step", STR), ("interval", INT), ("direction", STR)], STR, coqname="transpose_step"),
    Target(MUSIC, "_transpose_note_inplace", [("note", NOTE), ("interval", INTERVAL)], NONE, coqname="transpose_note_inplace", mutates="note"),
    Target(SCORE, "Interval.semitones", [], INT, self_type=INTERVAL),
    Target(SCORE, "Interval.validate", [], NONE, self_type=INTERVAL),
    Target(MUSIC, "transpose_note", [("step", STR), ("alter", INT), ("interval", INTERVAL)], Tup([STR, INT])),
    Target(MUSIC, "find_smallest_unit", [("divs", INT)], INT),
    Target(MUSIC, "pitch_spelling_to_note_name", [("step", STR), ("alter", INT), ("octave", INT)], STR),
    Target(MUSIC, "key_mode_to_int", [("mode", DYN)], INT),
    Target(MUSIC, "key_int_to_mode", [("mode", DYN)], STR),
    Target(MUSIC, "clef_sign_to_int", [("clef_sign", STR)], INT),
    Target(MUSIC, "clef_int_to_sign", [("clef_int", INT)], STR),
    Target(MUSIC, "fifths_mode_to_key_name", [("fifths", INT), ("mode", DYN)], STR),
    Target(MUSIC, "key_name_to_fifths_mode", [("key_name", STR)], Tup([INT, STR])),
    Target(MUSIC, "ensure_pitch_spelling_format", [("step", STR), ("alter", INT), ("octave", INT)], Tup([STR, INT, INT])),
    Target(MUSIC, "midi_pitch_to_pitch_spelling", [("midi_pitch", INT)], Tup([STR, INT, INT])),
    Target(MUSIC, "symbolic_to_numeric_duration", [("symbolic_dur", SYMDUR), ("divs", INT)], Q),
    Target(MUSIC, "midi_ticks_to_seconds", [("midi_ticks", INT), ("mpq", INT), ("ppq", INT)], Q),
    Target(SCORE, "Tuplet.duration_multiplier", [], Q, self_type=TUPLET),
    Target(SCORE, "Note.midi_pitch", [], INT, self_type=NOTE),
    Target(SCORE, "Note.alter_sign", [], STR, self_type=NOTE),
    Target(SCORE, "KeySignature.name", [], STR, self_type=KEYSIG),
]
# recorded, not attempted (the reason is part of the evidence)
NOT_TRANSLATABLE = {
    "seconds_to_midi_ticks": "numpy (np.round, np.asarray, isinstance dispatch, float arithmetic): outside the subset",
}
PROPERTIES = {"transpose_note": ("Interval.semitones", INTERVAL), "_transpose_note_inplace": None}
# properties of record types that are themselves translated functions: rec name -> {attr: qualname}
REC_PROPS = {"PyInterval": {"semitones": "Interval.semitones"}}

COQ_RESERVED = {"mod", "at", "end", "match", "fun", "type", "Type", "Set", "Prop", "fix", "let", "using", "where", "struct", "cofix", "forall", "exists", "then", "left", "right", "fst", "snd", "Some", "None", "true", "false", "tt", "fuel"}


def cname(pyname):
    n = pyname.lstrip("_") or "x"
    return n + "_" if n in COQ_RESERVED else n


# ----------------------------------------------------------------------------- source access
_SRC = {}


def module_ast(module):
    path = os.path.join(core.REPO, module)
    if path not in _SRC:
        with open(path) as f:
            text = f.read()
        _SRC[path] = (text, ast.parse(text))
    return _SRC[path]


def find_def(module, qualname):
    text, tree = module_ast(module)
    body = tree.body
    parts = qualname.split(".")
    node = None
    for i, p in enumerate(parts):
        found = None
        for n in body:
            if isinstance(n, (ast.FunctionDef, ast.ClassDef)) and n.name == p:
                found = n
        if found is None:
            raise Unsupported(tree, "definition %s not found in %s" % (qualname, module))
        node = found
        body = getattr(found, "body", [])
    if not isinstance(node, ast.FunctionDef):
        raise Unsupported(node, "%s is not a function" % qualname)
    seg = ast.get_source_segment(text, node)
    return node, seg


# ----------------------------------------------------------------------------- reflected tables
def cz(n):
    return "(%d)" % n if n < 0 else "%d" % n


def cstr(s):
    if not all(32 <= ord(c) < 127 for c in s):
        raise Unsupported(None, "non-ASCII string constant %r" % s)
    return '"%s"%%string' % s.replace('"', '""')


def cq(fr):
    fr = Fraction(fr)
    return "(%s # %d)%%Q" % (cz(fr.numerator), fr.denominator)


def _kind(v):
    if v is None:
        return "none"
    if isinstance(v, bool):
        return "bool"
    if isinstance(v, int):
        return "int"
    if isinstance(v, float):
        return "float"
    if isinstance(v, str):
        return "str"
    return type(v).__name__


def _lit(v, ty):
    if ty == INT:
        return cz(v)
    if ty == STR:
        return cstr(v)
    if ty == Q:
        return cq(Fraction(v))
    if ty == OPTINT:
        return "None" if v is None else "(Some %s)" % cz(v)
    if isinstance(ty, Tup):
        return "(" + ", ".join(_lit(x, t) for x, t in zip(v, ty.items)) + ")"
    raise Unsupported(None, "no literal of type %s" % ty)


def _join_ty(kinds):
    kinds = set(kinds)
    if kinds == {"int"}:
        return INT
    if kinds == {"str"}:
        return STR
    if kinds <= {"int", "none"}:
        return OPTINT
    if kinds <= {"int", "float"}:
        return Q
    return None


class Reflector:
    """module-level constants of the imported module -> Coq definitions (emitted once each)"""
    def __init__(self):
        self.defs = {}    # coq name -> text
        self.tables = {}  # (pyname, variant) -> Table

    def namespace(self, module):
        core.setup_import_path()
        import importlib
        return importlib.import_module(module[:-3].replace("/", "."))

    def get(self, module, pyname, keykind=None):
        ns = self.namespace(module)
        if not hasattr(ns, pyname):
            raise Unsupported(None, "global name %s is not defined in %s" % (pyname, module))
        obj = getattr(ns, pyname)
        if isinstance(obj, dict):
            items = list(obj.items())
            kkinds = sorted({_kind(k) for k, _ in items})
            if len(kkinds) > 1 and set(kkinds) <= {"int", "none"}:
                kk = "optint"
            elif len(kkinds) > 1:
                # a dict with keys of several types (STEPS): one association list per key type
                if keykind is None:
                    raise Unsupported(None, "dict %s has keys of types %s and the key type is not known statically" % (pyname, kkinds))
                items = [(k, v) for k, v in items if _kind(k) == keykind]
                kk = keykind
            else:
                kk = kkinds[0] if kkinds else "str"
            kty = {"int": INT, "str": STR, "optint": OPTINT}.get(kk)
            if kty is None:
                raise Unsupported(None, "dict %s: keys of type %s" % (pyname, kk))
            if all(isinstance(v, tuple) for _, v in items) and items:
                n = len(items[0][1])
                vty = Tup([_join_ty([_kind(v[j]) for _, v in items]) for j in range(n)])
                if any(t is None for t in vty.items):
                    raise Unsupported(None, "dict %s: tuple values of mixed types" % pyname)
            else:
                vty = _join_ty([_kind(v) for _, v in items])
                if vty is None:
                    raise Unsupported(None, "dict %s: values of types %s" % (pyname, sorted({_kind(v) for _, v in items})))
            name = pyname + ("" if len(kkinds) <= 1 or kk == "optint" else "_" + kk)
            if name not in self.defs:
                rows = ["(%s, %s)" % (_lit(k, kty), _lit(v, vty)) for k, v in items]
                self.defs[name] = "Definition %s : list (%s * %s) :=\n  [%s]." % (name, cty(kty), cty(vty), ";\n   ".join(rows))
            return Table(name, "dict", kty, vty)
        if isinstance(obj, (list, tuple)):
            ety = _join_ty([_kind(v) for v in obj])
            if ety is None:
                raise Unsupported(None, "sequence %s: elements of types %s" % (pyname, sorted({_kind(v) for v in obj})))
            if pyname not in self.defs:
                self.defs[pyname] = "Definition %s : list %s :=\n  [%s]." % (pyname, cty(ety), "; ".join(_lit(v, ety) for v in obj))
            return Table(pyname, "list", INT, ety)
        raise Unsupported(None, "global %s is a %s: not a constant table" % (pyname, type(obj).__name__))


# ----------------------------------------------------------------------------- values
class Val:
    """a translated expression: `binds` are (name, option-typed term) to be run first, `term` is pure"""
    def __init__(self, term, ty, binds=None):
        self.term, self.ty, self.binds = term, ty, list(binds or [])


class LambdaVal:
    def __init__(self, node, env):
        self.node, self.env = node, env


class Translator:
    def __init__(self, reflector, done):
        self.R = reflector
        self.done = done          # qualname -> Target of already translated functions (callable)
        self.counter = 0
        self.uses_fuel = False
        self.size = 0

    def fresh(self, hint="t"):
        self.counter += 1
        return "%s%d" % (hint, self.counter)

    # ---- helpers
    def close(self, v):
        """Val -> one term of type option ty"""
        t = "Some %s" % par(v.term)
        for n, e in reversed(v.binds):
            t = "%s <- %s ;; %s" % (n, e, t)
        return t

    def fallible(self, optterm, ty, binds=()):
        n = self.fresh()
        return Val(n, ty, list(binds) + [(n, optterm)])

    def coerce(self, v, ty, node):
        if v.ty == ty:
            return v
        if ty == OPTINT and v.ty == INT:
            return Val("(Some %s)" % par(v.term), OPTINT, v.binds)
        if ty == OPTSTR and v.ty == STR:
            return Val("(Some %s)" % par(v.term), OPTSTR, v.binds)
        if ty == DYN and v.ty == INT:
            return Val("(PyInt %s)" % par(v.term), DYN, v.binds)
        if ty == DYN and v.ty == STR:
            return Val("(PyStr %s)" % par(v.term), DYN, v.binds)
        if ty == Q and v.ty == INT:
            return Val("(inject_Z %s)" % par(v.term), Q, v.binds)
        if v.ty == "nonelit":
            if ty in (OPTINT, OPTSTR):
                return Val("None", ty, v.binds)
            if ty == DYN:
                return Val("PyNone", DYN, v.binds)
        raise Unsupported(node, "a value of type %s where %s is needed" % (cty(v.ty), cty(ty)))

    def as_bool(self, v, node):
        if v.ty == BOOL:
            return v
        if v.ty == INT:     # truthiness of an int
            return Val("negb (%s =? 0)" % v.term, BOOL, v.binds)
        raise Unsupported(node, "truth value of a %s" % cty(v.ty))

    # ---- expressions
    def expr(self, e, env, want=None):
        self.size += 1
        if self.size > 4000:
            raise Unsupported(e, "translation too large")
        m = getattr(self, "e_" + type(e).__name__, None)
        if m is None:
            raise Unsupported(e, "expression %s" % type(e).__name__)
        v = m(e, env)
        if want is not None and not isinstance(v, LambdaVal):
            v = self.coerce(v, want, e)
        return v

    def e_Constant(self, e, env):
        c = e.value
        if c is None:
            return Val("None", "nonelit")
        if isinstance(c, bool):
            return Val("true" if c else "false", BOOL)
        if isinstance(c, int):
            return Val(cz(c), INT)
        if isinstance(c, str):
            return Val(cstr(c), STR)
        if isinstance(c, float) and c == int(c) and abs(c) < 2 ** 53:
            return Val("(inject_Z %s)" % cz(int(c)), Q)   # an integer-valued float literal (1e6), read exactly
        raise Unsupported(e, "constant %r (float arithmetic is outside the subset)" % (c,))

    def e_Name(self, e, env):
        if e.id in env:
            x = env[e.id]
            if isinstance(x, LambdaVal):
                return x
            return Val(x[0], x[1])
        if e.id in self.local_names:
            # assigned somewhere in the function, hence a local everywhere: reading it here is an UnboundLocalError
            # on some path, or a stale value from a previous loop iteration -- never the global of that name
            raise Unsupported(e, "local variable %s may be read before it is assigned on this path" % e.id)
        t = self.R.get(self.module, e.id)
        return Val(t.name, t)

    def e_Attribute(self, e, env):
        base = self.expr(e.value, env)
        if isinstance(base.ty, Rec):
            for f, ty in base.ty.fields:
                if f == e.attr:
                    return Val("%s%s %s" % (base.ty.prefix, f, par(base.term)), ty, base.binds)
            q = REC_PROPS.get(base.ty.name, {}).get(e.attr)
            if q and q in self.done:
                return self.call_target(self.done[q], [base], e)
            raise Unsupported(e, "attribute .%s of a %s" % (e.attr, base.ty.name))
        raise Unsupported(e, "attribute .%s of a %s" % (e.attr, cty(base.ty) if not isinstance(base.ty, Table) else "table"))

    def e_UnaryOp(self, e, env):
        v = self.expr(e.operand, env)
        if isinstance(e.op, ast.USub) and v.ty == INT:
            return Val("(- %s)" % par(v.term), INT, v.binds)
        if isinstance(e.op, ast.Not):
            v = self.as_bool(v, e)
            if v.term in ("true", "false") and not v.binds:
                return Val("false" if v.term == "true" else "true", BOOL)
            return Val("negb %s" % par(v.term), BOOL, v.binds)
        raise Unsupported(e, "unary %s on %s" % (type(e.op).__name__, cty(v.ty)))

    def e_BinOp(self, e, env):
        a, b = self.expr(e.left, env), self.expr(e.right, env)
        op = type(e.op).__name__
        binds = a.binds + b.binds
        if a.ty == INT and b.ty == INT:
            if op in ("Add", "Sub", "Mult"):
                return Val("(%s %s %s)" % (par(a.term), {"Add": "+", "Sub": "-", "Mult": "*"}[op], par(b.term)), INT, binds)
            if op in ("FloorDiv", "Mod"):
                lit = isinstance(e.right, ast.Constant) and isinstance(e.right.value, int) and e.right.value != 0
                if lit:   # Z.div / Z.modulo = Python's floor division for every sign of the divisor
                    return Val("(%s %s %s)" % (par(a.term), "/" if op == "FloorDiv" else "mod", par(b.term)), INT, binds)
                return self.fallible("%s %s %s" % ("py_floordiv" if op == "FloorDiv" else "py_mod", par(a.term), par(b.term)), INT, binds)
        if a.ty == STR and b.ty == STR and op == "Add":
            return Val("(%s ++ %s)%%string" % (par(a.term), par(b.term)), STR, binds)
        if op == "Mult" and {a.ty, b.ty} == {INT, STR}:
            n, s = (a, b) if a.ty == INT else (b, a)
            return Val("(py_str_repeat %s %s)" % (par(n.term), par(s.term)), STR, binds)
        if a.ty == STRLIST and b.ty == STRLIST and op == "Add":
            return Val("(%s ++ %s)" % (par(a.term), par(b.term)), STRLIST, binds)
        if a.ty == Q or b.ty == Q or (op == "Div" and a.ty == INT and b.ty == INT):
            # true division of ints is read as the exact rational (Python computes a float)
            a, b = self.coerce(a, Q, e), self.coerce(b, Q, e)
            if op in ("Add", "Sub", "Mult"):
                return Val("(%s %s %s)%%Q" % (par(a.term), {"Add": "+", "Sub": "-", "Mult": "*"}[op], par(b.term)), Q, binds)
            if op == "Div":
                return self.fallible("py_qdiv %s %s" % (par(a.term), par(b.term)), Q, binds)
        raise Unsupported(e, "operator %s on %s and %s" % (op, cty(a.ty), cty(b.ty)))

    def lazy2(self, a, b, mk, ty):
        """a OP b where b is evaluated only when needed; mk(aterm, bopt_or_term, b_fallible)"""
        if not b.binds:
            return Val(mk(a.term, b.term, False), ty, a.binds)
        return self.fallible(mk(a.term, self.close(b), True), ty, a.binds)

    def e_BoolOp(self, e, env):
        vals = [self.expr(x, env) for x in e.values]
        isand = isinstance(e.op, ast.And)
        if all(v.ty == BOOL for v in vals):
            acc = vals[-1]
            for v in reversed(vals[:-1]):
                if isand:
                    acc = self.lazy2(v, acc, lambda a, b, f: ("(if %s then %s else Some false)" if f else "(%s && %s)") % (par(a), par(b) if not f else b), BOOL)
                else:
                    acc = self.lazy2(v, acc, lambda a, b, f: ("(if %s then Some true else %s)" if f else "(%s || %s)") % (par(a), par(b) if not f else b), BOOL)
            return acc
        if not isand and len(vals) == 2 and not vals[1].binds:
            a, b = vals
            if a.ty == OPTINT and b.ty == INT:   # `x or 0`
                return Val("(py_or_optint %s %s)" % (par(a.term), par(b.term)), INT, a.binds)
            if a.ty == INT and b.ty == INT:
                return Val("(py_or_int %s %s)" % (par(a.term), par(b.term)), INT, a.binds)
        raise Unsupported(e, "`%s` on %s" % ("and" if isand else "or", ", ".join(cty(v.ty) for v in vals)))

    def e_IfExp(self, e, env):
        nar = self.narrowing(e.test, env)
        if nar is not None:   # `x if x is not None else d`  (either polarity): the option is opened by a match
            x, xnode, some_first = nar
            some_e, none_e = (e.body, e.orelse) if some_first else (e.orelse, e.body)
            if ast.dump(some_e) == ast.dump(xnode) and x.ty in (OPTINT, OPTSTR):
                d = self.expr(none_e, env, INT if x.ty == OPTINT else STR)
                if not d.binds:
                    return Val("(match %s with Some v => v | None => %s end)" % (x.term, d.term), d.ty, x.binds)
        c = self.as_bool(self.expr(e.test, env), e.test)
        if c.term in ("true", "false") and not c.binds:   # decided by the declared types: the dead arm is not translated
            return self.expr(e.body if c.term == "true" else e.orelse, env)
        a, b = self.expr(e.body, env), self.expr(e.orelse, env)
        if isinstance(a, LambdaVal) or isinstance(b, LambdaVal):
            raise Unsupported(e, "conditional between lambdas")
        if a.ty != b.ty:
            if a.ty == "nonelit":
                a = self.coerce(a, {INT: OPTINT, STR: OPTSTR}.get(b.ty, b.ty), e)
                b = self.coerce(b, a.ty, e)
            elif b.ty == "nonelit":
                b = self.coerce(b, {INT: OPTINT, STR: OPTSTR}.get(a.ty, a.ty), e)
                a = self.coerce(a, b.ty, e)
            else:
                try:
                    b = self.coerce(b, a.ty, e)
                except Unsupported:
                    a = self.coerce(a, b.ty, e)
        if not a.binds and not b.binds:
            return Val("(if %s then %s else %s)" % (c.term, a.term, b.term), a.ty, c.binds)
        return self.fallible("(if %s then %s else %s)" % (c.term, self.close(a), self.close(b)), a.ty, c.binds)

    def narrowing(self, test, env):
        """test is `X is None` / `X is not None` -> (Val of X, node of X, True when the TRUE arm is the not-None one)"""
        if isinstance(test, ast.Compare) and len(test.ops) == 1 and isinstance(test.ops[0], (ast.Is, ast.IsNot)) \
                and isinstance(test.comparators[0], ast.Constant) and test.comparators[0].value is None:
            x = self.expr(test.left, env)
            if not isinstance(x, LambdaVal) and x.ty in (OPTINT, OPTSTR):
                return x, test.left, isinstance(test.ops[0], ast.IsNot)
        return None

    def cmp1(self, op, a, b, node):
        opn = type(op).__name__
        binds = a.binds + b.binds
        if opn in ("Is", "IsNot", "Eq", "NotEq") and (a.ty == "nonelit" or b.ty == "nonelit"):
            x = b if a.ty == "nonelit" else a
            if x.ty in (OPTINT, OPTSTR):
                t = "match %s with None => true | Some _ => false end" % x.term
            elif x.ty == DYN:
                t = "pyval_eqb %s PyNone" % par(x.term)
            elif x.ty in (INT, STR, BOOL):   # an int / a str is never None
                return Val("false" if opn in ("Is", "Eq") else "true", BOOL, binds)
            else:
                raise Unsupported(node, "comparison of a %s with None" % cty(x.ty))
            return Val("(%s)" % t if opn in ("Is", "Eq") else "(negb (%s))" % t, BOOL, binds)
        if opn in ("Eq", "NotEq"):
            if a.ty == b.ty and a.ty in (INT, STR, BOOL, OPTINT, OPTSTR, DYN):
                f = {INT: "Z.eqb", STR: "String.eqb", BOOL: "Bool.eqb", OPTINT: "optint_eqb", OPTSTR: "sopt_eqb'", DYN: "pyval_eqb"}[a.ty]
                t = "(%s %s %s)" % (f, par(a.term), par(b.term))
            elif {a.ty, b.ty} == {INT, STR}:
                return Val("false" if opn == "Eq" else "true", BOOL, binds)   # an int never equals a str
            elif DYN in (a.ty, b.ty):
                t = "(pyval_eqb %s %s)" % (par(self.coerce(a, DYN, node).term), par(self.coerce(b, DYN, node).term))
            elif {a.ty, b.ty} == {OPTSTR, STR} or {a.ty, b.ty} == {OPTINT, INT}:
                ty = OPTSTR if STR in (a.ty, b.ty) else OPTINT
                t = "(%s %s %s)" % ("sopt_eqb'" if ty == OPTSTR else "optint_eqb", par(self.coerce(a, ty, node).term), par(self.coerce(b, ty, node).term))
            else:
                raise Unsupported(node, "== between %s and %s" % (cty(a.ty), cty(b.ty)))
            return Val(t if opn == "Eq" else "(negb %s)" % t, BOOL, binds)
        if opn in ("Lt", "LtE", "Gt", "GtE") and a.ty == INT and b.ty == INT:
            return Val("(%s %s %s)" % (par(a.term), {"Lt": "<?", "LtE": "<=?", "Gt": ">?", "GtE": ">=?"}[opn], par(b.term)), BOOL, binds)
        if opn in ("In", "NotIn"):
            t = None
            if isinstance(b.ty, Table):
                if b.ty.kind == "dict" and b.ty.kty == a.ty == STR:
                    t = "(py_in_strs %s (skeys %s))" % (par(a.term), b.term)
                elif b.ty.kind == "list" and b.ty.vty == a.ty == STR:
                    t = "(py_in_strs %s %s)" % (par(a.term), b.term)
                elif b.ty.kind == "list" and b.ty.vty == a.ty == INT:
                    t = "(py_in_ints %s %s)" % (par(a.term), b.term)
            elif b.ty == STRLIST and a.ty == STR:
                t = "(py_in_strs %s %s)" % (par(a.term), par(b.term))
            elif b.ty == INTLIST and a.ty == INT:
                t = "(py_in_ints %s %s)" % (par(a.term), par(b.term))
            elif b.ty == "dynlist" and a.ty in (DYN, INT, STR, OPTINT):
                if a.ty == OPTINT:
                    raise Unsupported(node, "optional int in a mixed tuple")
                t = "(py_in_vals %s %s)" % (par(self.coerce(a, DYN, node).term), par(b.term))
            elif b.ty == STR and a.ty == STR:   # substring test, one-character needle only
                v = self.fallible("py_contains1 %s %s" % (par(a.term), par(b.term)), BOOL, binds)
                return v if opn == "In" else Val("(negb %s)" % v.term, BOOL, v.binds)
            if t is None:
                raise Unsupported(node, "`in` between %s and %s" % (cty(a.ty), b.ty if not isinstance(b.ty, Table) else "table " + b.ty.name))
            return Val(t if opn == "In" else "(negb %s)" % t, BOOL, binds)
        raise Unsupported(node, "comparison %s between %s and %s" % (opn, cty(a.ty), cty(b.ty)))

    def e_Compare(self, e, env):
        operands = [self.expr(e.left, env)]
        for op, x in zip(e.ops, e.comparators):
            if isinstance(op, (ast.In, ast.NotIn)) and isinstance(x, ast.Tuple):
                x = ast.copy_location(ast.List(elts=x.elts, ctx=ast.Load()), x)   # membership in a tuple literal = in a list literal
            operands.append(self.expr(x, env))
        parts = [self.cmp1(op, operands[i], operands[i + 1], e) for i, op in enumerate(e.ops)]
        if len(parts) == 1:
            return parts[0]
        if any(p.binds and i > 0 for i, p in enumerate(parts)):
            raise Unsupported(e, "chained comparison with a failing operand")
        return Val("(" + " && ".join(p.term for p in parts) + ")", BOOL, parts[0].binds)

    def e_Tuple(self, e, env):
        vals = [self.expr(x, env) for x in e.elts]
        binds = [b for v in vals for b in v.binds]
        if any(v.ty == "nonelit" or isinstance(v.ty, Table) for v in vals if not isinstance(v, LambdaVal)):
            raise Unsupported(e, "tuple with None / table component")
        return Val("(" + ", ".join(v.term for v in vals) + ")", Tup([v.ty for v in vals]), binds)

    def e_List(self, e, env):
        vals = [self.expr(x, env) for x in e.elts]
        binds = [b for v in vals for b in v.binds]
        kinds = {v.ty for v in vals}
        if kinds == {STR}:
            return Val("[" + "; ".join(v.term for v in vals) + "]", STRLIST, binds)
        if kinds == {INT}:
            return Val("[" + "; ".join(v.term for v in vals) + "]", INTLIST, binds)
        if kinds <= {INT, STR, "nonelit", DYN}:
            return Val("[" + "; ".join(self.coerce(v, DYN, e).term for v in vals) + "]", "dynlist", binds)
        raise Unsupported(e, "list of %s" % sorted(map(str, kinds)))

    def e_JoinedStr(self, e, env):
        parts, binds = [], []
        for p in e.values:
            if isinstance(p, ast.Constant) and isinstance(p.value, str):
                parts.append(cstr(p.value))
            elif isinstance(p, ast.FormattedValue) and p.conversion == -1 and p.format_spec is None:
                v = self.expr(p.value, env)
                binds += v.binds
                if v.ty == STR:
                    parts.append(par(v.term))
                elif v.ty == INT:
                    parts.append("(py_str_Z %s)" % par(v.term))
                else:
                    raise Unsupported(p, "f-string field of type %s" % cty(v.ty))
            else:
                raise Unsupported(p, "f-string with conversion / format spec")
        return Val("(" + " ++ ".join(parts or ['""']) + ")%string", STR, binds)

    def e_Lambda(self, e, env):
        return LambdaVal(e, dict(env))

    def e_Subscript(self, e, env):
        base = self.expr(e.value, env) if not (isinstance(e.value, ast.Name) and e.value.id not in env) else None
        sl = e.slice
        if base is None or isinstance(base.ty, Table):   # module-level table: the key type selects the association list of a mixed dict
            if isinstance(sl, ast.Slice):
                raise Unsupported(e, "slice of a global")
            k = self.expr(sl, env)
            kk = {INT: "int", STR: "str", OPTINT: "optint", OPTSTR: "str"}.get(k.ty)
            t = self.R.get(self.module, e.value.id, keykind=kk) if base is None else base.ty
            if base is not None:
                k = Val(k.term, k.ty, base.binds + k.binds)
            if t.kind == "dict" and t.kty == STR and k.ty == OPTSTR:   # a None key is a KeyError
                return self.fallible("slookup_o %s %s" % (par(k.term), t.name), t.vty, k.binds)
            if t.kind == "dict":
                if t.kty == OPTINT:
                    k = self.coerce(k, OPTINT, e)
                if k.ty != t.kty:
                    raise Unsupported(e, "key of type %s for table %s with keys %s" % (cty(k.ty), t.name, cty(t.kty)))
                f = {INT: "zlookup", STR: "slookup", OPTINT: "olookup"}[t.kty]
                return self.fallible("%s %s %s" % (f, par(k.term), t.name), t.vty, k.binds)
            if k.ty != INT:
                raise Unsupported(e, "index of type %s into %s" % (cty(k.ty), t.name))
            return self.fallible("py_nth %s %s" % (t.name, par(k.term)), t.vty, k.binds)
        if base.ty in (STRLIST, INTLIST):
            ety = STR if base.ty == STRLIST else INT
            if isinstance(sl, ast.Slice):
                def lit(x):
                    return isinstance(x, ast.Constant) and isinstance(x.value, int) and x.value >= 0
                if sl.step is not None:
                    if sl.lower is None and sl.upper is None and isinstance(sl.step, ast.UnaryOp) and isinstance(sl.step.op, ast.USub) \
                            and isinstance(sl.step.operand, ast.Constant) and sl.step.operand.value == 1:
                        return Val("(rev %s)" % par(base.term), base.ty, base.binds)
                    raise Unsupported(e, "slice step")
                if sl.lower is not None and sl.upper is None and lit(sl.lower):
                    return Val("(py_slice_from %s %d)" % (par(base.term), sl.lower.value), base.ty, base.binds)
                if sl.upper is not None and sl.lower is None and lit(sl.upper):
                    return Val("(py_slice_to %s %d)" % (par(base.term), sl.upper.value), base.ty, base.binds)
                raise Unsupported(e, "slice bounds")
            k = self.expr(sl, env, INT)
            return self.fallible("py_nth %s %s" % (par(base.term), par(k.term)), ety, base.binds + k.binds)
        if base.ty == STR and isinstance(sl, ast.Constant) and sl.value == 0:
            return self.fallible("py_str_head %s" % par(base.term), STR, base.binds)
        if isinstance(base.ty, Tup) and isinstance(sl, ast.Constant) and isinstance(sl.value, int) and 0 <= sl.value < len(base.ty.items):
            n, i = len(base.ty.items), sl.value
            names = ["_"] * n
            names[i] = "x"
            return Val("(let '(%s) := %s in x)" % (", ".join(names), base.term), base.ty.items[i], base.binds)
        raise Unsupported(e, "subscript of a %s" % (cty(base.ty) if not isinstance(base.ty, Table) else "table"))

    def call_target(self, tgt, args, node):
        """call of an already translated function (positional Vals, coerced to the declared types)"""
        ptys = ([("self", tgt.self_type)] if tgt.self_type else []) + list(tgt.params)
        if len(args) != len(ptys):
            raise Unsupported(node, "call of %s with %d arguments" % (tgt.qualname, len(args)))
        cargs = [self.coerce(a, ty, node) for a, (_, ty) in zip(args, ptys)]
        binds = [b for a in cargs for b in a.binds]
        fuel = ""
        if getattr(tgt, "uses_fuel", False):
            self.uses_fuel = True
            fuel = "fuel "
        rty = tgt.ret
        if tgt.mutates:
            raise Unsupported(node, "call of the state-passing function %s inside an expression" % tgt.qualname)
        return self.fallible("%s %s%s" % (tgt.coqname, fuel, " ".join(par(a.term) for a in cargs)), rty, binds)

    def e_Call(self, e, env):
        f = e.func
        if e.keywords and not isinstance(f, ast.Name):
            raise Unsupported(e, "keyword arguments in a method call")
        if isinstance(f, ast.Name):
            if f.id in env and isinstance(env[f.id], LambdaVal):
                lam = env[f.id]
                la = lam.node.args
                if la.vararg or la.kwarg or la.kwonlyargs or la.defaults or len(la.args) != len(e.args) or e.keywords:
                    raise Unsupported(e, "lambda application shape")
                env2 = dict(lam.env)
                for n in ast.walk(lam.node.body):   # a closure sees the CURRENT binding of its free variables
                    if isinstance(n, ast.Name) and n.id in lam.env and lam.env.get(n.id) is not env.get(n.id) and lam.env.get(n.id) != env.get(n.id):
                        raise Unsupported(e, "free variable %s of the lambda was rebound between its definition and this call" % n.id)
                binds, lets = [], []
                for p, a in zip(la.args, e.args):
                    v = self.expr(a, env)
                    binds += v.binds
                    n = self.fresh(cname(p.arg))
                    lets.append((n, v.term))
                    env2[p.arg] = (n, v.ty)
                body = self.expr(lam.node.body, env2)
                term = body.term
                if body.binds:
                    inner = self.close(body)
                    for n, t in reversed(lets):
                        inner = "let %s := %s in %s" % (n, t, inner)
                    return self.fallible("(%s)" % inner, body.ty, binds)
                for n, t in reversed(lets):
                    term = "let %s := %s in %s" % (n, t, term)
                return Val("(%s)" % term, body.ty, binds)
            if f.id == "abs" and len(e.args) == 1:
                v = self.expr(e.args[0], env, INT)
                return Val("(Z.abs %s)" % par(v.term), INT, v.binds)
            if f.id == "str" and len(e.args) == 1:
                v = self.expr(e.args[0], env)
                if v.ty == INT:
                    return Val("(py_str_Z %s)" % par(v.term), STR, v.binds)
                if v.ty == STR:
                    return v
                raise Unsupported(e, "str() of a %s" % cty(v.ty))
            if f.id == "int" and len(e.args) == 1:
                v = self.expr(e.args[0], env)
                if v.ty == INT:
                    return v
                raise Unsupported(e, "int() of a %s" % cty(v.ty))
            if f.id == "float" and len(e.args) == 1:   # float(x) of an int / a rational: read exactly
                v = self.expr(e.args[0], env)
                if v.ty in (INT, Q):
                    return self.coerce(v, Q, e)
                raise Unsupported(e, "float() of a %s" % cty(v.ty))
            if f.id == "len" and len(e.args) == 1:
                v = self.expr(e.args[0], env)
                if v.ty == STR:
                    return Val("(py_len %s)" % par(v.term), INT, v.binds)
                if v.ty in (STRLIST, INTLIST):
                    return Val("(Z.of_nat (List.length %s))" % par(v.term), INT, v.binds)
                raise Unsupported(e, "len() of a %s" % cty(v.ty))
            if f.id == "isinstance" and len(e.args) == 2 and isinstance(e.args[1], ast.Name):
                v = self.expr(e.args[0], env)
                cls = e.args[1].id
                static = {INT: {"int": True, "str": False}, STR: {"int": False, "str": True}}
                if v.ty in static and cls in static[v.ty]:   # decided by the declared type
                    return Val("true" if static[v.ty][cls] else "false", BOOL, v.binds)
                raise Unsupported(e, "isinstance(%s, %s)" % (cty(v.ty), cls))
            if f.id == "Fraction":
                if len(e.args) == 2:
                    a, b = self.expr(e.args[0], env, INT), self.expr(e.args[1], env, INT)
                    return self.fallible("py_fraction %s %s" % (par(a.term), par(b.term)), Q, a.binds + b.binds)
                if len(e.args) == 1:
                    v = self.expr(e.args[0], env)
                    if v.ty in (Q, INT):
                        return self.coerce(v, Q, e)
                raise Unsupported(e, "Fraction(...) shape")
            tgt = next((t for q, t in self.done.items() if q == f.id and t.module == self.module), None) or \
                next((t for q, t in self.done.items() if q == f.id), None)
            if tgt is not None:
                fn, _ = find_def(tgt.module, tgt.qualname)
                names = [a.arg for a in fn.args.args]
                slots = {}
                for i, a in enumerate(e.args):
                    slots[names[i]] = a
                for kw in e.keywords:
                    if kw.arg is None or kw.arg in slots or kw.arg not in names:
                        raise Unsupported(e, "keyword argument %s" % kw.arg)
                    slots[kw.arg] = kw.value
                defaults = dict(zip(names[len(names) - len(fn.args.defaults):], fn.args.defaults))
                args = []
                for n in names:
                    node = slots.get(n, defaults.get(n))
                    if node is None:
                        raise Unsupported(e, "missing argument %s" % n)
                    args.append(self.expr(node, env))
                return self.call_target(tgt, args, e)
            raise Unsupported(e, "call of %s" % f.id)
        if isinstance(f, ast.Attribute) and isinstance(f.value, ast.Name) and f.value.id == "np" and "np" not in env:
            if f.attr == "mod" and len(e.args) == 2:   # np.mod on Python ints = the % operator (sign of the divisor)
                new = ast.copy_location(ast.BinOp(left=e.args[0], op=ast.Mod(), right=e.args[1]), e)
                return self.expr(new, env)
            raise Unsupported(e, "numpy function np.%s" % f.attr)
        if isinstance(f, ast.Attribute):
            recv = self.expr(f.value, env)
            args = [self.expr(a, env) for a in e.args]
            binds = recv.binds + [b for a in args for b in a.binds]
            if recv.ty == STR:
                if f.attr in ("lower", "upper", "capitalize") and not args:
                    return Val("(py_%s %s)" % (f.attr, par(recv.term)), STR, binds)
                if f.attr == "count" and len(args) == 1 and args[0].ty == STR:
                    return self.fallible("py_count1 %s %s" % (par(recv.term), par(args[0].term)), INT, binds)
                if f.attr == "format" and isinstance(f.value, ast.Constant) and re.fullmatch(r"(\{\})*", f.value.value or "x") and len(args) == f.value.value.count("{}"):
                    parts = []
                    for a in args:
                        if a.ty == STR:
                            parts.append(par(a.term))
                        elif a.ty == INT:
                            parts.append("(py_str_Z %s)" % par(a.term))
                        else:
                            raise Unsupported(e, "format() argument of type %s" % cty(a.ty))
                    return Val("(" + " ++ ".join(parts or ['""']) + ")%string", STR, [b for a in args for b in a.binds])
            if isinstance(recv.ty, Rec) and recv.ty.name == "PySymDur" and f.attr == "get" and len(e.args) in (1, 2) \
                    and isinstance(e.args[0], ast.Constant) and isinstance(e.args[0].value, str):
                # d.get("key"[, default]) on a dict with optional keys: an absent key is the field None
                for fn, fty in recv.ty.fields:
                    if fn == e.args[0].value:
                        proj = "%s%s %s" % (recv.ty.prefix, fn, par(recv.term))
                        if len(args) == 1 or args[1].ty == "nonelit":
                            return Val("(%s)" % proj, fty, binds)
                        base = {OPTINT: INT, OPTSTR: STR}[fty]
                        d = self.coerce(args[1], base, e)
                        return Val("(match %s with Some v => v | None => %s end)" % (proj, d.term), base, binds)
                raise Unsupported(e, "key %r of a symbolic duration" % e.args[0].value)
            if recv.ty == STRLIST and f.attr == "index" and len(args) == 1 and args[0].ty == STR:
                return self.fallible("py_index %s %s" % (par(recv.term), par(args[0].term)), INT, binds)
            if isinstance(recv.ty, Table) and recv.ty.kind == "dict":
                if f.attr == "keys" and not args and recv.ty.kty == STR:
                    return Val("(skeys %s)" % recv.term, STRLIST, binds)
                if f.attr == "get" and len(args) in (1, 2) and args[0].ty == recv.ty.kty:
                    fn = {INT: "zlookup", STR: "slookup", OPTINT: "olookup"}[recv.ty.kty]
                    if len(args) == 2:
                        d = self.coerce(args[1], recv.ty.vty, e)
                        return Val("(match %s %s %s with Some v => v | None => %s end)" % (fn, par(args[0].term), recv.term, d.term), recv.ty.vty, binds)
            raise Unsupported(e, "method .%s on a %s" % (f.attr, cty(recv.ty) if not isinstance(recv.ty, Table) else "table"))
        raise Unsupported(e, "call shape")

    # ---- statements
    def ret_term(self, v, env, node):
        """the function's result: Some (state, value) / Some value"""
        tgt = self.tgt
        parts = []
        if tgt.mutates:
            parts.append(env[tgt.mutates][0])
        if tgt.ret != NONE:
            if v is None:
                raise Unsupported(node, "returns None where a %s is declared" % cty(tgt.ret))
            if isinstance(tgt.ret, Tup) and isinstance(v.ty, Tup) and len(v.ty.items) == len(tgt.ret.items) and v.ty != tgt.ret:
                raise Unsupported(node, "returns %s where %s is declared" % (cty(v.ty), cty(tgt.ret)))
            v = self.coerce(v, tgt.ret, node)
            parts.append(v.term)
        elif v is not None and v.ty != "nonelit":
            raise Unsupported(node, "returns a value where None is declared")
        t = "Some " + ("(" + ", ".join(parts) + ")" if len(parts) != 1 else par(parts[0])) if parts else "Some tt"
        return self.with_binds(v.binds if v is not None else [], t)

    def with_binds(self, binds, t):
        for n, e in reversed(binds):
            t = "%s <- %s ;;\n%s" % (n, e, t)
        return t

    def assigned(self, stmts):
        out = []
        for s in ast.walk(ast.Module(body=list(stmts), type_ignores=[])):
            if isinstance(s, (ast.Assign, ast.AugAssign)):
                for t in (s.targets if isinstance(s, ast.Assign) else [s.target]):
                    for n in ast.walk(t):
                        if isinstance(n, ast.Name) and n.id not in out:
                            out.append(n.id)
                        if isinstance(n, ast.Attribute) and isinstance(n.value, ast.Name) and n.value.id not in out:
                            out.append(n.value.id)
        return out

    def assign_to(self, target, v, env, node):
        """-> (let-line, new env)"""
        env = dict(env)
        if isinstance(target, ast.Name):
            if isinstance(v, LambdaVal):
                env[target.id] = v
                return "", env
            if v.ty == "nonelit":
                raise Unsupported(node, "a variable bound to None (type unknown)")
            if isinstance(v.ty, Table):
                env[target.id] = (v.term, v.ty)   # an alias of a global table
                return "", env
            n = cname(target.id)
            env[target.id] = (n, v.ty)
            return "let %s := %s in\n" % (n, v.term), env
        if isinstance(target, ast.Attribute) and isinstance(target.value, ast.Name) and target.value.id in env:
            rn, rty = env[target.value.id]
            if isinstance(rty, Rec):
                if target.value.id != self.tgt.mutates:
                    raise Unsupported(node, "write to %s.%s, which is not declared as mutated" % (target.value.id, target.attr))
                for f, fty in rty.fields:
                    if f == target.attr:
                        v = self.coerce(v, fty, node)
                        return "let %s := set_%s%s %s %s in\n" % (rn, rty.prefix, f, rn, par(v.term)), env
        raise Unsupported(node, "assignment target")

    def block(self, stmts, env, depth=0):
        self.size += 1
        if self.size > 4000:
            raise Unsupported(stmts[0] if stmts else None, "translation too large (branch duplication)")
        if not stmts:
            if self.loop_exit is not None:
                return self.loop_exit(env)
            return self.ret_term(None, env, None) if self.tgt.ret == NONE else self._falloff()
        s, rest = stmts[0], stmts[1:]
        k = type(s).__name__
        if k == "Pass" or k == "Global" or (k == "Expr" and isinstance(s.value, ast.Constant) and isinstance(s.value.value, str)):
            return self.block(rest, env, depth)
        if k == "Return":
            if self.loop_exit is not None:
                raise Unsupported(s, "return inside a loop")
            return self.ret_term(self.expr(s.value, env) if s.value is not None else None, env, s)
        if k == "Raise":
            return "None"
        if k == "Assert":
            c = self.as_bool(self.expr(s.test, env), s.test)
            return self.with_binds(c.binds, "if %s then\n%s\nelse None" % (c.term, self.block(rest, env, depth)))
        if k == "Assign":
            if len(s.targets) != 1:
                raise Unsupported(s, "chained assignment")
            tg = s.targets[0]
            if isinstance(tg, ast.Tuple):
                if isinstance(s.value, ast.Tuple) and len(s.value.elts) == len(tg.elts):
                    vals = [self.expr(x, env) for x in s.value.elts]
                    binds = [b for v in vals for b in v.binds]
                    tmps, out = [], ""
                    for v in vals:       # all right-hand sides are evaluated before any target is bound
                        n = self.fresh("u")
                        tmps.append(Val(n, v.ty))
                        out += "let %s := %s in\n" % (n, v.term)
                    for t, v in zip(tg.elts, tmps):
                        line, env = self.assign_to(t, v, env, s)
                        out += line
                    return self.with_binds(binds, out + self.block(rest, env, depth))
                v = self.expr(s.value, env)
                if isinstance(v.ty, Tup) and len(v.ty.items) == len(tg.elts) and all(isinstance(t, ast.Name) for t in tg.elts):
                    env = dict(env)
                    names = []
                    for t, ty in zip(tg.elts, v.ty.items):
                        env[t.id] = (cname(t.id), ty)
                        names.append(cname(t.id))
                    return self.with_binds(v.binds, "let '(%s) := %s in\n" % (", ".join(names), v.term) + self.block(rest, env, depth))
                raise Unsupported(s, "tuple assignment shape")
            val = s.value
            if isinstance(val, ast.Tuple) and isinstance(tg, ast.Name) and val.elts and all(isinstance(x, ast.Constant) and isinstance(x.value, (int, str)) for x in val.elts):
                val = ast.copy_location(ast.List(elts=val.elts, ctx=ast.Load()), val)   # a tuple of constants bound to a name: a sequence constant
            v = self.expr(val, env)
            if isinstance(v, LambdaVal):
                _, env = self.assign_to(tg, v, env, s)
                return self.block(rest, env, depth)
            line, env2 = self.assign_to(tg, v, env, s)
            return self.with_binds(v.binds, line + self.block(rest, env2, depth))
        if k == "AugAssign":
            new = ast.BinOp(left=ast_load(s.target), op=s.op, right=s.value)
            ast.copy_location(new, s)
            v = self.expr(new, env)
            line, env2 = self.assign_to(s.target, v, env, s)
            return self.with_binds(v.binds, line + self.block(rest, env2, depth))
        if k == "If":
            c = self.as_bool(self.expr(s.test, env), s.test)
            if c.term in ("true", "false") and not c.binds:
                # the test is decided by the DECLARED parameter types (isinstance / int == str / int is None):
                # the unreachable arm is not translated
                live = s.body if c.term == "true" else s.orelse
                return "(* `if %s` is statically %s for the declared types *)\n" % (src(s.test), c.term.capitalize()) + self.block(list(live) + rest, env, depth)
            a = self.block(list(s.body) + rest, env, depth + 1)
            b = self.block(list(s.orelse) + rest, env, depth + 1)
            return self.with_binds(c.binds, "if %s then\n%s\nelse\n%s" % (c.term, indent(a), indent(b)))
        if k == "While":
            if s.orelse:
                raise Unsupported(s, "while ... else")
            for n in ast.walk(ast.Module(body=list(s.body), type_ignores=[])):
                if isinstance(n, (ast.Break, ast.Continue, ast.Return, ast.While, ast.For)):
                    raise Unsupported(n, "%s inside a while loop" % type(n).__name__)
            if self.loop_exit is not None:
                raise Unsupported(s, "nested loop")
            state = [v for v in self.assigned(s.body) if v in env and not isinstance(env[v], LambdaVal)]
            missing = [v for v in self.assigned(s.body) if v not in env]
            # variables first assigned inside the loop are local to one iteration only if not read after it
            for v in missing:
                for n in ast.walk(ast.Module(body=list(rest), type_ignores=[])):
                    if isinstance(n, ast.Name) and n.id == v:
                        raise Unsupported(s, "variable %s is first assigned inside the loop and read after it" % v)
            if not state:
                raise Unsupported(s, "loop without state")
            self.uses_fuel = True
            stt = "(" + ", ".join(env[v][0] for v in state) + ")" if len(state) > 1 else env[state[0]][0]
            sty = " * ".join(cty(env[v][1]) for v in state)
            lp = self.fresh("loop")
            params = " ".join("(%s : %s)" % (env[v][0], cty(env[v][1])) for v in state)
            c = self.as_bool(self.expr(s.test, env), s.test)

            def exit_(env_after, state=state, lp=lp):
                return "%s fuel' %s" % (lp, " ".join(par(env_after[v][0]) for v in state))
            self.loop_exit = exit_
            try:
                body = self.block(list(s.body), env, depth + 1)
            finally:
                self.loop_exit = None
            loop = ("(fix %s (fuel_ : nat) %s {struct fuel_} : option (%s) :=\n  match fuel_ with\n  | O => None\n  | S fuel' =>\n%s\n  end)"
                    % (lp, params, sty, indent(self.with_binds(c.binds, "if %s then\n%s\nelse Some %s" % (c.term, indent(body), stt)), 4)))
            after = self.block(rest, env, depth)
            pat = "'%s" % stt if len(state) > 1 else stt
            return "%s <- %s fuel %s ;;\n%s" % (pat, loop, " ".join(env[v][0] for v in state), after)
        raise Unsupported(s, "statement %s" % k)

    def _falloff(self):
        raise Unsupported(None, "control reaches the end of the function where a %s is declared" % cty(self.tgt.ret))

    loop_exit = None
    local_names = frozenset()

    def function(self, tgt):
        self.tgt, self.module = tgt, tgt.module
        fn, seg = find_def(tgt.module, tgt.qualname)
        a = fn.args
        if a.vararg or a.kwarg or a.kwonlyargs or getattr(a, "posonlyargs", []):
            raise Unsupported(fn, "*args / **kwargs / keyword-only parameters")
        for d in a.defaults:
            if not isinstance(d, ast.Constant):
                raise Unsupported(d, "non-constant default")
        for d in fn.decorator_list:
            if not (isinstance(d, ast.Name) and d.id == "property"):
                raise Unsupported(d, "decorator")
        names = [x.arg for x in a.args]
        declared = ([("self", tgt.self_type)] if tgt.self_type else []) + list(tgt.params)
        if names != [n for n, _ in declared]:
            raise Unsupported(fn, "parameters %s, declared %s" % (names, [n for n, _ in declared]))
        env = {n: (cname(n), ty) for n, ty in declared}
        self.local_names = set(self.assigned(fn.body)) | set(names)
        body = self.block(list(fn.body), env)
        rty = []
        if tgt.mutates:
            rty.append(cty(dict(declared)[tgt.mutates]))
        if tgt.ret != NONE:
            rty.append(cty(tgt.ret))
        rtxt = " * ".join(rty) if rty else "unit"
        params = " ".join("(%s : %s)" % (cname(n), cty(ty)) for n, ty in declared)
        tgt.uses_fuel = self.uses_fuel
        if self.uses_fuel:
            params = "(fuel : nat) " + params
        text = "Definition %s %s : option (%s) :=\n%s." % (tgt.coqname, params, rtxt, indent(body))
        return text, seg


def src(node):
    try:
        return ast.unparse(node).replace("*)", "* )").replace("(*", "( *")
    except Exception:
        return "?"


def ast_load(t):
    import copy
    t = copy.deepcopy(t)
    for n in ast.walk(t):
        if hasattr(n, "ctx"):
            n.ctx = ast.Load()
    return t


def par(t):
    t = t.strip()
    if re.fullmatch(r"[\w'.]+", t) or (t.startswith("(") and _balanced(t)) or (t.startswith('"') and t.endswith("%string") and t.count('"') == 2) or t.startswith("["):
        return t
    return "(" + t + ")"


def _balanced(t):
    d = 0
    for i, c in enumerate(t):
        if c == "(":
            d += 1
        elif c == ")":
            d -= 1
            if d == 0 and i != len(t) - 1:
                return t.endswith(")%string") and i == len(t) - 8 or t.endswith(")%Q") and i == len(t) - 3
    return d == 0


def indent(t, n=2):
    return "\n".join(" " * n + l for l in t.split("\n"))


# ----------------------------------------------------------------------------- driver
def translate(module_path, qualname, reflector=None, done=None):
    """-> the Coq definition text of one target function (read from the working tree).  Raises Unsupported.
    `done`: {qualname: Target} of the functions already translated (callable from this one)."""
    tgt = next(t for t in TARGETS if t.module == module_path and t.qualname == qualname)
    tr = Translator(reflector or Reflector(), done if done is not None else {})
    return tr.function(tgt)[0]


# what the stub of an untranslatable function is (Model/T1_spec.v holds the right-hand sides of the
# equivalence theorems; a stub re-exports it under the T1 name so that the project still builds)
GEN_FILES = {MUSIC: "T1_music", SCORE: "T1_score"}
# tables the PROOFS mention by name: emitted even when every function that uses them is a stub; when a table cannot be
# reflected any more (renamed / retyped upstream) the snapshot below stands in (then no translated function uses it)
PROOF_TABLES = [('MIDI_BASE_CLASS', None), ('BASE_PC', None), ('STEPS', 'str'), ('STEPS', 'int'), ('INTERVAL_TO_SEMITONES', None), ('INTERVALCLASSES', None), ('MAJOR_KEYS', None), ('MINOR_KEYS', None), ('CLEF_TO_INT', None), ('INT_TO_CLEF', None), ('LABEL_DURS', None), ('ALTER_SIGNS', None), ('DUMMY_PS_BASE_CLASS', None), ('DOT_MULTIPLIERS', None)]
TABLE_FALLBACK = {'DOT_MULTIPLIERS': 'Definition DOT_MULTIPLIERS : list Q :=\n  [(1 # 1)%Q; (3 # 2)%Q; (7 # 4)%Q; (15 # 8)%Q].',
 'ALTER_SIGNS': 'Definition ALTER_SIGNS : list (option Z * string) :=\n'
                '  [(None, ""%string);\n'
                '   ((Some 0), ""%string);\n'
                '   ((Some 1), "#"%string);\n'
                '   ((Some 2), "x"%string);\n'
                '   ((Some (-1)), "b"%string);\n'
                '   ((Some (-2)), "bb"%string)].',
 'BASE_PC': 'Definition BASE_PC : list (string * Z) :=\n'
            '  [("C"%string, 0);\n'
            '   ("D"%string, 2);\n'
            '   ("E"%string, 4);\n'
            '   ("F"%string, 5);\n'
            '   ("G"%string, 7);\n'
            '   ("A"%string, 9);\n'
            '   ("B"%string, 11)].',
 'CLEF_TO_INT': 'Definition CLEF_TO_INT : list (string * Z) :=\n'
                '  [("G"%string, 0);\n'
                '   ("F"%string, 1);\n'
                '   ("C"%string, 2);\n'
                '   ("percussion"%string, 3);\n'
                '   ("TAB"%string, 4);\n'
                '   ("jianpu"%string, 5);\n'
                '   ("none"%string, 6)].',
 'DUMMY_PS_BASE_CLASS': 'Definition DUMMY_PS_BASE_CLASS : list (Z * (string * Z)) :=\n'
                        '  [(0, ("c"%string, 0));\n'
                        '   (1, ("c"%string, 1));\n'
                        '   (2, ("d"%string, 0));\n'
                        '   (3, ("d"%string, 1));\n'
                        '   (4, ("e"%string, 0));\n'
                        '   (5, ("f"%string, 0));\n'
                        '   (6, ("f"%string, 1));\n'
                        '   (7, ("g"%string, 0));\n'
                        '   (8, ("g"%string, 1));\n'
                        '   (9, ("a"%string, 0));\n'
                        '   (10, ("a"%string, 1));\n'
                        '   (11, ("b"%string, 0))].',
 'INTERVALCLASSES': 'Definition INTERVALCLASSES : list string :=\n'
                    '  ["dd2"%string; "d2"%string; "m2"%string; "M2"%string; "A2"%string; "AA2"%string; "dd3"%string; "d3"%string; "m3"%string; '
                    '"M3"%string; "A3"%string; "AA3"%string; "dd6"%string; "d6"%string; "m6"%string; "M6"%string; "A6"%string; "AA6"%string; '
                    '"dd7"%string; "d7"%string; "m7"%string; "M7"%string; "A7"%string; "AA7"%string; "dd1"%string; "d1"%string; "P1"%string; '
                    '"A1"%string; "AA1"%string; "dd4"%string; "d4"%string; "P4"%string; "A4"%string; "AA4"%string; "dd5"%string; "d5"%string; '
                    '"P5"%string; "A5"%string; "AA5"%string].',
 'INTERVAL_TO_SEMITONES': 'Definition INTERVAL_TO_SEMITONES : list (string * Z) :=\n'
                          '  [("dd2"%string, (-1));\n'
                          '   ("d2"%string, 0);\n'
                          '   ("m2"%string, 1);\n'
                          '   ("M2"%string, 2);\n'
                          '   ("A2"%string, 3);\n'
                          '   ("AA2"%string, 4);\n'
                          '   ("dd3"%string, 1);\n'
                          '   ("d3"%string, 2);\n'
                          '   ("m3"%string, 3);\n'
                          '   ("M3"%string, 4);\n'
                          '   ("A3"%string, 5);\n'
                          '   ("AA3"%string, 6);\n'
                          '   ("dd6"%string, 6);\n'
                          '   ("d6"%string, 7);\n'
                          '   ("m6"%string, 8);\n'
                          '   ("M6"%string, 9);\n'
                          '   ("A6"%string, 10);\n'
                          '   ("AA6"%string, 11);\n'
                          '   ("dd7"%string, 8);\n'
                          '   ("d7"%string, 9);\n'
                          '   ("m7"%string, 10);\n'
                          '   ("M7"%string, 11);\n'
                          '   ("A7"%string, 12);\n'
                          '   ("AA7"%string, 13);\n'
                          '   ("dd1"%string, (-2));\n'
                          '   ("d1"%string, (-1));\n'
                          '   ("P1"%string, 0);\n'
                          '   ("A1"%string, 1);\n'
                          '   ("AA1"%string, 2);\n'
                          '   ("dd4"%string, 3);\n'
                          '   ("d4"%string, 4);\n'
                          '   ("P4"%string, 5);\n'
                          '   ("A4"%string, 6);\n'
                          '   ("AA4"%string, 7);\n'
                          '   ("dd5"%string, 5);\n'
                          '   ("d5"%string, 6);\n'
                          '   ("P5"%string, 7);\n'
                          '   ("A5"%string, 8);\n'
                          '   ("AA5"%string, 9)].',
 'INT_TO_CLEF': 'Definition INT_TO_CLEF : list (Z * string) :=\n'
                '  [(0, "G"%string);\n'
                '   (1, "F"%string);\n'
                '   (2, "C"%string);\n'
                '   (3, "percussion"%string);\n'
                '   (4, "TAB"%string);\n'
                '   (5, "jianpu"%string);\n'
                '   (6, "none"%string)].',
 'LABEL_DURS': 'Definition LABEL_DURS : list (string * Q) :=\n'
               '  [("long"%string, (16 # 1)%Q);\n'
               '   ("breve"%string, (8 # 1)%Q);\n'
               '   ("whole"%string, (4 # 1)%Q);\n'
               '   ("half"%string, (2 # 1)%Q);\n'
               '   ("h"%string, (2 # 1)%Q);\n'
               '   ("quarter"%string, (1 # 1)%Q);\n'
               '   ("q"%string, (1 # 1)%Q);\n'
               '   ("eighth"%string, (1 # 2)%Q);\n'
               '   ("e"%string, (1 # 2)%Q);\n'
               '   ("16th"%string, (1 # 4)%Q);\n'
               '   ("32nd"%string, (1 # 8)%Q);\n'
               '   ("64th"%string, (1 # 16)%Q);\n'
               '   ("128th"%string, (1 # 32)%Q);\n'
               '   ("256th"%string, (1 # 64)%Q)].',
 'MAJOR_KEYS': 'Definition MAJOR_KEYS : list string :=\n'
               '  ["Cb"%string; "Gb"%string; "Db"%string; "Ab"%string; "Eb"%string; "Bb"%string; "F"%string; "C"%string; "G"%string; "D"%string; '
               '"A"%string; "E"%string; "B"%string; "F#"%string; "C#"%string].',
 'MIDI_BASE_CLASS': 'Definition MIDI_BASE_CLASS : list (string * Z) :=\n'
                    '  [("c"%string, 0);\n'
                    '   ("d"%string, 2);\n'
                    '   ("e"%string, 4);\n'
                    '   ("f"%string, 5);\n'
                    '   ("g"%string, 7);\n'
                    '   ("a"%string, 9);\n'
                    '   ("b"%string, 11)].',
 'MINOR_KEYS': 'Definition MINOR_KEYS : list string :=\n'
               '  ["Ab"%string; "Eb"%string; "Bb"%string; "F"%string; "C"%string; "G"%string; "D"%string; "A"%string; "E"%string; "B"%string; '
               '"F#"%string; "C#"%string; "G#"%string; "D#"%string; "A#"%string].',
 'STEPS_int': 'Definition STEPS_int : list (Z * string) :=\n'
              '  [(0, "C"%string);\n'
              '   (1, "D"%string);\n'
              '   (2, "E"%string);\n'
              '   (3, "F"%string);\n'
              '   (4, "G"%string);\n'
              '   (5, "A"%string);\n'
              '   (6, "B"%string)].',
 'STEPS_str': 'Definition STEPS_str : list (string * Z) :=\n'
              '  [("C"%string, 0);\n'
              '   ("D"%string, 1);\n'
              '   ("E"%string, 2);\n'
              '   ("F"%string, 3);\n'
              '   ("G"%string, 4);\n'
              '   ("A"%string, 5);\n'
              '   ("B"%string, 6)].'}
STUB_EXTRA_ARGS = {"midi_pitch_to_pitch_spelling": " DUMMY_PS_BASE_CLASS"}


def py_semantics_check():
    """floor division / modulo of the running interpreter against Z.div / Z.modulo on a grid of signs"""
    rows = []
    for a in list(range(-25, 26)) + [-1000003, 1000003, 2 ** 70 + 1, -(2 ** 70) - 1]:
        for b in (-12, -7, -2, -1, 1, 2, 7, 12, 2 ** 40 + 3, -(2 ** 40) - 3):
            rows.append("(%s, %s, %s, %s)" % (cz(a), cz(b), cz(a // b), cz(a % b)))
    strs = ["(%s, %s)" % (cz(n), cstr(str(n))) for n in (0, 1, 7, 9, 10, 12, 99, 100, 1048576, -1, -10, -12345)]
    cases = ["(%s, %s, %s, %s)" % (cstr(s), cstr(s.lower()), cstr(s.upper()), cstr(s.capitalize()))
             for s in ("", "c", "C", "bB", "F#m", "eS", "percussion", "TAB", "[@`{", "aZ09", "AA", "dd")]
    return ("(* the running interpreter's // and %% (floor division, sign of the divisor), str(int), str.lower/upper/capitalize\n"
            "   against the Gallina operations the translation uses *)\n"
            "Example py_divmod_is_Zdiv_Zmod : forallb (fun r => let '(a, b, q, m) := r in (a / b =? q) && (a mod b =? m))\n  [%s] = true.\nProof. vm_compute. reflexivity. Qed.\n"
            "Example py_str_is_py_str_Z : forallb (fun r => String.eqb (py_str_Z (fst r)) (snd r)) [%s] = true.\nProof. vm_compute. reflexivity. Qed.\n"
            "Example py_case_is_py_case : forallb (fun r => let '(s, l, u, c) := r in String.eqb (py_lower s) l && String.eqb (py_upper s) u && String.eqb (py_capitalize s) c)\n  [%s] = true.\nProof. vm_compute. reflexivity. Qed.\n"
            % ("; ".join(rows), "; ".join(strs), "; ".join(cases)))


_LAST = None


def gen(validate=True):
    """Write coq/Gen/T1_music.v and T1_score.v.  Returns {qualname: {"status": "translated"|"untranslatable", "sha1":..., "why":..., "coq":...}}.
    With validate, the generated file is compiled; a definition Coq rejects (a gap in the translator's typing) is
    replaced by its stub and reported as untranslatable -- fail closed, never a build that cannot proceed."""
    global _LAST
    forced = {}
    env = os.environ.get("T1_FORCE_STUB", "")   # self-test of the fall-back: T1_FORCE_STUB=ALL | qualname,qualname
    for tg in TARGETS:
        if env == "ALL" or tg.qualname in env.split(","):
            forced[tg.qualname] = "forced by T1_FORCE_STUB (self-test of the soft fall-back)"
    for _ in range(len(TARGETS) + 1):
        status, sections = _gen_once(forced)
        if not validate:
            break
        ok, log = core.coq_make(["Gen/T1_score.vo"])
        if ok:
            break
        m = re.search(r'File "\./Gen/T1_music\.v", line (\d+)', log)
        if not m:
            break   # something else does not build (Lib / Model): reported by the caller's coq_props
        line = int(m.group(1))
        hit = None
        for q, first in sections:
            if first <= line:
                hit = q
        if hit is None or hit in forced:
            break
        err = " ".join(log.splitlines()[-6:])
        forced[hit] = "the generated definition is rejected by Coq (%s)" % re.sub(r"\s+", " ", err)[:300]
    _LAST = status
    return status


def _gen_once(forced):
    _SRC.clear()
    R = Reflector()
    done, status, order = {}, {}, []
    for tg in TARGETS:
        info = {"module": tg.module, "coq": "T1_music.%s" % tg.coqname}
        try:
            _, seg = find_def(tg.module, tg.qualname)
            info["sha1"] = hashlib.sha1(seg.encode()).hexdigest()
        except Unsupported as e:
            seg, info["sha1"] = None, None
        hdr = "(* ---- %s :: %s   sha1(source segment) = %s ---- *)\n" % (tg.module, tg.qualname, info["sha1"])
        try:
            if tg.qualname in forced:
                raise Unsupported(None, forced[tg.qualname])
            tr = Translator(R, done)
            text, seg = tr.function(tg)
            info["status"] = "translated"
            body = hdr + text + "\nDefinition %s_is_translated : bool := true.\n" % tg.coqname
        except Unsupported as e:
            info["status"], info["why"] = "untranslatable", str(e)
            tg.uses_fuel = tg.qualname == "find_smallest_unit"
            body = (hdr + "(* NOT TRANSLATED: %s.\n   Stub: the right-hand side of the equivalence theorem (the hand model) under the T1 name, so that the\n"
                    "   project still builds; the T1 tie is ABSENT for this function in this run. *)\n" % str(e).replace("*)", "* )").replace("(*", "( *") +
                    "Definition %s := PV.Model.T1_spec.spec_%s%s.\nDefinition %s_is_translated : bool := false.\n"
                    % (tg.coqname, tg.coqname, STUB_EXTRA_ARGS.get(tg.qualname, ""), tg.coqname))
        done[tg.qualname] = tg
        order.append((tg.qualname, body))
        status[tg.qualname] = info
    for q, why in NOT_TRANSLATABLE.items():
        status[q] = {"status": "not attempted", "why": why}
    for pyname, kk in PROOF_TABLES:
        try:
            R.get(MUSIC, pyname, kk)
        except Exception:
            cn = pyname + ("_" + kk if kk else "")
            if cn not in R.defs:
                R.defs[cn] = "(* %s could not be reflected: snapshot *)\n" % pyname + TABLE_FALLBACK[cn]
    head = ("(* GENERATED by harness/t1.py (Python ast -> Gallina, fail closed) from the working tree -- do not edit.\n"
            "   Source: %s and %s.  One section per function, with the sha1 of the function's source segment; score.py and\n"
            "   music.py functions call each other, so all definitions are here in dependency order and Gen/T1_score.v\n"
            "   re-exports the score.py ones.  Result encoding: option R, None = the call raised.  See coq/Lib/Py.v. *)\n"
            "From PV Require Import Lib.Base Lib.Py.\nFrom PV Require Model.C12 Model.T1_spec.\nFrom Coq Require Import QArith.\n#[local] Open Scope Z_scope.\n\n" % (MUSIC, SCORE))
    music = head + "(* ---- reflected module-level constants ---- *)\n" + "\n".join(R.defs.values()) + "\n\n" + py_semantics_check() + "\n"
    sections = []
    for q, body in order:
        sections.append((q, music.count("\n") + 1))
        music += body + "\n"
    score = ("(* GENERATED by harness/t1.py -- do not edit.  The functions of %s translated in Gen/T1_music.v, re-exported. *)\n"
             "From PV Require Export Gen.T1_music.\n" % SCORE +
             "\n".join("Definition %s := T1_music.%s." % (tg.coqname, tg.coqname) for tg in TARGETS if tg.module == SCORE) + "\n")
    core.write_gen("T1_music", music)
    core.write_gen("T1_score", score)
    return status, sections


# ----------------------------------------------------------------------------- the tie, per property
FUNCS = {
    "C12": ["pitch_spelling_to_midi_pitch", "step2pc", "Interval.semitones", "Interval.validate", "find_smallest_unit",
            "pitch_spelling_to_note_name", "key_mode_to_int", "key_int_to_mode", "clef_sign_to_int", "clef_int_to_sign",
            "fifths_mode_to_key_name", "key_name_to_fifths_mode", "ensure_pitch_spelling_format", "midi_pitch_to_pitch_spelling",
            "symbolic_to_numeric_duration", "midi_ticks_to_seconds", "Tuplet.duration_multiplier", "Note.midi_pitch", "Note.alter_sign", "KeySignature.name"],
    "C16": ["_transpose_step", "_transpose_note_inplace", "transpose_note", "step2pc", "Interval.semitones"],
}
PROOF_FILES = {"C12": ["Proofs/T1_core.v", "Proofs/C12_t1.v"], "C16": ["Proofs/T1_core.v", "Proofs/C16_t1.v"]}
SUBSET = ("def with positional parameters, assignments, if/elif/else, return, pass, raise/assert (-> None), while on fuel, "
          "int literals, + - * // %, unary -, abs, comparisons and chains, and/or/not, conditional expressions, `x or 0`, "
          "`is None`, strings with == + int*str f-strings .lower/.upper/.capitalize/.count/`in`, str(int), len, TABLE[key] / "
          ".get / `in` on reflected module-level dicts, lists and tuples, local list literals with constant slices, [::-1], "
          ".index, calls to translated functions, tuple returns, inlined local lambdas, attribute reads/writes on "
          "Note/Interval/Tuplet/KeySignature records (state-passing), Fraction; parameter types are declared in TARGETS")

STEPS7 = ["C", "D", "E", "F", "G", "A", "B"]
QUALS = ["dd", "d", "m", "M", "P", "A", "AA"]
UNITS = ["long", "breve", "whole", "half", "h", "quarter", "q", "eighth", "e", "16th", "32nd", "64th", "128th", "256th"]
KEYNAMES = ["Cb", "Gb", "Db", "Ab", "Eb", "Bb", "F", "C", "G", "D", "A", "E", "B", "F#", "C#",
            "Abm", "Ebm", "Bbm", "Fm", "Cm", "Gm", "Dm", "Am", "Em", "Bm", "F#m", "C#m", "G#m", "D#m", "A#m"]
MODEVALS = ["major", "minor", None, "none", 1, -1, "dorian", 0, "Major", 2, ""]


def _pool(tgt, pname, ty, rng):
    """values for one parameter: the tabulated domain, its borders, and values far beyond it"""
    big = [rng.randint(-10 ** 9, 10 ** 9) for _ in range(3)]
    if ty == STR:
        if pname in ("step",):
            return STEPS7 + [s.lower() for s in STEPS7] + ["r", "R", "H", "", "Cb", "cc", "x"]
        if pname == "direction":
            return ["up", "down"] + ([] if tgt.qualname == "_transpose_note_inplace" else ["Up", "", "sideways"])
        if pname == "clef_sign":
            return ["G", "F", "C", "percussion", "TAB", "jianpu", "none", "X", "", "g"]
        if pname == "key_name":
            return KEYNAMES   # the equivalence is stated on the 30 names
        if pname == "quality":
            return QUALS + ["", "x", "p", "Ad", "d1"]
        return ["", "a", "Z"]
    if ty == INT:
        if pname == "alter":
            lim = 3 if tgt.qualname == "pitch_spelling_to_note_name" else 12   # guard -3..3 of the note-name theorem
            return list(range(-3, 4)) + [rng.randint(-lim, lim) for _ in range(4)] + ([] if lim == 3 else big[:1])
        if pname == "octave":
            return list(range(-1, 10)) + [rng.randint(-60, 120) for _ in range(4)] + [rng.randint(10, 10 ** 4), -rng.randint(2, 10 ** 4)] + big[:2]
        if pname in ("interval", "number"):
            return list(range(-1, 17)) + [rng.randint(9, 60) for _ in range(3)] + [rng.randint(16, 10 ** 6), -rng.randint(2, 10 ** 6)]
        if pname == "divs" and tgt.qualname == "symbolic_to_numeric_duration":
            return [1, 2, 12, 480, 0, -4, rng.randint(1, 10 ** 6)]
        if pname == "divs":
            return [d for d in list(range(-8, 65)) + [rng.randint(1, 10 ** 9) for _ in range(6)] + [2 ** 40, 3 * 2 ** 70, -5 * 2 ** 33] if d != 0]
        if pname == "clef_int":
            return list(range(-2, 9)) + big[:1]
        if pname == "fifths":
            return list(range(-12, 13)) + [rng.randint(-10 ** 4, 10 ** 4) for _ in range(6)] + big[:2]
        if pname == "midi_pitch":
            return list(range(0, 128, 5)) + list(range(-13, 14)) + [rng.randint(-600, 1500) for _ in range(8)] + \
                [rng.randint(128, 10 ** 5) for _ in range(6)] + [-rng.randint(1, 10 ** 5) for _ in range(3)] + big
        if pname in ("actual_notes", "normal_notes"):
            return [0, 1, 2, 3, 5, 6, 7, -3, 12, rng.randint(1, 1000)]
        if pname == "midi_ticks":
            return [0, 1, 479, 480, 5000, -3, rng.randint(0, 10 ** 6), rng.randint(-10 ** 9, 10 ** 9)]
        if pname == "mpq":
            return [500000, 600000, 333333, 1, rng.randint(1000, 2 * 10 ** 6)]
        if pname == "ppq":
            return [480, 96, 1, 0, 1000, rng.randint(1, 2000)]
        return list(range(-3, 4)) + big
    if ty == OPTINT:
        if pname == "dots":
            return [None, 0, 1, 2, 3, 4, -1, -4, -5, 7]
        if pname in ("actual_notes", "normal_notes"):
            return [None, 0, 1, 2, 3, 5, 6, 7, -3, rng.randint(1, 1000)]
        return [None] + list(range(-3, 4)) + [rng.randint(-12, 12) for _ in range(3)] + big[:1]
    if ty == OPTSTR:
        return [None, ""] + UNITS + ["eigth"]

    if ty == DYN:
        return MODEVALS
    if isinstance(ty, Rec):
        fields = [(_pool(tgt, f, fty, rng)) for f, fty in ty.fields]
        return ("rec", fields)
    raise ValueError(ty)


def samples(tgt, rng, n):
    declared = ([("self", tgt.self_type)] if tgt.self_type else []) + list(tgt.params)
    pools = [_pool(tgt, p, ty, rng) for p, ty in declared]

    def draw(pool, full_i=None):
        if isinstance(pool, tuple):
            return tuple(rng.choice(f) for f in pool[1])
        return rng.choice(pool)
    flat = []
    for p in pools:
        flat += list(p[1]) if isinstance(p, tuple) else [p]
    total = 1
    for f in flat:
        total *= len(f)
    out = []
    if total <= n:   # the whole product
        import itertools
        for combo in itertools.product(*flat):
            args, i = [], 0
            for p in pools:
                if isinstance(p, tuple):
                    k = len(p[1])
                    args.append(tuple(combo[i:i + k]))
                    i += k
                else:
                    args.append(combo[i])
                    i += 1
            out.append(tuple(args))
        return out
    seen = set()
    for k in range(n * 3):
        if k % 40 == 39:   # fresh random members (values far beyond the tabulated domain) every 40 draws
            pools = [_pool(tgt, p, ty, rng) for p, ty in declared]
        a = tuple(draw(p) for p in pools)
        if repr(a) not in seen:
            seen.add(repr(a))
            out.append(a)
        if len(out) >= n:
            break
    return out


def cval(v, ty):
    if ty == INT:
        return cz(v) + "%Z"
    if ty == STR:
        return cstr(v)
    if ty == OPTINT:
        return "None" if v is None else "(Some %s%%Z)" % cz(v)
    if ty == OPTSTR:
        return "None" if v is None else "(Some %s)" % cstr(v)
    if ty == DYN:
        return "PyNone" if v is None else "(PyInt %s%%Z)" % cz(v) if isinstance(v, int) else "(PyStr %s)" % cstr(v)
    if ty == Q:
        fr = Fraction(v)
        return "(%s # %d)%%Q" % (cz(fr.numerator), fr.denominator)
    if ty == NONE:
        return "tt"
    if isinstance(ty, Rec):
        ctor = {"PyNote": "mk_note", "PyInterval": "mk_interval", "PyTuplet": "mk_tuplet", "PyKeySig": "mk_keysig", "PySymDur": "mk_symdur"}[ty.name]
        return "(%s %s)" % (ctor, " ".join(cval(x, fty) for x, (_, fty) in zip(v, ty.fields)))
    if isinstance(ty, Tup):
        return "(" + ", ".join(cval(x, t) for x, t in zip(v, ty.items)) + ")"
    raise ValueError(ty)


def result_type(tgt):
    if tgt.mutates:
        return dict(tgt.params)[tgt.mutates] if tgt.ret == NONE else Tup([dict(tgt.params)[tgt.mutates], tgt.ret])
    return tgt.ret


AGREE = {INT: "zopt_agree", STR: "sopt_agree", "PyNote": "nopt_agree", NONE: "uopt_agree", Q: "qopt_agree",
         "(string * Z)": "szopt_agree", "(Z * string)": "zsopt_agree", "(string * Z * Z)": "szzopt_agree"}


# functions whose Python result is a float: the translated definition is the EXACT rational reading of the source;
# against the running function it is compared with relative tolerance 1e-9
FLOAT_VALUED = {"symbolic_to_numeric_duration", "midi_ticks_to_seconds"}


def agree_fn(tgt, impl=False):
    if impl and tgt.qualname in FLOAT_VALUED:
        return "qopt_close"
    return AGREE[cty(result_type(tgt))]


def _norm(v, ty):
    """a Python result as a value of the declared type, or raise TypeError"""
    try:
        import numpy as np
        if isinstance(v, np.generic):
            v = v.item()
    except ImportError:
        pass
    if ty == INT:
        if isinstance(v, bool) or not isinstance(v, int):
            if isinstance(v, float) and v == int(v):
                return int(v)
            raise TypeError("not an int: %r" % (v,))
        return v
    if ty == STR:
        if not isinstance(v, str) or not all(32 <= ord(c) < 127 for c in v):
            raise TypeError("not an ASCII str: %r" % (v,))
        return v
    if ty == OPTINT:
        return None if v is None else _norm(v, INT)
    if ty == Q:
        return Fraction(v)
    if ty == NONE:
        return None
    if isinstance(ty, Tup):
        if not isinstance(v, tuple) or len(v) != len(ty.items):
            raise TypeError("not a %d-tuple: %r" % (len(ty.items), v))
        return tuple(_norm(x, t) for x, t in zip(v, ty.items))
    raise TypeError(ty)


def real_object(S, ty, a):
    """An argument object built the way users build it: a REAL instance made by the class's constructor (never a
    duck-typed stand-in: an attribute the class sets up in __init__ must exist, and nothing the class does not have may
    be reachable).  Field values the constructor rejects (Interval.validate) or normalises (Note upper-cases the step)
    are assigned afterwards -- the fields are public attributes."""
    vals = [(f, x) for (f, _), x in zip(ty.fields, a)]
    d = dict(vals)
    if ty.name == "PyInterval":
        try:
            o = S.Interval(d["number"], d["quality"], d["direction"])
        except Exception:
            o = S.Interval(1, "P", "up")
    elif ty.name == "PyNote":
        try:
            o = S.Note(step=d["step"], octave=d["octave"], alter=d["alter"])
        except Exception:
            o = S.Note(step="C", octave=4, alter=None)
    elif ty.name == "PyTuplet":
        o = S.Tuplet(actual_notes=d["actual_notes"], normal_notes=d["normal_notes"], actual_type=d["actual_type"], normal_type=d["normal_type"])
    elif ty.name == "PyKeySig":
        o = S.KeySignature(d["fifths"], d["mode"])
    else:
        raise ValueError(ty.name)
    for f, x in vals:
        cur = getattr(o, f)
        if type(cur) is not type(x) or cur != x:
            setattr(o, f, x)
    return o


def run_impl(tgt, args):
    """the REAL function on one sample -> ('ok', value of the result type) | ('err', exception name).
    Record-typed arguments (self included) are real partitura objects (real_object)."""
    import partitura.score as S
    import partitura.utils.music as M

    declared = ([("self", tgt.self_type)] if tgt.self_type else []) + list(tgt.params)
    objs = []
    for a, (p, ty) in zip(args, declared):
        if isinstance(ty, Rec):
            if ty.name == "PySymDur":   # a dict; an absent key is the field None
                objs.append({f: x for (f, _), x in zip(ty.fields, a) if x is not None})
            else:
                objs.append(real_object(S, ty, a))
        else:
            objs.append(a)
    try:
        if tgt.module == SCORE:
            cls, attr = tgt.qualname.split(".")
            f = getattr(getattr(S, cls), attr)
            f = f.fget if isinstance(f, property) else f
        else:
            f = getattr(M, tgt.qualname)
        r = f(*objs)
        if tgt.mutates:
            i = [p for p, _ in declared].index(tgt.mutates)
            rec = declared[i][1]
            state = tuple(_norm(getattr(objs[i], fn), fty) for fn, fty in rec.fields)
            return ("ok", state if tgt.ret == NONE else (state, _norm(r, tgt.ret)))
        return ("ok", _norm(r, tgt.ret))
    except RecursionError:
        raise
    except Exception as e:
        return ("err", type(e).__name__ + (": " + str(e)[:80] if isinstance(e, TypeError) else ""))


def call_term(prefix, name, tgt, args, extra=""):
    declared = ([("self", tgt.self_type)] if tgt.self_type else []) + list(tgt.params)
    fuel = "200%nat " if getattr(tgt, "uses_fuel", False) else ""
    return "(%s%s%s %s%s)" % (prefix, name, extra, fuel, " ".join(cval(a, ty) for a, (_, ty) in zip(args, declared)))


def cres(r, tgt):
    if r[0] != "ok":
        return "None"
    rt = result_type(tgt)
    return "(Some %s)" % cval(r[1], rt)


T1_IMPORTS = ("From PV Require Import Lib.Base Lib.Py Model.T1_spec.\nFrom PV Require Gen.T1_music.\nFrom Coq Require Import QArith.\n"
              "Open Scope Z_scope.")


def failing_lemma(log, files):
    """(file, line, lemma) of the first error of a coqc log, lemma = the last Theorem/Lemma before that line"""
    m = re.search(r'File "\./([^"]+)", line (\d+), characters [\d-]+:\s*\n\s*Error', log) or \
        [x for x in re.finditer(r'File "\./([^"]+)", line (\d+)', log)][-1:]
    if not m:
        return None, None, None
    m = m if not isinstance(m, list) else m[0]
    rel, line = m.group(1), int(m.group(2))
    lemma = None
    try:
        with open(os.path.join(core.COQ, rel)) as f:
            for i, l in enumerate(f, 1):
                if i > line:
                    break
                mm = re.match(r"\s*(?:Theorem|Lemma|Corollary|Example)\s+([\w']+)", l)
                if mm:
                    lemma = mm.group(1)
    except OSError:
        pass
    return rel, line, lemma


def tie(ctx, pid):
    """Run from cXX.run() BEFORE ctx.coq_props.  Returns True when nothing is wrong with the T1 tie
    (including: absent for some function, soft fall-back)."""
    status = _LAST if _LAST is not None else gen()
    mine = FUNCS[pid]
    byq = {t.qualname: t for t in TARGETS}
    ctx.extra["t1"] = {}
    for q in mine:
        s = status[q]
        ctx.extra["t1"][q] = ("translated (sha1 %s, Gen/T1_music.v: %s)" % (s["sha1"], s["coq"])) if s["status"] == "translated" \
            else "untranslatable: %s -- the T1 tie is ABSENT for this function in this run (stub = hand model; decided by T2 + correspondence + theorems about the hand model)" % s.get("why")
    for q, s in status.items():
        if s["status"] == "not attempted" and pid == "C12":
            ctx.extra["t1"][q] = "not translatable: " + s["why"]
    absent = [q for q in mine if status[q]["status"] != "translated"]
    ctx.trusted.append("harness/t1.py (Python ast -> Gallina translator, fail closed; declared parameter types; subset: %s)" % SUBSET)
    ctx.count("t1:translated", len(mine) - len(absent))
    ctx.count("t1:untranslatable", len(absent))
    ok, log = core.coq_make(["Proofs/%s_t1.vo" % pid])
    translated = [q for q in mine if status[q]["status"] == "translated"]
    name = "T1 tie: %s compile -- for each of %d functions translated from the source text in this run (%s) the translated definition equals the hand model for all arguments%s" % (
        " + ".join(PROOF_FILES[pid]), len(translated), ", ".join(translated),
        "; ABSENT (outside the translator's subset, stubbed) for: " + ", ".join(absent) if absent else "")
    rel, line, lemma = (None, None, None) if ok else failing_lemma(log, PROOF_FILES[pid])
    if not ok and rel not in PROOF_FILES[pid]:
        # not a T1 proof: a model / generated file does not build; coq_props reports it
        ctx.extra["t1_build"] = "closure of Proofs/%s_t1.v does not build at %s:%s (not a T1 proof file)" % (pid, rel, line)
        return False
    # sampled three-way comparison: implementation / translated definition / hand model (spec)
    rng = ctx.rng
    per = 120 if ctx.tier == "quick" else 1200
    if not ok:
        per = 2500
    rows = []   # (tgt, args, impl result)
    for q in translated:
        tgt = byq[q]
        for a in samples(tgt, rng, per):
            rows.append((tgt, a, run_impl(tgt, a)))
    ctx.evaluations += len(rows)

    def terms(kind):
        out = []
        for tgt, a, r in rows:
            t1 = call_term("T1_music.", tgt.coqname, tgt, a)
            if kind == "impl":
                out.append("%s %s %s" % (agree_fn(tgt, impl=True), t1, cres(r, tgt)))
            else:
                out.append("%s %s %s" % (agree_fn(tgt), t1, call_term("spec_", tgt.coqname, tgt, a, STUB_EXTRA_ARGS.get(tgt.qualname, "").replace(" ", " T1_music."))))
        return out

    def describe(i):
        tgt, a, r = rows[i]
        t1v = ctx.coq_eval(T1_IMPORTS, call_term("T1_music.", tgt.coqname, tgt, a))
        spv = ctx.coq_eval(T1_IMPORTS, call_term("spec_", tgt.coqname, tgt, a, STUB_EXTRA_ARGS.get(tgt.qualname, "").replace(" ", " T1_music.")))
        clean = lambda s: re.sub(r"\s+", " ", re.split(r"\n\s*: ", s)[0].replace("=", "", 1)).strip() if s else s
        return tgt, a, r, clean(t1v), clean(spv)

    if not ok:
        ctx.obligation(name, False, "%s:%s lemma %s\n%s" % (rel, line, lemma, "\n".join(log.splitlines()[-12:])))
        try:
            diff = ctx.coq_failing("t1_vs_model", T1_IMPORTS, "", terms("spec"), "fun b : bool => b", shard=1500, ty="bool")
        except RuntimeError as e:
            diff, ctx.extra["t1_search_error"] = [], str(e)[-800:]
        for i in diff[:3]:
            tgt, a, r, t1v, spv = describe(i)
            ctx.violation("T1 tie: the source of %s now says something the verified model does not: on %r the definition translated from the "
                          "source gives %s, the implementation gives %r, the hand model (about which the theorems are proved) gives %s; "
                          "equivalence lemma %s (%s:%s) no longer checks" % (tgt.qualname, a, t1v, r, spv, lemma, rel, line),
                          {"kind": "t1", "function": tgt.qualname, "module": tgt.module, "args": list(a), "translated_definition": t1v,
                           "implementation": list(r), "hand_model": spv, "lemma": lemma})
        if not diff:
            ctx.violation("T1 tie: equivalence lemma %s (%s:%s) between the definition translated from the source and the hand model no longer "
                          "checks; no differing input among %d sampled arguments" % (lemma, rel, line, len(rows)),
                          {"kind": "t1", "lemma": lemma, "file": rel, "line": line, "coqc": "\n".join(log.splitlines()[-20:])}, no_input=True)
        return False
    ctx.obligation(name, True)
    # the translator itself: translated definition = the running function on sampled arguments
    try:
        bad = ctx.coq_failing("t1_vs_impl", T1_IMPORTS, "", terms("impl"), "fun b : bool => b", shard=1500, ty="bool")
        detail = bad[:5]
    except RuntimeError as e:
        bad, detail = [-1], str(e)[-800:]
    ctx.obligation("correspondence: the definitions translated by harness/t1.py evaluate (vm_compute) to what the running functions return "
                   "(None = raised) on %d sampled arguments of %d functions (tabulated domains, their borders, and integers up to 10^9)" % (len(rows), len(translated)),
                   not bad, detail)
    for i in bad[:3]:
        if i < 0:
            ctx.violation("T1 translator correspondence could not be evaluated in Coq: " + str(detail)[-500:], {"kind": "t1", "error": str(detail)}, no_input=True)
            continue
        tgt, a, r, t1v, spv = describe(i)
        stubbed = [q for q, st in status.items() if st["status"] == "untranslatable"]
        ctx.violation("T1 correspondence: the definition translated from the source of %s gives %s on %r, the running function gives %r (%s)"
                      % (tgt.qualname, t1v, a, r,
                         "functions outside the translator's subset in this run are replaced by the hand model inside the translated definitions "
                         "that call them: %s -- the implementation disagrees with the hand model there" % ", ".join(stubbed) if stubbed else
                         "the translation is not faithful, or the function depends on something outside its text"),
                      {"kind": "t1", "function": tgt.qualname, "module": tgt.module, "args": list(a), "translated_definition": t1v, "implementation": list(r), "hand_model": spv})
    for tgt, a, r in rows[:1]:
        ctx.sample({"t1_case": {"function": tgt.qualname, "args": list(a), "implementation": list(r)}})
    return not bad


def replay(r):
    """re-run one stored T1 replay on the implementation"""
    byq = {t.qualname: t for t in TARGETS}
    tgt = byq.get(r.get("function"))
    if tgt is None:
        print("recorded:", r)
        return 0
    declared = ([("self", tgt.self_type)] if tgt.self_type else []) + list(tgt.params)
    args = tuple(tuple(a) if isinstance(a, list) else a for a in r["args"])
    print("%s%r: implementation now gives %r" % (tgt.qualname, args, run_impl(tgt, args)))
    print("recorded: translated definition %s, implementation %r, hand model %s" % (r.get("translated_definition"), r.get("implementation"), r.get("hand_model")))
    return 0
